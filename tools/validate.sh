#!/bin/sh
# dev-time validation of MANIFEST.json and evidence files against the given schemas (uses the tooling venv)
python3-vt - <<'PY'
import json, jsonschema, glob, sys
m=json.load(open('/verif/MANIFEST.json'))
jsonschema.validate(m, json.load(open('/root/.vp/MANIFEST.schema.json')))
print('MANIFEST ok:', len(m['checks']), 'checks')
s=json.load(open('/root/.vp/EVIDENCE.schema.json'))
for p in sorted(glob.glob('/verif/evidence/C*.json')):
    jsonschema.validate(json.load(open(p)), s)
print('evidence ok:', len(glob.glob('/verif/evidence/C*.json')))
PY

#!/venv/bin/python
"""Regenerates section 4 of DESIGN.md (per-property rule tables) by running every rule on /repo.

usage: PYTHONPATH=/verif /venv/bin/python tools/rule_table.py [--write]
Without --write the tables are printed; with --write the text between the '## 4.' heading and the
'Remarks on individual rules' line of DESIGN.md is replaced.
"""
import importlib
import json
import sys

sys.path.insert(0, "/verif")

from sa.check import run_rules  # noqa: E402
from sa.model import Repo  # noqa: E402

PROPS = [f"C{i:02d}" for i in range(1, 21)]


def main():
    repo = Repo("/repo")
    titles = {}
    with open("/verif/properties.jsonl", encoding="utf-8") as fh:
        for line in fh:
            if line.strip():
                rec = json.loads(line)
                titles[rec["id"]] = rec.get("title", "")
    out = ["## 4. Per-property rules (as implemented; counts are those of today's tree)", ""]
    total_rules = total_inst = 0
    for p in PROPS:
        mod = importlib.import_module(f"sa.rules.{p.lower()}")
        runs, errors = run_rules(mod, repo)
        if errors:
            raise SystemExit(f"{p}: {errors}")
        out.append(f"**{p} — {titles.get(p) or mod.TITLE}**")
        out.append("")
        out.append("| rule | decides | instances today | findings today |")
        out.append("|---|---|---|---|")
        for r in runs:
            ex = " (exhaustive)" if r.exhaustive else ""
            what = r.what.replace("|", "\\|")
            out.append(f"| `{r.rule}` | {what} | {len(r.instances)}{ex} | {len(r.findings)} |")
            total_rules += 1
            total_inst += len(r.instances)
        out.append("")
        out.append(f"Not decided: {mod.NOT_DECIDED}")
        out.append("")
    out.append(f"In total {total_rules} rules examine {total_inst} instances on today's tree.")
    out.append("")
    text = "\n".join(out)
    if "--write" not in sys.argv:
        print(text)
        return
    path = "/verif/DESIGN.md"
    doc = open(path, encoding="utf-8").read()
    a = doc.index("## 4. Per-property rules")
    b = doc.index("Remarks on individual rules")
    open(path, "w", encoding="utf-8").write(doc[:a] + text + "\n" + doc[b:])
    print(f"section 4 rewritten: {total_rules} rules, {total_inst} instances")


if __name__ == "__main__":
    main()

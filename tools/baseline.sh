#!/bin/sh
# Runs the repository's pinned suite (guard off); prints the pytest summary line.
cd /repo && /venv/bin/python -m pytest -q -p no:cacheprovider --timeout=900 2>&1 | tail -1

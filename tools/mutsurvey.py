#!/venv/bin/python
"""Development tool (NOT a registered check): first-order mutation survey of the property anchors.

  1. generate   - one-edit mutants (ast-level) of every function in the anchor files of properties.jsonl
  2. test       - run the repository's pinned suite on each mutant in private scratch copies (outside /repo,
                  outside /verif); a mutant that keeps the suite green is a *survivor*: a change that
                  "still compiles and passes the existing tests"
  3. analyse    - run every property's rules on each survivor through an in-memory overlay (no execution
                  of the library) and record which rule reports it
  4. the survivors nobody reports are printed for triage (equivalent / outside the properties / a miss)

usage: tools/mutsurvey.py gen|test|analyse|report [--only <substring of file>] [--jobs N]
State is kept in /tmp/mutsurvey/ (scratch; nothing registered in MANIFEST.json needs it).
"""
import ast
import copy
import hashlib
import json
import os
import shutil
import subprocess
import sys
from concurrent.futures import ProcessPoolExecutor

sys.path.insert(0, "/verif")
REPO = "/repo"
STATE = "/tmp/mutsurvey"
ALWAYS_FAIL = "tests/test_construct/test_curves/test_interpolated.py::SplineInterpolatedCurveTests::test_length"
FLAKY = "tests/test_optimize/test_optimizer.py::ComplexSketchTests::test_optimize"

CMP = {ast.Lt: [ast.LtE, ast.Gt], ast.LtE: [ast.Lt], ast.Gt: [ast.GtE, ast.Lt], ast.GtE: [ast.Gt], ast.Eq: [ast.NotEq], ast.NotEq: [ast.Eq],
       ast.Is: [ast.IsNot], ast.IsNot: [ast.Is], ast.In: [ast.NotIn], ast.NotIn: [ast.In]}
BIN = {ast.Add: [ast.Sub], ast.Sub: [ast.Add], ast.Mult: [ast.Div], ast.Div: [ast.Mult], ast.FloorDiv: [ast.Mod], ast.Mod: [ast.FloorDiv]}
FUNCS = {"any": "all", "all": "any", "min": "max", "max": "min", "argmin": "argmax", "argmax": "argmin", "floor": "ceil", "ceil": "floor"}
UNWRAP = {"sorted", "reversed", "abs", "set", "list"}
ANTONYMS = [("top", "bottom"), ("start", "end"), ("left", "right"), ("front", "back"), ("leader", "follower"), ("inner", "outer"),
            ("core", "shell"), ("from", "to"), ("first", "last"), ("lower", "upper"), ("min", "max"), ("x", "y"), ("1", "2"), ("0", "1")]


def anchor_files():
    files = set()
    with open("/verif/properties.jsonl", encoding="utf-8") as fh:
        for line in fh:
            if line.strip():
                rec = json.loads(line)
                if rec["id"] == "C08":
                    continue
                files.update(rec["anchors"]["files"])
    return sorted(files)


def all_attr_names():
    names = set()
    for dirpath, _, fns in os.walk(os.path.join(REPO, "src")):
        for fn in fns:
            if fn.endswith(".py"):
                tree = ast.parse(open(os.path.join(dirpath, fn), encoding="utf-8").read())
                for n in ast.walk(tree):
                    if isinstance(n, ast.Attribute):
                        names.add(n.attr)
                    elif isinstance(n, (ast.FunctionDef, ast.ClassDef)):
                        names.add(n.name)
                    elif isinstance(n, ast.Name):
                        names.add(n.id)
    return names


def antonym(name, known):
    out = []
    parts = name.split("_")
    for a, b in ANTONYMS:
        for x, y in ((a, b), (b, a)):
            if x in parts:
                cand = "_".join(y if p == x else p for p in parts)
                if cand != name and cand in known:
                    out.append(cand)
    return out


def mutants_of(tree, known):
    """Yields (description, path-to-node, mutator) lazily as (desc, mutated module source)."""
    funcs = []
    for node in ast.walk(tree):
        if isinstance(node, (ast.FunctionDef, ast.AsyncFunctionDef)):
            funcs.append(node)
    # map each node to its enclosing function qualname
    quals = {}

    def visit(node, prefix):
        for child in ast.iter_child_nodes(node):
            if isinstance(child, ast.ClassDef):
                visit(child, prefix + [child.name])
            elif isinstance(child, (ast.FunctionDef, ast.AsyncFunctionDef)):
                q = ".".join(prefix + [child.name])
                for n in ast.walk(child):
                    quals.setdefault(id(n), q)
                visit(child, prefix + [child.name])
            else:
                if isinstance(child, (ast.Assign, ast.AnnAssign)):
                    q = ".".join(prefix) or "<module>"
                    for n in ast.walk(child):
                        quals.setdefault(id(n), q)
                visit(child, prefix)

    visit(tree, [])
    results = []

    def emit(desc, node, apply, undo):
        apply()
        try:
            src = ast.unparse(tree) + "\n"
        finally:
            undo()
        results.append((quals.get(id(node), "<module>"), getattr(node, "lineno", 0), desc, src))

    for node in ast.walk(tree):
        if id(node) not in quals:
            continue
        if isinstance(node, ast.Compare):
            for i, op in enumerate(node.ops):
                for new in CMP.get(type(op), []):
                    old = node.ops[i]

                    def ap(n=node, i=i, new=new):
                        n.ops[i] = new()

                    def un(n=node, i=i, old=old):
                        n.ops[i] = old

                    emit(f"cmp {type(op).__name__}->{new.__name__} in `{ast.unparse(node)[:80]}`", node, ap, un)
        elif isinstance(node, ast.BinOp):
            for new in BIN.get(type(node.op), []):
                old = node.op
                if isinstance(node.left, ast.Constant) and isinstance(node.left.value, str):
                    continue

                def ap(n=node, new=new):
                    n.op = new()

                def un(n=node, old=old):
                    n.op = old

                emit(f"binop {type(old).__name__}->{new.__name__} in `{ast.unparse(node)[:80]}`", node, ap, un)
        elif isinstance(node, ast.AugAssign):
            for new in BIN.get(type(node.op), []):
                old = node.op

                def ap(n=node, new=new):
                    n.op = new()

                def un(n=node, old=old):
                    n.op = old

                emit(f"augassign {type(old).__name__}->{new.__name__} in `{ast.unparse(node)[:80]}`", node, ap, un)
        elif isinstance(node, ast.BoolOp):
            old = node.op
            new = ast.Or if isinstance(old, ast.And) else ast.And

            def ap(n=node, new=new):
                n.op = new()

            def un(n=node, old=old):
                n.op = old

            emit(f"boolop {type(old).__name__}->{new.__name__} in `{ast.unparse(node)[:80]}`", node, ap, un)
        elif isinstance(node, ast.UnaryOp) and isinstance(node.op, (ast.Not, ast.USub)):
            # replace `not x` by `x` / `-x` by `x`: done at the parent level through field replacement
            pass
        elif isinstance(node, ast.Constant) and type(node.value) is int and -2 <= node.value <= 12:
            for d in (1, -1):
                old = node.value

                def ap(n=node, d=d):
                    n.value = n.value + d

                def un(n=node, old=old):
                    n.value = old

                emit(f"int {old}->{old + d}", node, ap, un)
        elif isinstance(node, ast.Constant) and type(node.value) is bool:
            old = node.value

            def ap(n=node):
                n.value = not n.value

            def un(n=node, old=old):
                n.value = old

            emit(f"bool {old}->{not old}", node, ap, un)
        elif isinstance(node, (ast.Break, ast.Continue)):
            pass  # handled with statement lists below
        elif isinstance(node, ast.Call):
            fn = node.func
            nm = fn.id if isinstance(fn, ast.Name) else (fn.attr if isinstance(fn, ast.Attribute) else None)
            if nm in FUNCS:
                new = FUNCS[nm]
                if isinstance(fn, ast.Name):

                    def ap(f=fn, new=new):
                        f.id = new

                    def un(f=fn, nm=nm):
                        f.id = nm

                else:

                    def ap(f=fn, new=new):
                        f.attr = new

                    def un(f=fn, nm=nm):
                        f.attr = nm

                emit(f"call {nm}->{new} in `{ast.unparse(node)[:80]}`", node, ap, un)
            if len(node.args) >= 2 and not any(isinstance(a, ast.Starred) for a in node.args[:2]) and ast.dump(node.args[0]) != ast.dump(node.args[1]):
                if not (isinstance(node.args[0], ast.Constant) and isinstance(node.args[0].value, str)):

                    def ap(n=node):
                        n.args[0], n.args[1] = n.args[1], n.args[0]

                    emit(f"swap first two args of `{ast.unparse(node)[:80]}`", node, ap, ap)
        elif isinstance(node, ast.Attribute) and isinstance(node.ctx, ast.Load):
            for cand in antonym(node.attr, known):
                old = node.attr

                def ap(n=node, cand=cand):
                    n.attr = cand

                def un(n=node, old=old):
                    n.attr = old

                emit(f"attr .{old}->.{cand} in `{ast.unparse(node)[:80]}`", node, ap, un)
        elif isinstance(node, ast.Slice):
            if node.step is not None:
                old = node.step

                def ap(n=node):
                    n.step = None

                def un(n=node, old=old):
                    n.step = old

                emit(f"slice step dropped `{ast.unparse(node)[:40]}`", node, ap, un)
        # field-level replacements: unwrap not / unary minus / wrapper calls
        for field, value in ast.iter_fields(node):
            items = value if isinstance(value, list) else [value]
            for idx, child in enumerate(items):
                if not isinstance(child, ast.AST):
                    continue
                repl = None
                if isinstance(child, ast.UnaryOp) and isinstance(child.op, (ast.Not, ast.USub)):
                    repl = child.operand
                    desc = f"drop {type(child.op).__name__} in `{ast.unparse(child)[:80]}`"
                elif isinstance(child, ast.Call) and isinstance(child.func, ast.Name) and child.func.id in UNWRAP and len(child.args) == 1 and not child.keywords:
                    repl = child.args[0]
                    desc = f"unwrap {child.func.id}() in `{ast.unparse(child)[:80]}`"
                elif isinstance(child, (ast.If, ast.While)) and field in ("body", "orelse", "finalbody"):
                    new_test = ast.UnaryOp(op=ast.Not(), operand=child.test)
                    old_test = child.test

                    def ap(c=child, t=new_test):
                        c.test = t

                    def un(c=child, t=old_test):
                        c.test = t

                    emit(f"negate test `{ast.unparse(old_test)[:80]}`", child, ap, un)
                    continue
                if repl is None:
                    continue
                if isinstance(value, list):

                    def ap(v=value, idx=idx, repl=repl):
                        v[idx] = repl

                    def un(v=value, idx=idx, child=child):
                        v[idx] = child

                else:

                    def ap(n=node, field=field, repl=repl):
                        setattr(n, field, repl)

                    def un(n=node, field=field, child=child):
                        setattr(n, field, child)

                emit(desc, child, ap, un)
        # statement-level: delete a statement / break<->continue
        for field in ("body", "orelse", "finalbody"):
            stmts = getattr(node, field, None)
            if not isinstance(stmts, list) or not stmts or not isinstance(stmts[0], ast.stmt):
                continue
            if isinstance(node, ast.ClassDef) or isinstance(node, ast.Module):
                continue
            for idx, st in enumerate(stmts):
                if id(st) not in quals:
                    continue
                if isinstance(st, (ast.Expr, ast.Assign, ast.AugAssign, ast.Raise, ast.Return, ast.Continue, ast.Break)):
                    if isinstance(st, ast.Expr) and isinstance(st.value, ast.Constant):
                        continue

                    def ap(s=stmts, idx=idx):
                        s[idx] = ast.Pass()

                    def un(s=stmts, idx=idx, st=st):
                        s[idx] = st

                    emit(f"delete statement `{ast.unparse(st)[:80]}`", st, ap, un)
                if isinstance(st, (ast.Break, ast.Continue)):
                    new = ast.Continue() if isinstance(st, ast.Break) else ast.Break()

                    def ap(s=stmts, idx=idx, new=new):
                        s[idx] = new

                    def un(s=stmts, idx=idx, st=st):
                        s[idx] = st

                    emit(f"{type(st).__name__}->{type(new).__name__}", st, ap, un)
    return results


def cmd_gen(only=None):
    os.makedirs(STATE, exist_ok=True)
    known = all_attr_names()
    out = []
    for rel in anchor_files():
        if only and only not in rel:
            continue
        src = open(os.path.join(REPO, rel), encoding="utf-8").read()
        tree = ast.parse(src)
        base = ast.unparse(tree) + "\n"
        seen = {base}
        for qual, line, desc, msrc in mutants_of(tree, known):
            if msrc in seen:
                continue
            seen.add(msrc)
            try:
                compile(msrc, rel, "exec")
            except SyntaxError:
                continue
            mid = hashlib.sha1((rel + msrc).encode()).hexdigest()[:12]
            out.append({"id": mid, "file": rel, "function": qual, "line": line, "desc": desc})
            with open(os.path.join(STATE, f"{mid}.py"), "w", encoding="utf-8") as fh:
                fh.write(msrc)
    with open(os.path.join(STATE, "mutants.json"), "w", encoding="utf-8") as fh:
        json.dump(out, fh, indent=0)
    print(f"{len(out)} mutants over {len(anchor_files())} files")


def _worker_dir(i):
    d = f"/tmp/mutsurvey_w/{i}"
    if not os.path.exists(d):
        os.makedirs(d)
        for item in ("src", "tests", "pyproject.toml", "README.md", "examples"):
            s = os.path.join(STATE, "base", item)
            if os.path.isdir(s):
                shutil.copytree(s, os.path.join(d, item), ignore=shutil.ignore_patterns("__pycache__"))
            elif os.path.exists(s):
                shutil.copy(s, d)
    return d


def _test_one(m):
    i = os.getpid()
    d = _worker_dir(i)
    target = os.path.join(d, m["file"])
    orig = open(os.path.join(STATE, "base", m["file"]), encoding="utf-8").read()
    shutil.copy(os.path.join(STATE, f"{m['id']}.py"), target)
    env = dict(os.environ, PYTHONPATH=os.path.join(d, "src"), PYTHONDONTWRITEBYTECODE="1")
    try:
        p = subprocess.run(
            ["/venv/bin/python", "-B", "-m", "pytest", "-x", "-q", "-p", "no:cacheprovider", "-o", "addopts=", f"--deselect={ALWAYS_FAIL}", f"--deselect={FLAKY}"],
            cwd=d, env=env, capture_output=True, text=True, timeout=400,
        )
        tail = (p.stdout.strip().splitlines() or [""])[-1]
        verdict = "survived" if p.returncode == 0 else "killed"
        first = ""
        if verdict == "killed":
            fl = [l for l in p.stdout.splitlines() if l.startswith("FAILED") or l.startswith("ERROR")]
            first = fl[0][:200] if fl else tail[:200]
    except subprocess.TimeoutExpired:
        verdict, first = "killed", "timeout"
    finally:
        with open(target, "w", encoding="utf-8") as fh:
            fh.write(orig)
    return {"id": m["id"], "verdict": verdict, "first": first}


def cmd_test(jobs, only=None):
    muts = json.load(open(os.path.join(STATE, "mutants.json")))
    res_path = os.path.join(STATE, "tested.jsonl")
    done = {}
    if os.path.exists(res_path):
        for line in open(res_path):
            r = json.loads(line)
            done[r["id"]] = r
    todo = [m for m in muts if m["id"] not in done and (not only or only in m["file"])]
    print(f"{len(todo)} to test, {len(done)} done", flush=True)
    with ProcessPoolExecutor(max_workers=jobs) as ex, open(res_path, "a") as fh:
        for k, r in enumerate(ex.map(_test_one, todo, chunksize=1)):
            fh.write(json.dumps(r) + "\n")
            fh.flush()
            if k % 50 == 0:
                print(k, flush=True)
    shutil.rmtree("/tmp/mutsurvey_w", ignore_errors=True)


def _analyse_one(m):
    from sa.check import load_rules, run_rules
    from sa.model import AnalysisError, Repo

    overlay = {m["file"]: open(os.path.join(STATE, f"{m['id']}.py"), encoding="utf-8").read()}
    hits, errs = [], []
    try:
        repo = Repo(REPO, overlay)
    except Exception as err:  # noqa: BLE001
        return {"id": m["id"], "hits": [], "errors": [f"model: {err}"]}
    for i in range(1, 21):
        if i == 8 or (PROP_FILES and m["file"] not in PROP_FILES.get(f"C{i:02d}", ())):
            continue
        mod = load_rules(f"C{i:02d}")
        runs, errors = run_rules(mod, repo)
        for r in runs:
            for f in r.findings:
                hits.append([f.rule, f.construct])
        errs.extend(e.split("\n")[0][:200] for e in errors)
    return {"id": m["id"], "hits": hits, "errors": errs}


PROP_FILES = {}


def _load_prop_files():
    with open("/verif/properties.jsonl", encoding="utf-8") as fh:
        for line in fh:
            if line.strip():
                rec = json.loads(line)
                PROP_FILES[rec["id"]] = set(rec["anchors"]["files"])


def cmd_analyse(jobs):
    if "--all-props" not in sys.argv:
        _load_prop_files()
    muts = {m["id"]: m for m in json.load(open(os.path.join(STATE, "mutants.json")))}
    tested = [json.loads(l) for l in open(os.path.join(STATE, "tested.jsonl"))]
    surv = [muts[t["id"]] for t in tested if t["verdict"] == "survived" and t["id"] in muts]
    base = _analyse_one.__wrapped__ if hasattr(_analyse_one, "__wrapped__") else None
    print(f"{len(surv)} survivors of {len(tested)} tested", flush=True)
    apath = os.path.join(STATE, "analysed.json")
    old = {r["id"]: r for r in json.load(open(apath))} if os.path.exists(apath) and "--fresh" not in sys.argv else {}
    todo = [m for m in surv if m["id"] not in old]
    with ProcessPoolExecutor(max_workers=jobs) as ex:
        results = list(ex.map(_analyse_one, todo, chunksize=2))
    results = list(old.values()) + results
    with open(apath, "w") as fh:
        json.dump(results, fh)
    print("analysed", len(results))


def cmd_report():
    from sa.report import known_index, load_known

    known = {(k[1], k[2]) for k in known_index(load_known())}
    muts = {m["id"]: m for m in json.load(open(os.path.join(STATE, "mutants.json")))}
    tested = [json.loads(l) for l in open(os.path.join(STATE, "tested.jsonl"))]
    res = {r["id"]: r for r in json.load(open(os.path.join(STATE, "analysed.json")))}
    n_surv = sum(1 for t in tested if t["verdict"] == "survived")
    rep, err, missed = [], [], []
    for mid, r in res.items():
        new = [h for h in r["hits"] if tuple(h) not in known]
        if new:
            rep.append((mid, new))
        elif r["errors"]:
            err.append((mid, r["errors"]))
        else:
            missed.append(mid)
    print(f"tested {len(tested)}  survivors {n_surv}  reported {len(rep)}  analysis-error {len(err)}  silent {len(missed)}")
    by = {}
    for mid in missed:
        m = muts[mid]
        by.setdefault((m["file"], m["function"]), []).append(m)
    for (f, q), ms in sorted(by.items()):
        print(f"\n{f} :: {q}")
        for m in ms:
            print(f"   {m['id']} L{m['line']}: {m['desc']}")
    if "--errors" in sys.argv:
        for mid, e in err:
            m = muts[mid]
            print(f"ERR {m['file']}::{m['function']} L{m['line']} {m['desc']}: {e[:2]}")


if __name__ == "__main__":
    cmd = sys.argv[1]
    only = sys.argv[sys.argv.index("--only") + 1] if "--only" in sys.argv else None
    jobs = int(sys.argv[sys.argv.index("--jobs") + 1]) if "--jobs" in sys.argv else 14
    if cmd == "gen":
        cmd_gen(only)
    elif cmd == "test":
        cmd_test(jobs, only)
    elif cmd == "analyse":
        cmd_analyse(jobs)
    elif cmd == "report":
        cmd_report()

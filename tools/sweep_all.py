import importlib, sys
from sa.model import Repo
from sa.check import PROPERTIES, NOT_APPLICABLE, run_rules, findings_of
from sa import sweeps
root='/repo'
base={}
for p in PROPERTIES:
    if p in NOT_APPLICABLE: continue
    mod=importlib.import_module(f'sa.rules.{p.lower()}')
    runs,errs=run_rules(mod,Repo(root))
    base[p]=sorted((f.rule,f.construct) for f in findings_of(runs))
names=sys.argv[1:] or list(sweeps.SWEEPS)
for name in names:
    ov=sweeps.SWEEPS[name](root)
    for rel,src in ov.items(): compile(src, rel, 'exec')
    repo=Repo(root, ov)
    for p in base:
        mod=importlib.import_module(f'sa.rules.{p.lower()}')
        runs,errs=run_rules(mod,repo)
        got=sorted((f.rule,f.construct) for f in findings_of(runs))
        if errs or got!=base[p]:
            print(name,p,'ERRS',[e[:230] for e in errs],'NEW',[g for g in got if g not in base[p]],'GONE',[g for g in base[p] if g not in got])
print('done')

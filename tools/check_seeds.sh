#!/bin/sh
# Applies every filed seeded change to /repo in turn, runs the seed's own property check and lists seeds it does not report.
cd /verif || exit 2
miss=0
for d in /verif/seeded/*/; do
  n=$(basename "$d"); p=${n%%-*}
  c=$(tools/try_seed.sh "${d}patch.diff" "$p" | grep -c "^VIOLATION")
  if [ "$c" = "0" ]; then echo "NOT REPORTED: $n"; miss=$((miss+1)); fi
done
echo "seeds not reported by their own property's check: $miss"
git -C /repo status --short | head -3

#!/usr/bin/env python3
"""Confirms a seeded change delivered by a sub-agent and files it under /verif/seeded/<id>/.

usage: tools/keep_seed.py <PROP> <k> [<k> ...]     (reads /tmp/seedout/<PROP>/m<k>/{patch.diff,demo.py,notes.md})

Confirmation (in the scratch worktree /tmp/seed/<PROP>, never in /repo):
  1. patch applies to a clean worktree; 2. full suite with the patch = baseline (only the always-failing
  test fails; the known flaky test is re-run); 3. demo exits 1 with the patch; 4. demo exits 0 without it.
Then the patch is applied to /repo, every quick check is run, and /repo is restored at once.
"""
import json
import os
import shutil
import subprocess
import sys

ALWAYS_FAIL = "tests/test_construct/test_curves/test_interpolated.py::SplineInterpolatedCurveTests::test_length"
FLAKY = "tests/test_optimize/test_optimizer.py::ComplexSketchTests::test_optimize"
PROPS = [f"C{i:02d}" for i in range(1, 21)]


def sh(cmd, cwd=None, env=None, timeout=900):
    e = dict(os.environ)
    e.update(env or {})
    p = subprocess.run(cmd, shell=True, cwd=cwd, env=e, capture_output=True, text=True, timeout=timeout)
    return p.returncode, (p.stdout + p.stderr)


def suite(wt):
    rc, out = sh(f"/venv/bin/python -m pytest -q -p no:cacheprovider -o addopts='' -n 6 2>&1 | tail -15", cwd=wt, env={"PYTHONPATH": f"{wt}/src"})
    failed = sorted({l.split()[1] for l in out.splitlines() if l.startswith("FAILED ")})
    return failed, out.strip().splitlines()[-1] if out.strip() else ""


def main():
    args = sys.argv[1:]
    rnd = ""
    if args[0] == "--round":
        rnd = args[1]
        args = args[2:]
    prop = args[0]
    wt = f"/tmp/seed{rnd}/{prop}"
    for k in args[1:]:
        src = f"/tmp/seedout{rnd}/{prop}/m{k}"
        dst = f"/verif/seeded/{prop}-{'r' + rnd if rnd else ''}m{k}"
        meta = {"property": prop, "source": "independent sub-agent given only the property record and a scratch worktree", "confirmed": False}
        rc, out = sh("git status --short", cwd=wt)
        if out.strip():
            sh("git checkout -- . && git clean -fdq", cwd=wt)
        rc, out = sh(f"git apply --check {src}/patch.diff", cwd=wt)
        if rc != 0:
            print(f"{prop} m{k}: patch does not apply: {out[:200]}")
            continue
        sh(f"git apply {src}/patch.diff", cwd=wt)
        failed, tail = suite(wt)
        if FLAKY in failed:
            failed2, _ = suite(wt)
            failed = [f for f in failed if f in failed2]
        rc_with, out_with = sh(f"/venv/bin/python {src}/demo.py", cwd=wt, env={"PYTHONPATH": f"{wt}/src", "PYTHONHASHSEED": "0"})
        # which checks report it: first in the scratch worktree (patch applied there) ...
        caught = {}
        for p in PROPS:
            rcc, outc = sh(f"./check {p} --no-evidence --root {wt}", cwd="/verif")
            if rcc != 0:
                rules = sorted({l.split("[")[1].split("]")[0] for l in outc.splitlines() if l.startswith("   src") and "[" in l})
                errs = [l[:200] for l in outc.splitlines() if l.startswith("ANALYSIS-ERROR")]
                caught[p] = {"exit": rcc, "rules": rules, "analysis_errors": errs}
        sh("git checkout -- .", cwd=wt)
        rc_without, out_without = sh(f"/venv/bin/python {src}/demo.py", cwd=wt, env={"PYTHONPATH": f"{wt}/src", "PYTHONHASHSEED": "0"})
        suite_ok = failed == [ALWAYS_FAIL]
        meta["ran"] = {
            "suite_with_patch": {"failed": failed, "summary": tail, "equals_baseline": suite_ok},
            "demo_with_patch": {"exit": rc_with, "last_line": (out_with.strip().splitlines() or [""])[-1][:400]},
            "demo_without_patch": {"exit": rc_without, "last_line": (out_without.strip().splitlines() or [""])[-1][:400]},
        }
        meta["confirmed"] = bool(suite_ok and rc_with == 1 and rc_without == 0)
        # ... (tools/check_seeds.sh repeats this against /repo itself: apply, check, revert)
        meta["checks_reporting"] = caught
        meta["caught_by_own_property_check"] = prop in caught and caught[prop]["exit"] == 1
        old_meta = json.load(open(f"{dst}/meta.json")) if os.path.exists(f"{dst}/meta.json") else {}
        meta["first_pass"] = old_meta.get("first_pass") or (
            "reported" if meta["caught_by_own_property_check"] and caught[prop]["rules"] else (f"only by {sorted(p for p, v in caught.items() if v['rules'])[0]}" if any(v["rules"] for v in caught.values()) else "missed")
        )
        meta["round"] = int(rnd) if rnd else 1
        notes = open(f"{src}/notes.md").read() if os.path.exists(f"{src}/notes.md") else ""
        meta["needs_to_manifest"] = notes.strip()[:1500]
        if not meta["confirmed"]:
            print(f"{prop} m{k}: NOT confirmed: {json.dumps(meta['ran'])[:400]}")
            continue
        os.makedirs(dst, exist_ok=True)
        for f in ("patch.diff", "demo.py", "notes.md"):
            if os.path.exists(f"{src}/{f}"):
                shutil.copy(f"{src}/{f}", f"{dst}/{f}")
        with open(f"{dst}/meta.json", "w") as fh:
            json.dump(meta, fh, indent=1)
        print(f"{prop} m{k}: confirmed; reported by {({p: v['rules'] or v['analysis_errors'] for p, v in caught.items()}) or 'NO CHECK'}")


if __name__ == "__main__":
    main()

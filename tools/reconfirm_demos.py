#!/usr/bin/env python3
"""Dev tool: runs the demonstration of every filed seed against /repo HEAD with and without the seeded change (scratch worktrees under
/tmp/seedrc, removed afterwards): with the change the demonstration must exit 1, without it 0. A seed whose demonstration holds with
the change applied has been overtaken by a later repair."""
import glob
import os
import subprocess
import sys
from concurrent.futures import ThreadPoolExecutor

N = 12
SEEDS = sorted(d for d in os.listdir("/verif/seeded") if os.path.isdir(f"/verif/seeded/{d}") and (len(sys.argv) < 2 or sys.argv[1] in d))


def sh(cmd, cwd=None, env=None, timeout=900):
    e = dict(os.environ)
    e.update(env or {})
    try:
        p = subprocess.run(cmd, shell=True, cwd=cwd, env=e, capture_output=True, text=True, timeout=timeout)
        return p.returncode, (p.stdout + p.stderr)
    except subprocess.TimeoutExpired:
        return 124, "timeout"


def work(args):
    k, seeds = args
    wt = f"/tmp/seedrc/w{k}"
    sh(f"git -C /repo worktree add --detach {wt} HEAD")
    out = {}
    for s in seeds:
        d = f"/verif/seeded/{s}"
        demo = (glob.glob(f"{d}/demo*.py") + glob.glob(f"{d}/demonstration*"))[0]
        env = {"PYTHONPATH": f"{wt}/src", "PYTHONHASHSEED": "0"}
        rc0, _ = sh(f"/venv/bin/python {demo}", cwd=wt, env=env)
        rca, oa = sh(f"git apply {d}/patch.diff", cwd=wt)
        if rca != 0:
            out[s] = ("no-apply", rc0)
            continue
        rc1, o1 = sh(f"/venv/bin/python {demo}", cwd=wt, env=env)
        sh("git checkout -- . && git clean -fdq", cwd=wt)
        out[s] = (rc1, rc0, (o1.strip().splitlines() or [""])[-1][:120])
    sh(f"git -C /repo worktree remove --force {wt}")
    return out


def main():
    os.makedirs("/tmp/seedrc", exist_ok=True)
    res = {}
    with ThreadPoolExecutor(max_workers=N) as ex:
        for part in ex.map(work, [(k, SEEDS[k::N]) for k in range(N)]):
            res.update(part)
    bad = 0
    for s, v in sorted(res.items()):
        if v[0] != 1 or v[1] != 0:
            bad += 1
            print("NOT CONFIRMED:", s, v)
    sh("git -C /repo worktree prune")
    print(f"{len(res)} seeds re-run, {bad} not confirmed")


if __name__ == "__main__":
    main()

#!/usr/bin/env python3
"""Prints the markdown table of seeded changes (from /verif/seeded/*/meta.json) used in DESIGN.md."""
import glob, json, os, re

FIRST_MISSED = {"C05-m3", "C07-m3", "C09-m1", "C09-m2", "C03-m2", "C06-m3", "C02-m1", "C11-m1", "C12-m3", "C13-m2", "C13-m3", "C15-m1", "C15-m3", "C16-m2", "C16-m3", "C17-m3", "C18-m3", "C19-m2", "C14-m2", "C14-m3"}
FIRST_OTHER = {"C01-m1": "C12", "C06-m2": "C12", "C02-m2": "C01", "C19-m3": "C12"}

rows = []
for d in sorted(glob.glob("/verif/seeded/*")):
    sid = os.path.basename(d)
    meta = json.load(open(f"{d}/meta.json"))
    diff = open(f"{d}/patch.diff").read()
    files = sorted(set(re.findall(r"^\+\+\+ b/src/classy_blocks/(\S+)", diff, re.M)))
    notes = meta.get("needs_to_manifest", "")
    first = "missed" if sid in FIRST_MISSED else (f"only by {FIRST_OTHER[sid]}" if sid in FIRST_OTHER else meta.get("first_pass", "reported"))
    meta["first_pass"] = first
    json.dump(meta, open(f"{d}/meta.json", "w"), indent=1)
    now = "; ".join(f"{p}: {', '.join(r.split('.', 1)[1] for r in v['rules'])}" for p, v in sorted(meta.get("checks_reporting", {}).items()) if v.get("rules"))
    # one-line summary: first non-heading line of the notes
    summ = ""
    for line in notes.splitlines():
        line = line.strip(" -*#`")
        if len(line) > 25 and not line.lower().startswith(("m1", "m2", "m3", "seed", "notes")):
            summ = line
            break
    rows.append((sid, ", ".join(files), summ[:150].replace("|", "/"), first, now))
print("| seed | file(s) | change (from the sub-agent's notes) | first pass | reported now by |")
print("|---|---|---|---|---|")
for r in rows:
    print("| " + " | ".join(r) + " |")
print()
for rnd, sel in (("round 1", [r for r in rows if "-r" not in r[0]]), ("round 2", [r for r in rows if "-r2" in r[0]]), ("round 3", [r for r in rows if "-r3" in r[0]]), ("round 4", [r for r in rows if "-r4" in r[0]]), ("round 5", [r for r in rows if "-r5" in r[0]]), ("round 6", [r for r in rows if "-r6" in r[0]]), ("round 7", [r for r in rows if "-r7" in r[0]]), ("round 8", [r for r in rows if "-r8" in r[0]])):
    print(f"{rnd}: {len(sel)} seeded changes; first pass: {sum(1 for r in sel if r[3]=='reported')} reported by the property's own check, {sum(1 for r in sel if r[3].startswith('only'))} only by another property's check, {sum(1 for r in sel if r[3].startswith('analysis error'))} noticed only as an analysis error (exit 2), {sum(1 for r in sel if r[3]=='missed')} missed; now: {sum(1 for r in sel if r[4])} reported.")
print()
print(f"{len(rows)} seeded changes; first pass: {sum(1 for r in rows if r[3]=='reported')} reported by the property's own check, {sum(1 for r in rows if r[3].startswith('only'))} only by another property's check, {sum(1 for r in rows if r[3]=='missed')} missed; now: {sum(1 for r in rows if r[4])} reported.")

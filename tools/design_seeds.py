#!/usr/bin/env python3
"""Replaces the generated seed table of DESIGN.md (between the seed-table markers) with tools/seed_table.py's output."""
import subprocess

out = subprocess.run(["python3", "/verif/tools/seed_table.py"], capture_output=True, text=True).stdout
p = "/verif/DESIGN.md"
s = open(p).read()
a = s.index("<!-- seed-table-begin -->") + len("<!-- seed-table-begin -->")
b = s.index("<!-- seed-table-end -->")
open(p, "w").write(s[:a] + "\n" + out + "\n" + s[b:])
print("seed table written")

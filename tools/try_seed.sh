#!/bin/sh
# usage: tools/try_seed.sh <patch.diff> [props...]  - applies a seeded change to /repo, runs the quick checks, reverts it
patch="$1"; shift
props="$@"; [ -z "$props" ] && props="C01 C02 C03 C04 C05 C06 C07 C09 C10 C11 C12 C13 C14 C15 C16 C17 C18 C19 C20"
cd /repo || exit 2
git diff --quiet || { echo "/repo is dirty"; exit 2; }
git apply "$patch" || { echo "patch does not apply"; exit 2; }
cd /verif
for p in $props; do
  out=$(./check $p --no-evidence 2>&1); rc=$?
  if [ $rc -ne 0 ]; then echo "== $p rc=$rc"; echo "$out" | grep -E "^   src|VIOLATION|ANALYSIS-ERROR" | cut -c1-330; fi
done
echo "-- done ($patch)"
git -C /repo checkout -- .

#!/usr/bin/env python3
"""Re-runs every check against every filed seeded change (in scratch worktrees of /repo's HEAD, one per worker, removed
afterwards) and refreshes `checks_reporting` / `caught_by_own_property_check` in the seeds' meta.json. The confirmation
data (suite, demonstration) and the first-pass verdict are left as recorded when the seed was filed."""
import json
import os
import subprocess
import sys
from concurrent.futures import ThreadPoolExecutor

PROPS = [f"C{i:02d}" for i in range(1, 21)]
SEEDS = sorted(d for d in os.listdir("/verif/seeded") if os.path.isdir(f"/verif/seeded/{d}") and (len(sys.argv) < 2 or sys.argv[1] in d))
N = 8


def sh(cmd, cwd=None):
    p = subprocess.run(cmd, shell=True, cwd=cwd, capture_output=True, text=True)
    return p.returncode, p.stdout + p.stderr


def work(args):
    k, seeds = args
    wt = f"/tmp/seedrefresh/w{k}"
    sh(f"git -C /repo worktree add --detach {wt} HEAD")
    out = {}
    try:
        for s in seeds:
            patch = f"/verif/seeded/{s}/patch.diff"
            rc, o = sh(f"git apply {patch}", cwd=wt)
            if rc != 0:
                out[s] = {"error": f"patch does not apply to HEAD: {o[:200]}"}
                continue
            caught = {}
            for p in PROPS:
                rcc, outc = sh(f"./check {p} --no-evidence --root {wt}", cwd="/verif")
                if rcc != 0:
                    rules = sorted({l.split("[")[1].split("]")[0] for l in outc.splitlines() if l.startswith("   src") and "[" in l})
                    errs = [l[:200] for l in outc.splitlines() if l.startswith("ANALYSIS-ERROR")]
                    caught[p] = {"exit": rcc, "rules": rules, "analysis_errors": errs}
            sh("git checkout -- . && git clean -fdq", cwd=wt)
            out[s] = caught
    finally:
        sh(f"git -C /repo worktree remove --force {wt}")
    return out


def main():
    os.makedirs("/tmp/seedrefresh", exist_ok=True)
    chunks = [(k, SEEDS[k::N]) for k in range(N)]
    res = {}
    with ThreadPoolExecutor(max_workers=N) as ex:
        for part in ex.map(work, chunks):
            res.update(part)
    miss = 0
    for s, caught in sorted(res.items()):
        mp = f"/verif/seeded/{s}/meta.json"
        meta = json.load(open(mp))
        prop = meta["property"]
        if "error" in caught:
            print(s, caught["error"])
            continue
        meta["checks_reporting"] = caught
        meta["caught_by_own_property_check"] = prop in caught and caught[prop]["exit"] == 1 and bool(caught[prop]["rules"])
        if not meta["caught_by_own_property_check"]:
            miss += 1
            print("not reported by own property:", s, {p: v["rules"] or v["analysis_errors"] for p, v in caught.items()})
        json.dump(meta, open(mp, "w"), indent=1)
    sh("git -C /repo worktree prune")
    print(f"{len(res)} seeds refreshed, {miss} not reported by their own property's check")


if __name__ == "__main__":
    main()

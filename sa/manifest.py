"""Regenerates /verif/MANIFEST.json from the rule modules that exist: ``python -m sa.manifest``."""

from __future__ import annotations

import importlib
import json
import os

from .check import NOT_APPLICABLE, PROPERTIES
from .report import VERIF

NA_REASONS = {
    "_unused_C08": "every clause is real-valued trigonometry (arc mid-point on the analytic circle, reflex sectors, arc length vs chord); "
    "no structural necessary condition exists that is both necessary and robust (DESIGN.md section 4 C08, section 7) - "
    "static analysis cannot bound these quantities, and a runtime test would be a different technique family",
}

TECHNIQUE = {
    "C01": 'CFG must-pass-through + call-graph reachability + exhaustive index-table evaluation against the hexahedron convention (incl. blockMesh edgeGrading order) + abstract evaluation of the whole consistency chain on a symbolic two-block model + abstract evaluation of WireChopManager.grade with graded neighbours + anti-aligned coincident wires in the consistency models + propagation run that must keep the user\'s own chops',
    "C02": 'set-iteration order-sensitivity classification + abstract evaluation of the fix-point loop over all insertion orders of a block chain (schedule enumeration on the AST interpreter) + progress-flag termination argument + determinism-source taint + isolated blocks and the repository-evaluated count in the schedule model + \'defined\' evaluated over all four wires of a direction',
    "C03": 'name-driven registry/signature agreement + finite closure over relation names + inversion completeness + dimension (units) type check + tolerance abstract values of the unit-ratio switches + sibling brackets + domain-repair (clamped logarithm) analysis + lazy-cache discipline + memoisation of later-changed state + solver tolerance and rounding checks + abstract run of every relation at non-positive ratios + rounding form of every count result + exact rational evaluation of closed-form early returns against the relation residual and of the single-cell case + integral count + non-finite ratio scenarios + one-cell reversal agreement of the two size relations',
    "C04": 'abstract evaluation of aligned/inverted copies with symbolic Chop records + copy_preserving/invert per preserve literal + ordering on CFG + edgeGrading slot order + is_simple/format_single per manager class + stale-length model of grade() for both wire-manager classes + rounding check + mixed-alignment copy scenarios + memoised views of element attributes',
    "C05": 'CFG lookup-before-create + who-may-construct/who-may-write + tolerance abstract values (absolute vs relative, signed vs magnitude) + abstract evaluation of VertexList.add over insertion scenarios + exhaustive corner->patch table evaluation + merge roles + projections in the insertion-sequence model + face-object identity of patches under invert / mirror + private label lists of shared vertices + bit-for-bit coordinate comparison scan + semantic writer check of slave vertices + deleted-operation skip',
    "C06": 'CFG section ordering in Mesh.write + exhaustive side/corner table evaluation + writer/reader index agreement + abstract evaluation of assemble/patch state + clear/assemble effect pairing + edgeGrading slot order + length-snapshot analysis + VTK condition + empty-patch evaluation + class-state and side-addressing rules + assemble on an assembled mesh + projected-once sequences + private label lists + side identity under re-orientation',
    "C07": 'registry/Literal/class-kind agreement + CFG dedup ordering + abstract evaluation of the 12 emitted beams, EdgeList.add and the curve-edge parameter order + tolerance abstract values of the edge-validity tests + shared-edge-data and memoisation analyses + exact rational evaluation of arc_from_theta (reflex sectors) + beam list with shared payloads + per-kind reverse semantics + neighbour-linking run for curves shared between blocks + homogeneity degree of the collinearity test + half-turn sectors with an exact infinity + EdgeList driven through its own constructor and add + arc sense + unit shear direction',
    "C08": "abstract-domain analysis of inverse-trigonometric arguments + exact identities in a rational-function domain (circumcentre) + parity (sign flow) + abstract evaluation of argument pairing and of the centre adjustment on a toy model + affine kinds + exact sign evaluation of the reflex decision on rational circle configurations + tolerance abstract values of the validity tests + memoisation analysis + exact rational evaluation of arc_from_theta for minor and reflex sectors + edge-end order + argument mutation + homogeneity degree of the collinearity test + half-turn sectors with an exact infinity + beam list with shared payloads + scaling degree of the arc-length collinearity guard + None-test discipline",
    "C09": 'interprocedural may-mutate/alias effect analysis + affine origin balance + override-bypass (MRO) check + polynomial-domain normalisation of the reflection matrix + shared-part and closure-capture analyses + sense-of-rotation parity of angle-and-axis edges (axis sign x angle sign x traversal direction vs determinant) + length-snapshot, live-array and private-coordinate analyses + exact evaluation of CircleCurve.mirror + loop-alias, average-axis, unit-axis and returned-closure analyses + attributes updated twice along a super() chain + flips over all axes + unmapped arc axis + arc sense over unmapped axes + unit shear direction and sign + remembered points kept current',
    "C10": 'exhaustive abstract evaluation of face permutations (incl. history independence), edge map and side addressing against the hexahedron convention + shared-part analysis + corner/side table evaluation + corner signatures (position and projections) under face permutations + beam list with shared payloads + candidate subsets in the nearest-corner model + private label lists + empty-patch evaluation + patch normal symmetric over four corners + nearest-sort model over candidate subsets',
    "C11": 'exhaustive quad-map orientation/conformity check + union-find chop-coverage analysis over literal sketches + chain-source consistency + guard evaluation against sketch facts + inverse-trig domain and sign-flow analyses + abstract evaluation of add_edges over generated point rings (arc ends, centres, completeness) + moved-once and transform-routing analyses + direction reversal in every chain() + axis-suffix agreement of product terms + reflection matrix + argument mutation + abstract run of the joint constructors (cusp angles modulo pi) + number-or-vector dispatch + bit-for-bit coordinate comparison scan + grid roles + non-commuting transformation lists in stacks + circle-test symmetry + shear sign + non-commuting transform lists through stacks + scaling degree of the coplanarity guard',
    "C12": 'clear/assemble container and state pairing in both directions + idempotence of grade() + abstract evaluation of assemble/backport + alias analysis of coordinate stores + assembled state produced by running the library assemble() abstractly, late deletes + relative-closeness scan of the round trip + own containers in clear() + state of a finished grading pass at the start of the next + assemble on an assembled mesh + private label lists + writers proven read-only + patch state and geometry re-declaration across clear/assemble',
    "C13": 'CFG snapshot/restore pairing on rollback and exception paths + who-writes-points ownership + backport on every exit + affine kinds + linear forms of links + provenance of the rollback quantities + in-place store dtype analysis + copy-back table evaluation + exact evaluation of SymmetryLink + grid quality sum + reflection matrix + sensitivity probe against the clamp bounds + absolute matching of clamps to grid points + accumulation of links + exact evaluation of RadialClamp + alias-snapshot scan + captured-array aliasing + exact rotation links + change detection against aliases',
    "C14": 'abstract evaluation of the edge set and side tables against the hexahedron convention + face-symmetry and cache analyses + inverse-trig domain abstract values + point-list aware affine kinds of the quality kernels + monotonicity abstract domain for the aspect-ratio term + index-provenance (own side index) check + scale-free guard rule + clip-before-normalisation detection + homogeneity degree of every inverse-trigonometric argument + memoisation analysis + row-wise norms and centres + order-resolved re-assignments in the arccos-argument classification',
    "C15": 'abstract evaluation of smooth()/fix_* on symbolic and 1-D float grid models + edge-only neighbour table + boundary table + backport table agreement + drifting sweep-count model + index 0 scenarios + rounding check + clamped/linked points in the copy-back + neighbour binding over relative orientations + grid ownership + absolute matching of fixed points + identity of the grid\'s point array + live back-port + slit / baffle boundary scenarios',
    "C16": 'backward slice (knot dependence) + abstract evaluation of end-parameter pairing through the edge-data layer + interface completeness + closest-parameter search evaluation + stale-alias, None-vs-zero and memoisation analyses + lazy-cache discipline + returned closures, in-place updates of views, unit axis + stateless queries + three-component lengths + invalidation order + stateless queries + invalidation ordered last',
    "C17": 'interprocedural may-mutate analysis + position-writer ownership + linear-form evaluation of links + affine kinds + polynomial-domain reflection matrix + dead-parameter and inverse-trig domain analyses + grid-write ownership + in-place store dtype analysis + exact rational evaluation of SymmetryLink and angle_between + exact rational evaluation of RadialClamp for non-unit normals + captured-array aliasing of every kept value + alias-snapshot scan + absolute matching of links + accumulation of links + exact rotation and slide of clamps with solved parameters',
    "C18": 'abstract evaluation of the finders on 1-D models + tolerance abstract values + unit-direction analysis of projected lengths + exhaustive corner-table evaluation + signed-basis algebra + triangle-partition evaluation + affine kinds + stale-alias analysis + on-demand cache analysis of the finders + greedy side priority + flag identity tests + private viewpoint + exact view frame on rational boxes + module-wide scaling degrees + acceptance by distance',
    "C19": 'abstract evaluation of grid construction, slicing (incl. purity), core/shell partition, merged sketch roles, assemble/backport locality + abstract evaluation of Mesh.delete + constructor-chain analysis (addressing members read existing attributes) + late deletes in backport + mirrored shapes in the partition model + non-commuting lists in the stack chain + number-or-vector dispatch + argument mutation + container sharing between copies + private coordinates + mirrored partition',
    "C20": 'sign-domain analysis of one-sided tolerance and magnitude guards + two-sided range guards + abstract evaluation of guards on both sides of each boundary + guard table (CFG dominance) + assemble/clear state pairing + abstract evaluation of Face edge-list and shell-connectivity guards + boundary evaluation of guards whose message demands a strict relation + projection index, chop axis and NaN scenarios + index guards of remove_edges / unchop / get_slice + homogeneity degree of the perpendicularity guards + Point shape scenarios + Side / Elbow.chain scenarios + scaling degree of the coplanarity guard + chained strictness guards',
}


def build() -> dict:
    checks = []
    na = []
    for prop in PROPERTIES:
        if prop in NOT_APPLICABLE:
            na.append({"property_id": prop, "reason": NA_REASONS[prop]})
            continue
        try:
            mod = importlib.import_module(f"sa.rules.{prop.lower()}")
        except ImportError:
            na.append({"property_id": prop, "reason": "check not built yet (static rules designed in DESIGN.md section 4; not claimed until the rule module exists)"})
            continue
        rules = ", ".join(getattr(r, "rule_id", r.__name__) for r in mod.RULES)
        checks.append(
            {
                "property_id": prop,
                "quick_cmd": f"./check {prop} --tier quick",
                "thorough_cmd": f"./check {prop} --tier thorough",
                "evidence_file": f"evidence/{prop}.json",
                "replay_cmd_template": f"./check {prop} --replay {{path}}",
                "engine": "sa",
                "level_claimed": {
                    "category": "other",
                    "text": (
                        "Static analysis of /repo's current source (ast + own CFG / partial evaluator / call graph; the library is never "
                        f"imported or run). Decides structural necessary conditions of the property: {mod.DECIDES} "
                        f"It does NOT decide: {mod.NOT_DECIDED} Rules: {rules}."
                    ),
                    "design_ref": f"DESIGN.md section 4, {prop}",
                },
                "level_note": (
                    "Trusted base: CPython's ast module, the rule implementations under /verif/sa (exercised both ways by the self-test "
                    "catalogue in the thorough tier), the blockMesh hexahedron convention as external oracle. Assumes the idioms enumerated in "
                    "DESIGN.md; code the rules cannot recognise is reported as ANALYSIS-ERROR (exit 2), never as a pass. Gives no assurance "
                    "about numeric behaviour."
                ),
                "technique": "static analysis: " + TECHNIQUE[prop],
            }
        )
    return {
        "version": 1,
        "setup_cmd": "true",
        "hooks": {
            "guard": "CLASSY_BLOCKS_VERIF",
            "enable": "not needed: the static checks read /repo's working tree; no instrumentation hooks were added to the repository",
            "baseline_off_cmd": "cd /repo && /venv/bin/python -m pytest -ra -q -p no:cacheprovider --timeout=900 --continue-on-collection-errors",
            "source_commits": [],
            "add_only": True,
        },
        "engines": [
            {
                "name": "sa",
                "path": "sa/",
                "serves_properties": [c["property_id"] for c in checks],
                "kind_free_text": "repository-specific static analysis in pure stdlib Python: repo model + call graph (model.py), statement CFG with must-pass-through/dominance queries (cfg.py), index partial evaluator over symbolic atoms (peval.py), effect/alias summaries (effects.py), rule modules per property (rules/), self-test harness with seeded and neutral variants (selftest.py)",
            }
        ],
        "checks": checks,
        "not_applicable": na,
        "notes": "All checks are static (technique family: static analysis). exit 0 = clauses hold (KNOWN-FINDING lines for listed defects), 1 = VIOLATION, 2 = ANALYSIS-ERROR. known_findings.json lists recorded and fixed defects.",
    }


def main() -> None:
    m = build()
    path = os.path.join(VERIF, "MANIFEST.json")
    with open(path, "w", encoding="utf-8") as fh:
        json.dump(m, fh, indent=1)
        fh.write("\n")
    print(f"wrote {path}: {len(m['checks'])} checks, {len(m['not_applicable'])} not applicable")


if __name__ == "__main__":
    main()

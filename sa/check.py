"""Driver: ``python -m sa.check <ID> --tier quick|thorough [--replay <path>] [--root /repo]``

exit 0 - every clause examined holds (listed known findings are printed as KNOWN-FINDING lines)
exit 1 - at least one finding that known_findings.json does not list (VIOLATION lines)
exit 2 - ANALYSIS-ERROR: the analyser cannot recognise the code / self-test failed / internal error
"""

from __future__ import annotations

import argparse
import importlib
import json
import os
import sys
import traceback
from typing import Any, Dict, List, Optional, Tuple

from .model import AnalysisError, Repo
from .report import (
    Finding,
    RuleRun,
    Timer,
    known_index,
    load_known,
    write_evidence,
    write_replay,
)

PROPERTIES = [f"C{i:02d}" for i in range(1, 21)]
NOT_APPLICABLE: set = set()


def load_rules(prop: str):
    return importlib.import_module(f"sa.rules.{prop.lower()}")


def run_rules(mod, repo: Repo, only_rule: Optional[str] = None) -> Tuple[List[RuleRun], List[str]]:
    runs: List[RuleRun] = []
    errors: List[str] = []
    for rule in mod.RULES:
        rid = getattr(rule, "rule_id", rule.__name__)
        if only_rule is not None and rid != only_rule:
            continue
        from . import report as _report

        del _report.ACTIVE[:]
        try:
            res = rule(repo)
            res.finish()
            runs.append(res)
        except AnalysisError as err:
            errors.append(f"{rid}: {err}")
            # findings established before the analysis gave up are still findings
            for partial in _report.ACTIVE:
                if partial.findings and partial.rule == rid:
                    partial.notes.append("rule aborted with an analysis error after these findings")
                    runs.append(partial)
        except RecursionError as err:
            errors.append(f"{rid}: internal error RecursionError {err}")
        except Exception as err:  # noqa: BLE001 - tracebacks must not look like violations
            tb = traceback.format_exc(limit=6)
            errors.append(f"{rid}: internal error {type(err).__name__}: {err}\n{tb}")
    return runs, errors


def findings_of(runs: List[RuleRun]) -> List[Finding]:
    out: List[Finding] = []
    for r in runs:
        out.extend(r.findings)
    return out


def main(argv: Optional[List[str]] = None) -> int:
    ap = argparse.ArgumentParser()
    ap.add_argument("prop")
    ap.add_argument("--tier", default=os.environ.get("VERIF_TIER", "quick"), choices=["quick", "thorough"])
    ap.add_argument("--replay", default=None)
    ap.add_argument("--root", default=os.environ.get("VERIF_REPO", "/repo"))
    ap.add_argument("--no-evidence", action="store_true")
    ap.add_argument("--jobs", type=int, default=int(os.environ.get("VERIF_JOBS", "16")))
    args = ap.parse_args(argv)
    prop = args.prop.upper()
    seed = int(os.environ.get("VERIF_SEED", "0") or 0)
    timer = Timer()

    if prop not in PROPERTIES:
        print(f"ANALYSIS-ERROR property={prop} unknown property")
        return 2
    if prop in NOT_APPLICABLE:
        print(f"NOT-APPLICABLE property={prop}: no structural necessary condition exists (see DESIGN.md section 4/7)")
        return 0

    try:
        mod = load_rules(prop)
        repo = Repo(args.root)
    except AnalysisError as err:
        print(f"ANALYSIS-ERROR property={prop} {err}")
        return 2
    except Exception as err:  # noqa: BLE001
        print(f"ANALYSIS-ERROR property={prop} internal error {type(err).__name__}: {err}")
        traceback.print_exc()
        return 2

    only_rule = None
    replay_construct = None
    if args.replay:
        with open(args.replay, encoding="utf-8") as fh:
            rp = json.load(fh)
        only_rule = rp["rule"]
        replay_construct = rp["construct"]

    runs, errors = run_rules(mod, repo, only_rule)
    findings = findings_of(runs)

    if args.replay:
        hit = [f for f in findings if f.construct == replay_construct]
        for f in hit:
            print(f"REPLAY: still reported  rule={f.rule} construct={f.construct} at {f.loc}\n        {f.detail}\n        stmt: {f.stmt}")
        if not hit:
            print(f"REPLAY: rule={only_rule} no longer reports construct={replay_construct}")
        for e in errors:
            print(f"ANALYSIS-ERROR property={prop} {e}")
        return 1 if hit else (2 if errors else 0)

    known = known_index(load_known())
    new: List[Finding] = []
    old: List[Finding] = []
    for f in findings:
        (old if f.key in known else new).append(f)

    # ---------------------------------------------------------------- thorough tier extras
    selftest: Dict[str, Any] = {}
    typed: Dict[str, Any] = {}
    if args.tier == "thorough":
        try:
            from . import selftest as st

            selftest = st.run(prop, mod, args.root, findings, jobs=args.jobs)
            if selftest.get("failures") and not new:
                for fl in selftest["failures"]:
                    errors.append(f"self-test: {fl}")
        except Exception as err:  # noqa: BLE001
            errors.append(f"self-test harness: {type(err).__name__}: {err}")
        try:
            from . import typed as ty

            typed = ty.crosscheck(prop, mod, repo)
            for d in typed.get("disagreements", []):
                errors.append(f"typed cross-check: {d}")
        except ImportError:
            typed = {"skipped": "typed cross-check module not available"}
        except Exception as err:  # noqa: BLE001
            errors.append(f"typed cross-check: {type(err).__name__}: {err}")

    # ---------------------------------------------------------------- output
    print(f"== {prop} [{args.tier}] {getattr(mod, 'TITLE', '')}")
    st_ = repo.stats()
    print(f"   analysed {st_['modules']} modules / {st_['classes']} classes / {st_['functions']} functions of {args.root}")
    for r in runs:
        n_bad = len(r.findings)
        print(f"   rule {r.rule}: {len(r.instances)} instance(s) examined (floor {r.floor}), {len(r.instances) - n_bad} hold, {n_bad} finding(s)")
        for n in r.notes:
            print(f"      note: {n}")
    for f in old:
        k = known[f.key]
        print(f"KNOWN-FINDING: property={prop} rule={f.rule} construct={f.construct} - {k.get('what_fails', f.detail)}")
    stale = [k for k in known if k[0] == prop and k not in {f.key for f in findings} and (only_rule is None)]
    for k in stale:
        print(f"   note: listed known finding not reproduced on this tree: rule={k[1]} construct={k[2]}")
    replays = []
    for f in new:
        path = write_replay(f, {"tier": args.tier, "root": args.root, "replay_cmd": f"./check {prop} --replay <this file>"})
        replays.append(path)
        print(f"   {f.loc}: [{f.rule}] {f.construct}: {f.detail}")
        if f.stmt:
            print(f"      stmt: {f.stmt}")
        print(f"VIOLATION property={prop} replay={path}")
    for e in errors:
        print(f"ANALYSIS-ERROR property={prop} {e}")
    if selftest:
        print(
            f"   self-test: {selftest.get('mutants_caught', 0)}/{selftest.get('mutants_applied', 0)} seeded variants reported, "
            f"{selftest.get('neutrals_silent', 0)}/{selftest.get('neutrals_applied', 0)} neutral variants silent, "
            f"{selftest.get('skipped', 0)} not applicable to this tree"
        )

    # ---------------------------------------------------------------- evidence
    instances = [i for r in runs for i in r.instances]
    constructs = {i["construct"] for i in instances}
    samples = []
    for r in runs:
        for i in r.instances[:2]:
            samples.append({"rule": r.rule, **i})
    for f in findings[:6]:
        samples.append({"rule": f.rule, "construct": f.construct, "verdict": "finding", "note": f.detail, "loc": f.loc})
    ev = {
        "property_id": prop,
        "tier": args.tier,
        "seed": seed,
        "level": "other",
        "coverage": {
            "explanation": (
                f"Static analysis (ast-based, no execution of the library) of {args.root}. "
                f"Decides these structural clauses, each a necessary condition of the property: {mod.DECIDES} "
                f"NOT decided (left to other technique families): {mod.NOT_DECIDED}"
            ),
            "rule": "one obligation = one rule instance (a table entry, call site, path or function the rule examined on this run); "
            "distinct_nontrivial = number of distinct source constructs (module.qualname[::key]) among them",
            "obligations": len(instances),
            "discharged": sum(1 for i in instances if i["verdict"] == "ok"),
            "evaluations": len(instances),
            "distinct_nontrivial": len(constructs),
            "exhaustive": bool(runs) and all(r.exhaustive for r in runs),
            "rules": [
                {
                    "rule": r.rule,
                    "what": r.what,
                    "instances": len(r.instances),
                    "floor": r.floor,
                    "findings": len(r.findings),
                    "exhaustive": r.exhaustive,
                    "notes": r.notes,
                }
                for r in runs
            ],
            "samples": samples[:40],
            "analysed": st_,
            "known_findings_reported": [f.to_json() for f in old],
            "new_findings": [f.to_json() for f in new],
            "analysis_errors": errors,
            "selftest": selftest,
            "typed_crosscheck": typed,
        },
        "assumptions": list(getattr(mod, "ASSUMPTIONS", []))
        + [
            "the rules recognise the idioms enumerated in DESIGN.md; unrecognised code is an ANALYSIS-ERROR (exit 2), not a pass",
            "numeric behaviour (floating-point geometry, root finding, optimisation) is not decided by this check",
        ],
        "wall_s": timer.s,
        "violations": len(new),
    }
    if not args.no_evidence:
        try:
            write_evidence(prop, ev)
        except Exception as err:  # noqa: BLE001
            print(f"ANALYSIS-ERROR property={prop} cannot write evidence: {err}")
            return 2

    if new:
        return 1
    if errors:
        return 2
    print(f"OK property={prop} obligations={len(instances)} known_findings={len(old)} wall={timer.s}s")
    return 0


if __name__ == "__main__":
    try:
        rc = main()
    except SystemExit:
        raise
    except BaseException as err:  # noqa: BLE001
        print(f"ANALYSIS-ERROR internal error {type(err).__name__}: {err}")
        traceback.print_exc()
        rc = 2
    sys.stdout.flush()
    os._exit(rc)

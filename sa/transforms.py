"""Three small rules about the transformation methods of the element hierarchy (C09).

* forwarding: an override that delegates to ``super().<same method>(...)`` hands on every parameter the base method also has
  (``super().mirror(normal)`` silently mirrors about the global origin);
* in-place, then read: after a whole-array in-place update of the object's own coordinates (``self.points -= origin``) an array
  parameter is not read again - the library itself hands out views of its arrays, so the parameter may BE a row of that array
  and has just been changed (numpy protects a single ufunc call against overlap, not a sequence of them);
* invalidate last: a ``parts`` getter with a side effect (InterpolatedCurveBase.parts invalidates the interpolation cache) is read
  after everything that may evaluate the entity (``self.center``), not before - otherwise the cache is rebuilt from the old
  coordinates and survives the transformation.
"""

from __future__ import annotations

import ast
from typing import List

from .model import Repo, TypeEnv, attr_chain, walk_shallow
from .report import RuleRun

ARRAY_TYPES = ("PointType", "PointListType", "VectorType", "NPPointType", "NPPointListType", "NPVectorType")


def _elements(repo: Repo):
    elem = repo.cls("base.element.ElementBase")
    return [elem, *sorted(repo.subclasses(elem), key=lambda c: c.qualname)]


def super_forwarding_rule(repo: Repo, prop: str, rule_id: str, floor: int = 3) -> RuleRun:
    r = RuleRun(prop, rule_id, floor=floor, what="overrides that delegate to super().<same method>(...) forward every parameter the base method also takes")
    for cls in _elements(repo):
        for m in sorted(cls.methods.values(), key=lambda f: f.name):
            if not m.params or m.is_staticmethod or m.name.startswith("__") and m.name != "__init__":
                continue
            calls = [n for n in ast.walk(m.node) if isinstance(n, ast.Call) and isinstance(n.func, ast.Attribute) and n.func.attr == m.name and isinstance(n.func.value, ast.Call) and attr_chain(n.func.value.func) == "super"]
            if not calls:
                continue
            base = None
            for b in repo.mro(cls)[1:]:
                if m.name in b.methods:
                    base = b.methods[m.name]
                    break
            if base is None:
                continue
            own = [a.arg for a in [*m.node.args.args[1:], *m.node.args.kwonlyargs]]
            theirs = [a.arg for a in [*base.node.args.args[1:], *base.node.args.kwonlyargs]]
            star = m.node.args.vararg is not None or m.node.args.kwarg is not None
            for k, c in enumerate(calls):
                if any(isinstance(a, ast.Starred) for a in c.args) or any(kw.arg is None for kw in c.keywords) or star:
                    r.ok(m, "forwards *args/**kwargs", key=f"super#{k}")
                    continue
                passed = set()
                for a in [*c.args, *[kw.value for kw in c.keywords]]:
                    for x in ast.walk(a):
                        if isinstance(x, ast.Name):
                            passed.add(x.id)
                # locals derived from a parameter count as forwarding it
                for n in walk_shallow(m.node):
                    if isinstance(n, ast.Assign) and any(isinstance(t, ast.Name) and t.id in passed for t in n.targets):
                        for x in ast.walk(n.value):
                            if isinstance(x, ast.Name):
                                passed.add(x.id)
                missing = [p for p in own if p in theirs and p not in passed]
                if m.name == "__init__":
                    missing = []  # constructors legitimately compute the base arguments from their own
                r.check(
                    not missing,
                    m,
                    f"'{ast.unparse(c)[:60]}' forwards {', '.join(p for p in own if p in theirs) or 'nothing shared'}",
                    f"{m.qualname} delegates with '{ast.unparse(c)[:70]}' but does not hand on its parameter(s) {missing}, which {base.qualname} also takes: the base method falls back to its "
                    "default (e.g. mirrors about the global origin instead of the requested plane)",
                    c,
                    key=f"super#{k}",
                )
    return r


def inplace_then_read_rule(repo: Repo, prop: str, rule_id: str, floor: int = 1) -> RuleRun:
    r = RuleRun(prop, rule_id, floor=floor, what="after a whole-array in-place update of self's coordinates no array parameter is read again (it may be a view of that array)")
    for cls in _elements(repo):
        for m in sorted(cls.methods.values(), key=lambda f: f.name):
            if not m.params or m.is_staticmethod:
                continue
            arr = {a.arg for a in m.node.args.args[1:] if a.annotation is not None and any(t in ast.unparse(a.annotation) for t in ARRAY_TYPES)}
            if not arr:
                continue
            selfname = m.params[0]
            # aliases of array parameters (x = np.asarray(x) keeps the alias; np.array copies)
            alias = set(arr)
            for n in ast.walk(m.node):
                if isinstance(n, ast.Assign) and len(n.targets) == 1 and isinstance(n.targets[0], ast.Name):
                    v = n.value
                    if isinstance(v, ast.Call) and (attr_chain(v.func) or "").split(".")[-1] in ("asarray", "asanyarray") and v.args and isinstance(v.args[0], ast.Name) and v.args[0].id in alias:
                        alias.add(n.targets[0].id)
                    elif isinstance(v, ast.Name) and v.id in alias:
                        alias.add(n.targets[0].id)
                    elif n.targets[0].id in alias and n in m.node.body and not (isinstance(v, ast.Call) and (attr_chain(v.func) or "").split(".")[-1] in ("asarray", "asanyarray")):
                        alias.discard(n.targets[0].id)  # unconditionally re-bound to a fresh value
            stmts = list(walk_shallow(m.node))
            writes = [n for n in stmts if isinstance(n, ast.AugAssign) and isinstance(n.target, ast.Attribute) and attr_chain(n.target.value) == selfname]
            if not writes:
                continue
            first = min(writes, key=lambda n: (n.lineno, n.col_offset))
            later_reads = []
            for n in stmts:
                if isinstance(n, ast.Name) and n.id in alias and isinstance(n.ctx, ast.Load) and (n.lineno, n.col_offset) > (first.end_lineno or first.lineno, first.end_col_offset or 0):
                    later_reads.append(n)
            r.check(
                not later_reads,
                m,
                f"'{ast.unparse(first)[:50]}' is the last statement that needs an array parameter",
                f"{m.qualname} updates its own array in place ('{ast.unparse(first)[:50]}') and afterwards reads the parameter '{later_reads[0].id if later_reads else ''}' again: when the caller "
                "passed a view of this very array (curve.get_point(i), array[i], discretize()[i] return such views) the parameter has just been modified - e.g. the origin is zeroed and never added back",
                later_reads[0] if later_reads else first,
                key="inplace",
            )
    return r


def invalidate_last_rule(repo: Repo, prop: str, rule_id: str, floor: int = 3) -> RuleRun:
    r = RuleRun(prop, rule_id, floor=floor, what="a `parts` getter with a side effect (cache invalidation) is read after everything that evaluates the entity (self.center), never before")
    side_effect = []
    for cls in _elements(repo):
        p = cls.methods.get("parts")
        if p is not None and p.is_property:
            if any(isinstance(n, ast.Expr) and isinstance(n.value, ast.Call) for n in walk_shallow(p.node)) or any(isinstance(n, (ast.Assign, ast.AugAssign)) and any(isinstance(t, ast.Attribute) for t in (n.targets if isinstance(n, ast.Assign) else [n.target])) for n in walk_shallow(p.node)):
                side_effect.append(p)
    r.require(bool(side_effect), "no `parts` getter with a side effect found any more (InterpolatedCurveBase.parts invalidated the interpolation cache)")
    for cls in _elements(repo):
        for m in sorted(cls.methods.values(), key=lambda f: f.name):
            if not m.params or m.is_property or m.is_staticmethod:
                continue
            selfname = m.params[0]
            parts_reads = [n for n in ast.walk(m.node) if isinstance(n, ast.Attribute) and n.attr == "parts" and attr_chain(n.value) == selfname and isinstance(n.ctx, ast.Load)]
            center_reads = [n for n in ast.walk(m.node) if isinstance(n, ast.Attribute) and n.attr == "center" and attr_chain(n.value) == selfname and isinstance(n.ctx, ast.Load)]
            if not parts_reads or not center_reads:
                continue
            bad = [(p_, c_) for p_ in parts_reads for c_ in center_reads if (p_.lineno, p_.col_offset) < (c_.lineno, c_.col_offset)]
            r.check(
                not bad,
                m,
                "self.center is evaluated before self.parts is read",
                f"{m.qualname} reads self.parts (line {bad[0][0].lineno if bad else 0}) BEFORE self.center (line {bad[0][1].lineno if bad else 0}): for an interpolated curve the parts getter invalidates the "
                f"interpolation cache ({side_effect[0].qualname}) and evaluating the centre rebuilds it from the still untransformed points - the curve's points move, its evaluated geometry does not",
                bad[0][1] if bad else m.node,
                key="order",
            )
    return r


# ---------------------------------------------------------------------------------------------------------------------
MEASURES = {"norm", "point_to_line_distance", "point_to_plane_distance", "arc_length_3point", "get_length", "hypot"}


def length_snapshot_rule(repo: Repo, prop: str, rule_id: str, floor: int = 20) -> RuleRun:
    """A transformable entity derives its lengths from its live points (a property). A length MEASURED from coordinates
    (norm / distance of point expressions) and stored in an attribute is a snapshot: translate/rotate keep it valid but
    scale() - and any direct edit of the points - does not, unless the class' scale() rewrites that attribute. What is
    written later (the radius of a searchableSphere, a chop size) then belongs to the entity as it was constructed."""
    r = RuleRun(prop, rule_id, floor=floor, what="no element stores a length measured from its coordinates in an attribute (a snapshot that scale() leaves stale); lengths are derived from the live points or rewritten by the class' scale()")
    for cls in _elements(repo):
        stores = []
        for m in cls.methods.values():
            for n in walk_shallow(m.node):
                if isinstance(n, (ast.Assign, ast.AnnAssign)) and n.value is not None:
                    tgts = n.targets if isinstance(n, ast.Assign) else [n.target]
                    for t in tgts:
                        if isinstance(t, ast.Attribute) and isinstance(t.value, ast.Name) and t.value.id == "self":
                            stores.append((m, n, t.attr))
        bad = 0
        for m, n, attr in stores:
            if m.name == "scale":
                continue
            measured = [c for c in ast.walk(n.value) if isinstance(c, ast.Call) and (attr_chain(c.func) or "").split(".")[-1] in MEASURES]
            # a measure nested in the arguments of a constructor / factory call builds an object, the attribute is not the length itself
            direct = [c for c in measured if not _inside_other_call(n.value, c)]
            if not direct:
                continue
            sc = repo.find_method(cls, "scale")
            rewrites = sc is not None and any(
                isinstance(x, (ast.Assign, ast.AugAssign, ast.AnnAssign)) and any(isinstance(t, ast.Attribute) and t.attr == attr for t in (x.targets if isinstance(x, ast.Assign) else [x.target]))
                for x in ast.walk(sc.node)
            )
            if rewrites:
                continue
            bad += 1
            r.bad(
                m,
                f"{cls.name}.{m.name} stores a measured length in self.{attr} ('{ast.unparse(n)[:80]}') and {cls.name}.scale() ({sc.qualname if sc else 'none'}) does not rewrite it: after scale() - or after the points are moved "
                f"(Mesh.backport, an optimizer) - self.{attr} still holds the length of the entity as constructed, and whatever is written from it (searchableSphere radius, sizes) does not match the vertices",
                n,
                key=f"snapshot:{cls.name}.{attr}",
            )
        if not bad:
            r.ok(cls, f"{cls.name}: {len(stores)} attribute stores, none a measured length left to go stale", key=f"class:{cls.name}")
    return r


def _inside_other_call(root: ast.expr, target: ast.Call) -> bool:
    """True if `target` sits in the arguments of a call that builds something else (a constructor, a factory); arithmetic,
    abs/float/min/max/round around it keep it a length."""
    keep = {"abs", "float", "min", "max", "round", "sqrt", "fabs"}

    def visit(node, under) -> bool:
        if node is target:
            return under
        for child in ast.iter_child_nodes(node):
            u = under or (isinstance(node, ast.Call) and (attr_chain(node.func) or "").split(".")[-1] not in keep | MEASURES and child is not node.func)
            res = visit(child, u)
            if res is not None:
                return res
        return None

    return bool(visit(root, False))


# ---------------------------------------------------------------------------------------------------------------------
def loop_alias_rule(repo: Repo, prop: str, rule_id: str, floor: int = 2) -> RuleRun:
    """The same array is handed, inside a loop over an entity's parts, to a method that adds it to its receiver's storage IN
    PLACE (``self.position += np.asarray(displacement)``: np.asarray keeps the alias). If the caller's array is the storage of
    one of the parts - ``sketch.translate(sketch.center)``: DiskBase.center is the position array of the first point - it
    changes when that part is moved and every later part receives the changed vector. So the loop must work on a private copy
    (``np.array(x)`` / ``x.copy()`` bound before the loop)."""
    r = RuleRun(prop, rule_id, floor=floor, what="an array handed in a loop to in-place updating methods of the entity's parts is a private copy made before the loop (the caller's array may be the storage of one of the parts)")
    # methods that add an array parameter to self's storage in place
    inplace: dict = {}
    for fn in repo.all_functions():
        if fn.cls is None or len(fn.params) < 2:
            continue
        for n in walk_shallow(fn.node):
            if isinstance(n, ast.AugAssign) and isinstance(n.target, ast.Attribute) and isinstance(n.target.value, ast.Name) and n.target.value.id == fn.params[0]:
                # the parameter ITSELF is what is added (possibly through np.asarray, which keeps the alias): a computed value
                # (direction * amount) is a fresh array, and lists of labels are not coordinates
                v = n.value
                if isinstance(v, ast.Call) and (attr_chain(v.func) or "").split(".")[-1] in ("asarray", "asanyarray") and v.args:
                    v = v.args[0]
                if isinstance(v, ast.Name) and v.id in fn.params[1:]:
                    ann = next((a.annotation for a in fn.node.args.args if a.arg == v.id), None)
                    if n.value is not v or (ann is not None and any(t in ast.unparse(ann) for t in ARRAY_TYPES)):
                        inplace.setdefault(fn.name, {})[fn.qualname] = fn.params.index(v.id)
    COPY = ("array", "copy", "deepcopy")
    for cls in _elements(repo):
        for m in sorted(cls.methods.values(), key=lambda f: f.name):
            params = set(m.params[1:])
            for lp in [n for n in ast.walk(m.node) if isinstance(n, ast.For)]:
                for c in ast.walk(lp):
                    if not (isinstance(c, ast.Call) and isinstance(c.func, ast.Attribute) and c.func.attr in inplace):
                        continue
                    if isinstance(c.func.value, ast.Name) and c.func.value.id == m.params[0]:
                        continue  # a call on self, not on a part
                    for a in c.args:
                        root = a
                        while isinstance(root, ast.Attribute):
                            root = root.value
                        if not isinstance(root, ast.Name):
                            continue
                        # a parameter, or something read off a parameter (t7m.displacement for t7m in transforms)
                        from_param = root.id in params or any(isinstance(o, ast.For) and isinstance(o.target, ast.Name) and o.target.id == root.id and isinstance(o.iter, ast.Name) and o.iter.id in params for o in ast.walk(m.node))
                        private = False
                        if isinstance(a, ast.Name):
                            for st in ast.walk(m.node):
                                if isinstance(st, ast.Assign) and any(isinstance(t, ast.Name) and t.id == a.id for t in st.targets) and st.lineno < c.lineno:
                                    v = st.value
                                    nm = (attr_chain(v.func) or "").split(".")[-1] if isinstance(v, ast.Call) else ""
                                    inside = any(st is x for x in ast.walk(lp))
                                    if nm in COPY and not inside:
                                        private = True
                                        from_param = True  # a local that exists for this purpose: count the instance
                                    elif nm in ("asarray", "asanyarray") or isinstance(v, (ast.Name, ast.Attribute)):
                                        from_param = from_param or any(isinstance(x, ast.Name) and x.id in params for x in ast.walk(v))
                        if not from_param:
                            continue
                        r.check(
                            private,
                            m,
                            f"'{ast.unparse(c)[:50]}' in a loop: the array is a copy made before the loop",
                            f"{m.qualname} hands '{ast.unparse(a)}' to {c.func.attr}() of every part in a loop; {', '.join(sorted(inplace[c.func.attr]))[:120]} add it to their storage in place. "
                            "When the caller passes the storage of one of the parts (entity.translate(entity.center)) the vector changes after that part and the remaining parts are moved by a different amount",
                            c,
                            key=f"loop:{c.func.attr}:{ast.unparse(a)}",
                        )
    return r

"""A monotonicity abstract domain: for an expression over named quantities whose direction of change is known
(non-decreasing / non-increasing / constant when the cell is stretched), derive the direction of the expression. Values carry a
sign class too, because products and quotients need it. Everything is weak (non-strict) monotonicity; 'unknown' is explicit."""

from __future__ import annotations

import ast
from dataclasses import dataclass
from typing import Dict, Optional

from .model import AnalysisError, attr_chain

INCREASING = {"log10", "log", "log2", "sqrt", "exp", "float", "sum", "asarray", "array", "cbrt", "log1p", "expm1"}


@dataclass(frozen=True)
class Mono:
    dir: Optional[int]  # +1 non-decreasing, -1 non-increasing, 0 constant, None unknown
    sign: str = "any"  # "pos", "nonneg", "neg", "any"
    const: Optional[float] = None

    def flipped(self) -> "Mono":
        s = {"pos": "neg", "neg": "pos", "nonneg": "any", "any": "any"}[self.sign]
        return Mono(None if self.dir is None else -self.dir, s, None if self.const is None else -self.const)


def _join_add(a: Optional[int], b: Optional[int]) -> Optional[int]:
    if a is None or b is None:
        return None
    if a == 0:
        return b
    if b == 0 or a == b:
        return a
    return None


def _const(v: float) -> Mono:
    return Mono(0, "pos" if v > 0 else "neg" if v < 0 else "nonneg", float(v))


def evaluate(expr: ast.expr, env: Dict[str, Mono], funcs: Dict[str, ast.FunctionDef], fold=None, depth: int = 0) -> Mono:
    """`fold(expr)` may give the numeric value of a name / attribute that is a module constant."""
    if depth > 8:
        return Mono(None)
    if isinstance(expr, ast.Constant) and isinstance(expr.value, (int, float)) and not isinstance(expr.value, bool):
        return _const(expr.value)
    if isinstance(expr, ast.Name) and expr.id in env:
        return env[expr.id]
    if isinstance(expr, (ast.Name, ast.Attribute)):
        v = fold(expr) if fold is not None else None
        if v is not None:
            return _const(v)
        return Mono(None)
    if isinstance(expr, ast.UnaryOp) and isinstance(expr.op, ast.USub):
        return evaluate(expr.operand, env, funcs, fold, depth).flipped()
    if isinstance(expr, ast.UnaryOp) and isinstance(expr.op, ast.UAdd):
        return evaluate(expr.operand, env, funcs, fold, depth)
    if isinstance(expr, ast.BinOp):
        a = evaluate(expr.left, env, funcs, fold, depth)
        b = evaluate(expr.right, env, funcs, fold, depth)
        if isinstance(expr.op, ast.Sub):
            b = b.flipped()
        if isinstance(expr.op, (ast.Add, ast.Sub)):
            sign = "any"
            if a.sign in ("pos", "nonneg") and b.sign in ("pos", "nonneg"):
                sign = "pos" if "pos" in (a.sign, b.sign) else "nonneg"
            const = a.const + b.const if a.const is not None and b.const is not None else None
            return Mono(_join_add(a.dir, b.dir), sign, const)
        if isinstance(expr.op, ast.Div):
            if b.sign != "pos":
                return Mono(None)
            b = Mono(None if b.dir is None else -b.dir, "pos", None if b.const in (None, 0) else 1.0 / b.const)
        if isinstance(expr.op, (ast.Mult, ast.Div)):
            if a.const is not None and b.const is not None:
                return _const(a.const * b.const)
            for c, x in ((a, b), (b, a)):
                if c.const is not None:
                    if c.const == 0:
                        return _const(0)
                    return x if c.const > 0 else x.flipped()
            if a.sign in ("pos", "nonneg") and b.sign in ("pos", "nonneg"):
                return Mono(_join_add(a.dir, b.dir), "pos" if a.sign == b.sign == "pos" else "nonneg")
            return Mono(None)
        if isinstance(expr.op, ast.Pow):
            if a.const is not None and b.const is not None and a.const > 0:
                return _const(a.const**b.const)
            if a.const is not None and a.const > 0:
                if a.const == 1:
                    return _const(1)
                return Mono(b.dir if a.const > 1 else (None if b.dir is None else -b.dir), "pos")
            if b.const is not None and a.sign in ("pos", "nonneg"):
                if b.const > 0:
                    return Mono(a.dir, a.sign)
                if b.const < 0 and a.sign == "pos":
                    return Mono(None if a.dir is None else -a.dir, "pos")
            return Mono(None)
        return Mono(None)
    if isinstance(expr, ast.Call):
        nm = (attr_chain(expr.func) or "").split(".")[-1]
        if isinstance(expr.func, ast.Name) and expr.func.id in funcs:
            fd = funcs[expr.func.id]
            params = [a.arg for a in fd.args.args]
            if len(params) != len(expr.args) or expr.keywords:
                return Mono(None)
            inner = dict(env)
            for p, a in zip(params, expr.args):
                inner[p] = evaluate(a, env, funcs, fold, depth + 1)
            # a straight-line body: assignments to locals, then one return
            for st in fd.body:
                if isinstance(st, ast.Pass) or (isinstance(st, ast.Expr) and isinstance(st.value, ast.Constant)):
                    continue
                if isinstance(st, ast.Assign) and len(st.targets) == 1 and isinstance(st.targets[0], ast.Name):
                    if isinstance(st.value, ast.Constant) and st.value.value is None:
                        continue
                    inner[st.targets[0].id] = evaluate(st.value, inner, funcs, fold, depth + 1)
                    continue
                if isinstance(st, ast.Return) and st.value is not None:
                    return evaluate(st.value, inner, funcs, fold, depth + 1)
                return Mono(None)
            return Mono(None)
        if nm in INCREASING and len(expr.args) >= 1:
            x = evaluate(expr.args[0], env, funcs, fold, depth)
            if nm.startswith("log") and x.sign != "pos":
                return Mono(None)
            if nm == "sqrt" and x.sign not in ("pos", "nonneg"):
                return Mono(None)
            sign = x.sign if nm in ("sqrt", "float", "sum", "asarray", "array", "cbrt") else ("pos" if nm == "exp" else "any")
            return Mono(x.dir, sign)
        if nm in ("max", "min", "maximum", "minimum", "fmax", "fmin") and len(expr.args) >= 2:
            vals = [evaluate(a, env, funcs, fold, depth) for a in expr.args]
            d = 0
            for v in vals:
                d = _join_add(d, v.dir)  # max / min of functions that move the same way (or stand still) moves that way
            hi = nm in ("max", "maximum", "fmax")
            signs = [v.sign for v in vals]
            if hi:
                sign = "pos" if "pos" in signs else "nonneg" if "nonneg" in signs else "any"
            else:
                sign = "pos" if all(x == "pos" for x in signs) else "nonneg" if all(x in ("pos", "nonneg") for x in signs) else "any"
            return Mono(d, sign)
        if nm in ("abs", "fabs") and expr.args:
            x = evaluate(expr.args[0], env, funcs, fold, depth)
            if x.sign in ("pos", "nonneg"):
                return x
            if x.sign == "neg":
                return x.flipped()
            return Mono(None, "nonneg")
        return Mono(None)
    return Mono(None)


def describe(m: Mono) -> str:
    return {1: "non-decreasing", -1: "non-increasing", 0: "constant", None: "of unknown direction"}[m.dir]

"""Affine kind inference: positions (P), vectors (V), scalars (S).

A light-weight type system over numpy point arithmetic: the length of a *position* (norm of a point,
not of a difference of points) depends on where the global origin is, which no geometric quantity
may. Kinds come from the repository's own annotations (PointType / VectorType) and propagate through
assignments, differences, sums, products with scalars and the usual helpers.
"""

from __future__ import annotations

import ast
from typing import Dict, List, Optional, Set, Tuple

from .model import AnalysisError, ClassInfo, FuncInfo, Repo, TypeEnv, attr_chain, parent, walk_shallow
from .report import RuleRun

P, V, S, U = "P", "V", "S", "?"

POINT_ANN = ("PointType", "NPPointType")
VECTOR_ANN = ("VectorType", "NPVectorType")
PASS_THROUGH = {"array", "asarray", "copy", "deepcopy", "asanyarray", "squeeze"}


def ann_kind(ann: Optional[ast.expr]) -> str:
    if ann is None:
        return U
    txt = ast.unparse(ann)
    if any(t in txt for t in ("PointListType", "NPPointListType", "List[", "Sequence[")):
        return U
    if any(t in txt for t in VECTOR_ANN):
        return V
    if any(t in txt for t in POINT_ANN):
        return P
    if txt in ("float", "int"):
        return S
    return U


_DECLARED: Dict[int, Dict[str, str]] = {}


def declared_attr_kind(repo: Repo, attr: str) -> str:
    """Kind of `<some object>.attr` from what the repository itself declares: every property of that name, in whatever class,
    is annotated as a point (NPPointType / PointType) -> P, every one as a vector -> V; anything else, or disagreement -> unknown."""
    table = _DECLARED.get(id(repo))
    if table is None:
        seen: Dict[str, set] = {}
        for cls in repo.classes.values():
            for name, m in cls.methods.items():
                if getattr(m, "is_property", False):
                    seen.setdefault(name, set()).add(ann_kind(m.node.returns))
            for name, ann in cls.class_annotations.items():
                seen.setdefault(name, set()).add(ann_kind(ann))
        table = {name: next(iter(ks)) for name, ks in seen.items() if len(ks) == 1 and next(iter(ks)) in (P, V)}
        _DECLARED[id(repo)] = table
    return table.get(attr, U)


class Kinds:
    def __init__(self, repo: Repo, fn: FuncInfo, outer: Optional[Dict[str, str]] = None, node: Optional[ast.AST] = None):
        self.repo = repo
        self.fn = fn
        self.node = node or fn.node
        self.env: Dict[str, str] = dict(outer or {})
        args = self.node.args
        for a in [*args.posonlyargs, *args.args, *args.kwonlyargs]:
            k = ann_kind(a.annotation)
            if k != U:
                self.env[a.arg] = k
        self.attr_env: Dict[str, str] = {}
        if fn.cls is not None:
            self._class_attrs(fn.cls)
        self._assignments()

    def _class_attrs(self, cls: ClassInfo) -> None:
        for c in self.repo.mro(cls):
            init = c.methods.get("__init__")
            if init is None or init is self.fn:
                continue
            sub = Kinds.__new__(Kinds)
            sub.repo, sub.fn, sub.node, sub.env, sub.attr_env = self.repo, init, init.node, {}, {}
            for a in init.node.args.args:
                k = ann_kind(a.annotation)
                if k != U:
                    sub.env[a.arg] = k
            sub._assignments()
            for k, v in sub.attr_env.items():
                self.attr_env.setdefault(k, v)

    def _assignments(self) -> None:
        for _ in range(2):
            for n in walk_shallow(self.node):
                if isinstance(n, ast.Assign):
                    k = self.kind(n.value)
                    for t in n.targets:
                        self._bind(t, k)
                elif isinstance(n, ast.AnnAssign) and n.value is not None:
                    self._bind(n.target, self.kind(n.value))

    def _bind(self, t: ast.expr, k: str) -> None:
        if isinstance(t, ast.Name):
            old = self.env.get(t.id)
            if old is None or old == U:
                self.env[t.id] = k
            elif k not in (U, old):
                self.env[t.id] = U
        elif isinstance(t, ast.Attribute) and isinstance(t.value, ast.Name) and t.value.id == "self":
            old = self.attr_env.get(t.attr)
            if old is None or old == U:
                self.attr_env[t.attr] = k
            elif k not in (U, old):
                self.attr_env[t.attr] = U

    def kind(self, e: ast.expr) -> str:
        if isinstance(e, ast.Constant):
            return S if isinstance(e.value, (int, float)) and not isinstance(e.value, bool) else U
        if isinstance(e, ast.Name):
            return self.env.get(e.id, U)
        if isinstance(e, ast.Attribute):
            if isinstance(e.value, ast.Name) and e.value.id == "self":
                return self.attr_env.get(e.attr, U)
            if e.attr == "position":
                return P
            if e.attr == "components":
                return V
            return declared_attr_kind(self.repo, e.attr)
        if isinstance(e, ast.UnaryOp):
            return self.kind(e.operand)
        if isinstance(e, ast.BinOp):
            a, b = self.kind(e.left), self.kind(e.right)
            if isinstance(e.op, ast.Sub):
                if a == P and b == P:
                    return V
                if a == P and b == V:
                    return P
                if a == V and b == V:
                    return V
                if a == S and b == S:
                    return S
                return U
            if isinstance(e.op, ast.Add):
                if {a, b} == {P, V}:
                    return P
                if a == V and b == V:
                    return V
                if a == S and b == S:
                    return S
                return U
            if isinstance(e.op, (ast.Mult, ast.Div)):
                if a == S and b == S:
                    return S
                if (a == V and b == S) or (a == S and b == V and isinstance(e.op, ast.Mult)):
                    return V
                return U
            return U
        if isinstance(e, ast.Call):
            nm = (attr_chain(e.func) or "").split(".")[-1]
            if nm in PASS_THROUGH and e.args:
                return self.kind(e.args[0])
            if nm in ("unit_vector", "cross") and e.args:
                return V
            if nm in ("norm", "dot", "angle_between", "point_to_line_distance", "point_to_plane_distance", "abs", "float", "sqrt"):
                return S
            if nm in ("rotate", "scale", "mirror") and e.args and isinstance(e.func, ast.Attribute) and attr_chain(e.func.value) in ("f", "functions"):
                return self.kind(e.args[0])
            if nm == "vector":
                return V
            return U
        if isinstance(e, ast.Subscript):
            return U
        if isinstance(e, ast.IfExp):
            a, b = self.kind(e.body), self.kind(e.orelse)
            return a if a == b else U
        return U


def norm_calls(repo: Repo, fn: FuncInfo) -> List[Tuple[ast.Call, str, str]]:
    """(call, kind of its argument, text) for every norm(<expr>) in fn including nested functions/lambdas."""
    out: List[Tuple[ast.Call, str, str]] = []
    top = Kinds(repo, fn)

    def scan(node: ast.AST, kinds: Kinds):
        for n in walk_shallow(node):
            if isinstance(n, (ast.FunctionDef, ast.Lambda)) and n is not node:
                inner = Kinds(repo, fn, outer=kinds.env, node=n) if isinstance(n, ast.FunctionDef) else kinds
                if isinstance(n, ast.Lambda):
                    for c in ast.walk(n.body):
                        if isinstance(c, ast.Call) and (attr_chain(c.func) or "").split(".")[-1] == "norm" and c.args:
                            out.append((c, kinds.kind(c.args[0]), ast.unparse(c.args[0])))
                else:
                    inner.attr_env = kinds.attr_env
                    scan(n, inner)
            elif isinstance(n, ast.Call) and (attr_chain(n.func) or "").split(".")[-1] == "norm" and n.args:
                out.append((n, kinds.kind(n.args[0]), ast.unparse(n.args[0])))

    scan(fn.node, top)
    return out


def vector_param_calls(repo: Repo, fn: FuncInfo) -> List[Tuple[ast.Call, str, str, str]]:
    """(call, callee qualname, parameter, kind of the argument) for every argument handed to a parameter that the
    repository annotates as a VECTOR (VectorType / NPVectorType) - module-level helper functions only (util.functions
    and friends), resolved through the caller's imports."""
    out: List[Tuple[ast.Call, str, str, str]] = []
    top = Kinds(repo, fn)

    def scan(node: ast.AST, kinds: Kinds):
        for n in walk_shallow(node):
            if isinstance(n, ast.FunctionDef) and n is not node:
                inner = Kinds(repo, fn, outer=kinds.env, node=n)
                inner.attr_env = kinds.attr_env
                scan(n, inner)
                continue
            if not isinstance(n, ast.Call):
                continue
            tgt = repo.resolve_expr(fn.module, n.func) if isinstance(n.func, (ast.Name, ast.Attribute)) else None
            if isinstance(tgt, ClassInfo):
                init = repo.find_method(tgt, "__init__")
                if init is None:
                    continue
                tgt = init
                params = [a for a in tgt.node.args.args][1:]
            elif isinstance(tgt, FuncInfo) and tgt.cls is None:
                params = [a for a in tgt.node.args.args]
            else:
                continue
            # a parameter called origin / point / position / center is a position whatever its annotation says
            # (Revolve.__init__ annotates `origin: VectorType`)
            params = [p_ if not any(w in p_.arg for w in ("origin", "point", "position", "center")) else ast.arg(arg=p_.arg, annotation=None) for p_ in params]
            for i, arg in enumerate(n.args):
                if i < len(params) and ann_kind(params[i].annotation) == V:
                    out.append((n, tgt.qualname, params[i].arg, kinds.kind(arg)))
            for kw in n.keywords:
                for p in params:
                    if kw.arg == p.arg and ann_kind(p.annotation) == V:
                        out.append((n, tgt.qualname, p.arg, kinds.kind(kw.value)))

    scan(fn.node, top)
    return out


def kinds_rule(repo: Repo, prop: str, rule_id: str, module_prefixes: Tuple[str, ...] = ("",), floor: int = 5):
    """Shared rule: within the modules selected, (a) norm() is applied to vectors, never to positions; (b) what is
    handed to a parameter the repository annotates as a vector (unit_vector(vect: VectorType), angle_between, ...) is a
    vector - a difference of points or a direction - never a position. Arguments whose kind cannot be determined from
    the annotations are not judged."""
    from .report import RuleRun

    r = RuleRun(prop, rule_id, floor=floor, what="positions vs vectors: norm() and vector-annotated parameters receive vectors (differences of points, directions), never positions")
    undetermined = 0
    for fn in sorted(repo.all_functions(), key=lambda f: f.qualname):
        short = fn.module.name[len("classy_blocks.") :] if fn.module.name.startswith("classy_blocks.") else fn.module.name
        if not any(short.startswith(p) for p in module_prefixes):
            continue
        for call, kind, txt in norm_calls(repo, fn):
            if kind == V:
                r.ok(fn, f"norm({txt}) of a vector", key=f"norm({txt})")
            elif kind == P:
                r.bad(
                    fn,
                    f"{fn.qualname} takes the norm of the POSITION '{txt}' (distance from the global origin, not a distance between points): "
                    "the result changes when the same geometry is placed elsewhere - e.g. default clamp bounds that are right only for a line starting at the origin",
                    call,
                    key=f"norm({txt})",
                )
            else:
                undetermined += 1
        seen: Dict[str, int] = {}
        for call, callee, param, kind in vector_param_calls(repo, fn):
            base = f"{callee.split('.')[-1]}({param})"
            seen[base] = seen.get(base, 0) + 1
            key = f"{base}#{seen[base]}"
            if kind == V:
                r.ok(fn, f"{base} receives a vector", key=key)
            elif kind == P:
                r.bad(
                    fn,
                    f"{fn.qualname} hands a POSITION to the vector parameter '{param}' of {callee}: '{ast.unparse(call)[:90]}'. A direction must be a difference of "
                    "points; the position itself is the vector from the global origin, so the result is right only for geometry sitting at the origin",
                    call,
                    key=key,
                )
            else:
                undetermined += 1
        # cross / dot products and component sums: operands must be vectors; a position as operand makes the result depend on
        # where the geometry sits, a plain sum of a vector's components (not of squares / absolute values) on how it is turned
        kinds_ = Kinds(repo, fn)
        k2: Dict[str, int] = {}

        def scan2(node, kk):
            for n in walk_shallow(node):
                if isinstance(n, ast.FunctionDef) and n is not node:
                    inner = Kinds(repo, fn, outer=kk.env, node=n)
                    inner.attr_env = kk.attr_env
                    scan2(n, inner)
                    continue
                if isinstance(n, ast.Lambda):
                    inner = kk
                    scan2(n.body if isinstance(n.body, ast.AST) else n, inner)
                if not isinstance(n, ast.Call):
                    continue
                nm = (attr_chain(n.func) or "").split(".")[-1]
                if nm in ("cross", "dot") and len(n.args) >= 2:
                    ks = [kk.kind(a) for a in n.args[:2]]
                    base = f"{nm}()"
                    k2[base] = k2.get(base, 0) + 1
                    if P in ks:
                        which = n.args[ks.index(P)]
                        r.bad(fn, f"{fn.qualname}: '{ast.unparse(n)[:80]}' uses the POSITION '{ast.unparse(which)[:40]}' as a vector: the result is right only for geometry whose reference point is the global origin", n, key=f"{base}#{k2[base]}")
                    elif ks[0] == V and ks[1] == V:
                        r.ok(fn, f"{nm}() of two vectors", key=f"{base}#{k2[base]}")
                elif nm == "sum" and n.args and kk.kind(n.args[0]) in (V, P):
                    k2["sum()"] = k2.get("sum()", 0) + 1
                    r.bad(fn, f"{fn.qualname}: '{ast.unparse(n)[:80]}' adds up the components of a single vector: that number changes when the geometry is turned (a distance is the sum of SQUARED components)", n, key=f"sum()#{k2['sum()']}")

        scan2(fn.node, kinds_)
    r.note(f"{undetermined} argument(s) whose kind could not be determined from annotations are not judged")
    return r


# ---------------------------------------------------------------------------------------------------------------------
# Point-list aware kinds for numerical kernels that work on bare arrays (optimize.cell): PL = array of points,
# VL = array of vectors. Seeds: attributes / parameters called `points`, return annotations NPPointListType / NPPointType.
PL, VL = "PL", "VL"


class GeoKinds(Kinds):
    def kind(self, e: ast.expr) -> str:  # noqa: C901
        if isinstance(e, ast.Attribute) and e.attr in ("points", "point_array") :
            return PL
        if isinstance(e, ast.Name) and e.id == "points" and e.id not in self.env:
            return PL
        if isinstance(e, ast.Attribute) and isinstance(e.value, ast.Name) and e.value.id == "self" and self.fn.cls is not None and e.attr not in self.attr_env:
            m = self.repo.find_method(self.fn.cls, e.attr)
            if m is not None and m.is_property:
                return self._ret_kind(m)
        if isinstance(e, ast.Subscript):
            base = self.kind(e.value)
            if base in (PL, VL):
                idx = e.slice
                if isinstance(idx, ast.Slice) or (isinstance(idx, ast.Tuple) and any(isinstance(x, ast.Slice) for x in idx.elts)):
                    return base
                return P if base == PL else V
            if base in (P, V):
                return S  # a single component / a slice of components
            return U
        if isinstance(e, ast.Call):
            nm = (attr_chain(e.func) or "").split(".")[-1]
            if nm in ("take", "roll", "flip", "array", "asarray", "copy") and e.args:
                return self.kind(e.args[0])
            if nm in ("average", "mean", "sum") and e.args and self.kind(e.args[0]) in (PL, VL):
                axis0 = any(kw.arg == "axis" and isinstance(kw.value, ast.Constant) and kw.value.value == 0 for kw in e.keywords)
                if axis0 and nm != "sum":
                    return P if self.kind(e.args[0]) == PL else V
                return U
            if nm == "cross" and len(e.args) >= 2:
                a, b = self.kind(e.args[0]), self.kind(e.args[1])
                if {a, b} <= {V}:
                    return V
                if {a, b} <= {V, VL} and VL in (a, b):
                    return VL
                return U
            if nm == "unit_vector" and e.args:
                return V
            if isinstance(e.func, ast.Attribute) and isinstance(e.func.value, ast.Name) and e.func.value.id == "self" and self.fn.cls is not None:
                m = self.repo.find_method(self.fn.cls, e.func.attr)
                if m is not None:
                    return self._ret_kind(m)
        if isinstance(e, ast.BinOp):
            a, b = self.kind(e.left), self.kind(e.right)
            if isinstance(e.op, ast.Sub):
                if a == PL and b in (P, PL):
                    return VL
                if a == VL and b in (V, VL):
                    return VL
            if isinstance(e.op, (ast.Mult, ast.Div)) and a == VL and b in (S, U):
                return VL
        return super().kind(e)

    def _ret_kind(self, m, _depth: int = 0) -> str:
        # prefer what the implementations return over the annotation (normals are annotated as point lists)
        impls = [m]
        if m.cls is not None:
            for c in self.repo.subclasses(m.cls):
                o = c.methods.get(m.name)
                if o is not None:
                    impls.append(o)
        kinds = set()
        if _depth < 2:
            for impl in impls:
                rets = [n.value for n in walk_shallow(impl.node) if isinstance(n, ast.Return) and n.value is not None]
                if not rets:
                    continue
                sub = GeoKinds(self.repo, impl)
                for rv in rets:
                    kk = sub.kind(rv)
                    if isinstance(rv, (ast.List, ast.Tuple)) and rv.elts:
                        inner = {sub.kind(x) for x in rv.elts}
                        kk = {frozenset({V}): VL, frozenset({P}): PL}.get(frozenset(inner), U)
                    kinds.add(kk)
        if len(kinds) == 1 and U not in kinds:
            return next(iter(kinds))
        ann = m.node.returns
        if ann is None or kinds - {U}:
            return U  # implementations disagree or are not derivable and there is no annotation: not judged
        txt = ast.unparse(ann)
        if "PointListType" in txt:
            return PL
        return ann_kind(ann)


def geometry_violations(repo: Repo, fn: FuncInfo):
    """(node, message) for uses of coordinates that cannot be invariant under rigid motion, plus the number of
    vector-valued expressions that were classified (evidence that the kinds were determined at all)."""
    k = GeoKinds(repo, fn)
    out = []
    classified = 0
    for n in ast.walk(fn.node):
        if isinstance(n, ast.Subscript):
            base = k.kind(n.value)
            if base in (P, V):
                out.append((n, f"'{ast.unparse(n)[:60]}' picks components of a single {'position' if base == P else 'vector'}: the value depends on how the geometry is turned in space"))
            if base in (P, V, PL, VL):
                classified += 1
        elif isinstance(n, ast.Call):
            nm = (attr_chain(n.func) or "").split(".")[-1]
            if nm in ("cross", "dot") and len(n.args) >= 2:
                a, b = k.kind(n.args[0]), k.kind(n.args[1])
                if P in (a, b) or PL in (a, b):
                    which = n.args[0] if a in (P, PL) else n.args[1]
                    out.append((n, f"'{ast.unparse(n)[:80]}' uses the POSITION '{ast.unparse(which)[:40]}' as a vector: the result depends on where the geometry sits relative to the global origin"))
                if {a, b} & {P, V, PL, VL}:
                    classified += 1
            elif nm in ("norm", "unit_vector") and n.args:
                a = k.kind(n.args[0])
                if a in (P, PL):
                    out.append((n, f"'{ast.unparse(n)[:80]}' measures the POSITION '{ast.unparse(n.args[0])[:40]}' (distance from the global origin)"))
                if a in (P, V, PL, VL):
                    classified += 1
    return out, classified


# ---------------------------------------------------------------------------------------------------------------------
def _normalising_params(repo: Repo, depth: int = 3) -> Dict[str, Set[str]]:
    """qualname -> parameters the function only ever uses normalised (unit_vector(p), p / norm(p)) or hands on to a
    parameter of a callee that does; fixpoint over `depth` rounds."""
    funcs = list(repo.all_functions())
    out: Dict[str, Set[str]] = {f.qualname: set() for f in funcs}

    def normalised_use(fn: FuncInfo, name: str) -> bool:
        alias = {name}
        for n in ast.walk(fn.node):
            if isinstance(n, ast.Assign) and len(n.targets) == 1 and isinstance(n.targets[0], ast.Name) and isinstance(n.value, ast.Call) and (attr_chain(n.value.func) or "").split(".")[-1] in PASS_THROUGH and n.value.args and isinstance(n.value.args[0], ast.Name) and n.value.args[0].id in alias:
                alias.add(n.targets[0].id)
        uses = [n for n in ast.walk(fn.node) if isinstance(n, ast.Name) and n.id in alias and isinstance(n.ctx, ast.Load)]
        if not uses:
            return False
        # `normal = unit_vector(normal)` as a statement of the function body: from there on the name holds the unit vector
        rebound = [st.lineno for st in fn.node.body if isinstance(st, ast.Assign) and len(st.targets) == 1 and isinstance(st.targets[0], ast.Name) and st.targets[0].id == name and isinstance(st.value, ast.Call) and (attr_chain(st.value.func) or "").split(".")[-1] == "unit_vector" and st.value.args and isinstance(st.value.args[0], ast.Name) and st.value.args[0].id in alias]
        if rebound:
            uses = [u for u in uses if u.lineno <= min(rebound)]
        for u in uses:
            p = parent(u)
            if isinstance(p, ast.Call) and u in p.args:
                nm = (attr_chain(p.func) or "").split(".")[-1]
                if nm in PASS_THROUGH or nm in ("unit_vector", "norm"):
                    continue
                env = TypeEnv(repo, fn)
                callees, _ = env.resolve_call(p)
                idx = p.args.index(u)
                ok = bool(callees)
                for c in callees:
                    off = 1 if (c.cls is not None and not c.is_staticmethod and isinstance(p.func, ast.Attribute)) else 0
                    pn = c.params[idx + off] if idx + off < len(c.params) else None
                    if pn is None or pn not in out.get(c.qualname, set()):
                        ok = False
                if ok:
                    continue
                return False
            if isinstance(p, ast.BinOp) and isinstance(p.op, ast.Div) and p.left is u and isinstance(p.right, ast.Call) and (attr_chain(p.right.func) or "").split(".")[-1] == "norm":
                continue
            return False
        return True

    for _ in range(depth):
        for fn in funcs:
            for p in fn.params:
                if p not in out[fn.qualname] and normalised_use(fn, p):
                    out[fn.qualname].add(p)
    return out


def unit_axis_rule(repo: Repo, prop: str, rule_id: str, floor: int = 1) -> RuleRun:
    """A `normal` / `axis` that a class derives as the DIFFERENCE of two of its points (CircleCurve: atop - origin) keeps its
    direction under every transformation but not its length: scale(r) makes it r long. It may therefore only be used where its
    length does not matter - inside unit_vector(), divided by its norm, or handed to a function that normalises that parameter
    (rotation_matrix, f.rotate); a cross or dot product with the raw vector that ends up in a position turns the circle into an
    ellipse as soon as the entity is scaled."""
    r = RuleRun(prop, rule_id, floor=floor, what="directions derived as a difference of points (normal = atop - origin) are used only normalised or through functions that normalise them: their length changes when the entity is scaled")
    norm_params = _normalising_params(repo)
    for prop_fn in sorted(repo.all_functions(), key=lambda f: f.qualname):
        if not (prop_fn.is_property and prop_fn.cls is not None and prop_fn.name in ("normal", "axis")):
            continue
        rets = [n.value for n in ast.walk(prop_fn.node) if isinstance(n, ast.Return) and n.value is not None]
        if len(rets) == 1 and isinstance(rets[0], ast.Name):
            # returned through a local
            defs = [n.value for n in ast.walk(prop_fn.node) if isinstance(n, ast.Assign) and len(n.targets) == 1 and isinstance(n.targets[0], ast.Name) and n.targets[0].id == rets[0].id]
            if len(defs) == 1:
                rets = defs
        if not (len(rets) == 1 and isinstance(rets[0], ast.BinOp) and isinstance(rets[0].op, ast.Sub)):
            continue
        raw = all(isinstance(x, ast.Attribute) and x.attr in ("position", "components") for x in (rets[0].left, rets[0].right)) or not any(isinstance(c, ast.Call) and (attr_chain(c.func) or "").split(".")[-1] == "unit_vector" for c in ast.walk(rets[0]))
        if not raw:
            continue
        cls = prop_fn.cls
        for c in [cls, *repo.subclasses(cls)]:
            for m in sorted(c.methods.values(), key=lambda f: f.name):
                if m is prop_fn or not m.params:
                    continue
                selfname = m.params[0]
                k = 0
                for u in ast.walk(m.node):
                    if not (isinstance(u, ast.Attribute) and u.attr == prop_fn.name and isinstance(u.value, ast.Name) and u.value.id == selfname and isinstance(u.ctx, ast.Load)):
                        continue
                    p = parent(u)
                    ok = False
                    why = ""
                    if isinstance(p, ast.Call) and u in p.args:
                        nm = (attr_chain(p.func) or "").split(".")[-1]
                        if nm == "unit_vector":
                            ok = True
                        else:
                            env = TypeEnv(repo, m)
                            callees, _ = env.resolve_call(p)
                            idx = p.args.index(u)
                            ok = bool(callees)
                            for cal in callees:
                                off = 1 if (cal.cls is not None and not cal.is_staticmethod and isinstance(p.func, ast.Attribute)) else 0
                                pn = cal.params[idx + off] if idx + off < len(cal.params) else None
                                if pn is None or pn not in norm_params.get(cal.qualname, set()):
                                    ok = False
                            if not ok and nm in ("cross", "dot"):
                                # a product whose result is normalised afterwards (directly or through one local)
                                g = parent(p)
                                if isinstance(g, ast.Call) and (attr_chain(g.func) or "").split(".")[-1] == "unit_vector":
                                    ok = True
                                elif isinstance(g, ast.Assign) and len(g.targets) == 1 and isinstance(g.targets[0], ast.Name):
                                    loc = g.targets[0].id
                                    reads = [x for x in ast.walk(m.node) if isinstance(x, ast.Name) and x.id == loc and isinstance(x.ctx, ast.Load)]
                                    ok = bool(reads) and all(isinstance(parent(x), ast.Call) and (attr_chain(parent(x).func) or "").split(".")[-1] == "unit_vector" for x in reads)
                            why = f"'{ast.unparse(p)[:60]}'"
                    elif isinstance(p, ast.BinOp) and isinstance(p.op, ast.Div) and p.left is u and isinstance(p.right, ast.Call) and (attr_chain(p.right.func) or "").split(".")[-1] == "norm":
                        ok = True
                    elif isinstance(p, ast.Return):
                        ok = True  # handed on as it is: the reader is examined where it uses it
                    else:
                        why = f"'{ast.unparse(p)[:60]}'"
                    r.check(
                        ok,
                        m,
                        f"{c.name}.{m.name}: self.{prop_fn.name} used normalised",
                        f"{m.qualname} uses self.{prop_fn.name} ({ast.unparse(rets[0])}) in {why} without normalising it: the vector is as long as the entity was scaled, so the result is stretched by that ratio "
                        "(a scaled circle is evaluated as an ellipse)",
                        u,
                        key=f"use:{m.name}#{k}",
                    )
                    k += 1
    return r



def direction_length_rule(repo: Repo, prop: str, rule_id: str, module_prefixes: Tuple[str, ...] = ("util.functions",)) -> RuleRun:
    """A parameter that a function only ever uses normalised (unit_vector(p), p / norm(p), handed on to such a parameter) is a
    DIRECTION: the caller may give it any length - the cross product of two edges of a millimetre-sized model is 1e-6 long. Its
    length therefore means nothing and is never compared with a tolerance (`if norm(normal) < TOL: return point` makes a mirror
    plane given by a short normal the identity). Expected count zero; the matcher is exercised on an embedded example on every run."""
    r = RuleRun(prop, rule_id, floor=1, what="the length of a direction-only parameter (one the function uses only normalised) is never compared with a tolerance")

    def tests(node: ast.AST, names) -> List[ast.Compare]:
        out = []
        for c in ast.walk(node):
            if not (isinstance(c, ast.Compare) and len(c.ops) == 1 and isinstance(c.ops[0], (ast.Lt, ast.LtE, ast.Gt, ast.GtE))):
                continue
            for side in (c.left, c.comparators[0]):
                if isinstance(side, ast.Call) and (attr_chain(side.func) or "").split(".")[-1] == "norm" and side.args and isinstance(side.args[0], ast.Name) and side.args[0].id in names:
                    out.append(c)
        return out

    probe = ast.parse("def mirror(point, normal, origin):\n    if norm(normal) < TOL:\n        return point\n    n = unit_vector(normal)\n    if norm(point - origin) < TOL:\n        return point\n    return n")
    if len(tests(probe, {"normal"})) != 1:
        raise AnalysisError(f"{rule_id}: the matcher no longer recognises its embedded example")
    norm_params = _normalising_params(repo)
    n = 0
    for fn in sorted(repo.all_functions(), key=lambda f: f.qualname):
        short = fn.module.name[len("classy_blocks.") :] if fn.module.name.startswith("classy_blocks.") else fn.module.name
        if not any(short.startswith(p_) for p_ in module_prefixes):
            continue
        names = norm_params.get(fn.qualname, set())
        if not names:
            continue
        n += 1
        for k, c in enumerate(tests(fn.node, names)):
            r.bad(
                fn,
                f"{fn.qualname} compares the LENGTH of its direction-only parameter ('{ast.unparse(c)[:60]}') with a tolerance: the parameter is otherwise used only normalised, so callers may pass it at any "
                "length - a normal of 1e-8 (the cross product of two edges of a small model) is a perfectly good plane, yet it is treated as 'no direction'",
                c,
                key=f"length-test#{k}",
            )
    r.require(n >= 3, f"only {n} functions with direction-only parameters found")
    r.ok(None, f"{n} functions with direction-only parameters scanned; matcher verified on its embedded example", key="scan")
    return r

"""Exact evaluation of closed-form geometry: the abstract evaluator (peval) run over vectors of rational numbers (sa/poly.py
Rat / Vec with constant coefficients). Configurations are chosen so that every norm on the way is rational (Pythagorean
triples / quadruples); a norm that is not stops the evaluation as 'not evaluable' - never as a verdict. Nothing of the
library is executed: its ASTs are interpreted, numpy / scipy calls are given their exact meaning by the hook below."""

from __future__ import annotations

import ast
import math
from fractions import Fraction
from typing import Optional

from .peval import NO_MATCH, Evaluator, NotEvaluable
from .poly import Poly, Rat, Vec, const_value


def c(x) -> Rat:
    return Rat(Poly.const(Fraction(x)))


def vec(*xs) -> Vec:
    return Vec(c(x) for x in xs)


def value(r: Rat) -> Fraction:
    v = const_value(r)
    if v is None:
        raise NotEvaluable("a symbolic quantity where a number is needed")
    return v


def rsqrt(x: Rat) -> Rat:
    v = const_value(x)
    if v is None or v < 0:
        raise NotEvaluable("norm of a non-constant vector")
    num, den = math.isqrt(v.numerator), math.isqrt(v.denominator)
    if num * num != v.numerator or den * den != v.denominator:
        raise NotEvaluable(f"norm^2 = {v} is not a rational square (the rational model is not closed under this computation)")
    return c(Fraction(num, den))


def coerce(x):
    if isinstance(x, bool):
        return None
    if isinstance(x, (int, Fraction)):
        return c(x)
    if isinstance(x, (list, tuple)) and len(x) == 3 and all(isinstance(e, (int, Fraction, Rat)) and not isinstance(e, bool) for e in x):
        return vec(*x)  # a literal [0, 0, 0] in the repository's code
    return x if isinstance(x, (Rat, Vec)) else None


def binop(op, a, b):
    if not (isinstance(a, (Rat, Vec)) or isinstance(b, (Rat, Vec))):
        if isinstance(op, ast.Div) and all(isinstance(x, (int, Fraction)) and not isinstance(x, bool) for x in (a, b)) and b != 0:
            return c(Fraction(a) / Fraction(b))  # true division of whole numbers stays exact
        if isinstance(op, ast.Div) and all(isinstance(x, (int, Fraction)) and not isinstance(x, bool) for x in (a, b)) and b == 0:
            from .peval import Raised

            raise Raised("ZeroDivisionError")
        return NO_MATCH
    a, b = coerce(a), coerce(b)
    if a is None or b is None:
        raise NotEvaluable("exact and floating-point quantities mixed")
    if isinstance(op, ast.Add) and type(a) is type(b):
        return a + b
    if isinstance(op, ast.Sub) and type(a) is type(b):
        return a - b
    if isinstance(op, ast.Mult):
        if isinstance(a, Rat) and isinstance(b, Rat):
            return a * b
        if isinstance(a, Rat) and isinstance(b, Vec):
            return b.scale(a)
        if isinstance(a, Vec) and isinstance(b, Rat):
            return a.scale(b)
    if isinstance(op, ast.Div) and isinstance(b, Rat):
        return a / b if isinstance(a, Rat) else a.scale(c(1) / b)
    if isinstance(op, ast.Pow) and isinstance(a, Rat) and isinstance(b, Rat):
        e = const_value(b)
        if e is not None and e.denominator == 1 and 0 <= e <= 6:
            out = c(1)
            for _ in range(int(e)):
                out = out * a
            return out
    raise NotEvaluable(f"operator {type(op).__name__} on exact quantities")


def matvec(rows, v: Vec, transposed: bool) -> Vec:
    m = [[coerce(x) for x in row] for row in rows]
    if len(m) != 3 or any(len(r_) != 3 or any(x is None for x in r_) for r_ in m):
        raise NotEvaluable("not a 3x3 matrix of exact numbers")
    if transposed:  # v . M
        return Vec(sum((v.c[i] * m[i][j] for i in range(3)), c(0)) for j in range(3))
    return Vec(sum((m[i][j] * v.c[j] for j in range(3)), c(0)) for i in range(3))


def base_hook(extra=None):
    def hook(ev, call: ast.Call, name):
        if extra is not None:
            res = extra(ev, call, name)
            if res is not NO_MATCH:
                return res
        nm = (name or "").split(".")[-1]
        if isinstance(call.func, ast.Attribute) and call.func.attr == "move_to" and len(call.args) == 1:
            # Point.move_to copies the three coordinates into its own array: over exact vectors, the position is replaced
            from .peval import Obj as _Obj

            recv = ev.eval(call.func.value)
            if isinstance(recv, _Obj) and recv.has("position") and isinstance(recv.get("position"), Vec):
                new_pos = coerce(ev.eval(call.args[0]))
                if isinstance(new_pos, Vec):
                    recv.set("position", new_pos)
                    return recv
        if isinstance(call.func, ast.Attribute) and call.func.attr == "dot" and len(call.args) == 1:
            recv = ev.eval(call.func.value)
            if isinstance(recv, Vec):
                other = ev.eval(call.args[0])
                if isinstance(other, Vec):
                    return recv.dot(other)
                if isinstance(other, list):
                    return matvec(other, recv, True)
        if nm in ("asarray", "array", "asanyarray", "copy") and call.args and (name or "").split(".")[0] in ("np", "numpy", "copy"):
            return ev.eval(call.args[0])
        if nm == "norm" and call.args:
            v = ev.eval(call.args[0])
            if isinstance(v, Vec):
                try:
                    return rsqrt(v.dot(v))
                except NotEvaluable:
                    # an irrational length: good enough as a float for a comparison with a tolerance; if it flows into the
                    # exact arithmetic the evaluation stops there ('exact and floating-point quantities mixed')
                    return math.sqrt(float(value(v.dot(v))))
            if isinstance(v, Rat):
                return v if value(v) >= 0 else c(0) - v
        if nm in ("cross", "dot") and len(call.args) == 2 and (name or "").split(".")[0] in ("np", "numpy"):
            a, b = ev.eval(call.args[0]), ev.eval(call.args[1])
            if isinstance(a, Vec) and isinstance(b, Vec):
                return a.cross(b) if nm == "cross" else a.dot(b)
            if nm == "dot" and isinstance(a, list) and isinstance(b, Vec):
                return matvec(a, b, False)
            if nm == "dot" and isinstance(a, Vec) and isinstance(b, list):
                return matvec(b, a, True)
        if nm in ("abs", "fabs") and call.args:
            v = ev.eval(call.args[0])
            if isinstance(v, Rat):
                return v if value(v) >= 0 else c(0) - v
            if isinstance(v, float):
                return abs(v)
        if nm == "sign" and len(call.args) == 1:
            v = ev.eval(call.args[0])
            x = value(v) if isinstance(v, Rat) else v
            if isinstance(x, (int, float, Fraction)) and not isinstance(x, bool):
                return c(1 if x > 0 else (-1 if x < 0 else 0))
        if nm in ("arccos", "arcsin", "arctan", "acos", "asin", "atan", "clip", "arctan2", "atan2") and call.args:
            args = [ev.eval(a) for a in call.args]
            nums = [float(value(a)) if isinstance(a, Rat) else a for a in args]
            if all(isinstance(x, (int, float)) and not isinstance(x, bool) for x in nums):
                if nm == "clip" and len(nums) == 3:
                    lo, hi = nums[1], nums[2]
                    return args[0] if lo <= nums[0] <= hi else (c(Fraction(lo).limit_denominator(10**9)) if nums[0] < lo else c(Fraction(hi).limit_denominator(10**9)))
                if nm in ("arccos", "acos") and -1 <= nums[0] <= 1:
                    return math.acos(nums[0])
                if nm in ("arcsin", "asin") and -1 <= nums[0] <= 1:
                    return math.asin(nums[0])
                if nm in ("arctan", "atan"):
                    return math.atan(nums[0])
                if nm in ("arctan2", "atan2") and len(nums) == 2:
                    return math.atan2(nums[0], nums[1])
        if nm == "linspace" and len(call.args) >= 2:
            a, b = ev.eval(call.args[0]), ev.eval(call.args[1])
            num = None
            for kw in call.keywords:
                if kw.arg == "num":
                    num = ev.eval(kw.value)
            if num is None and len(call.args) > 2:
                num = ev.eval(call.args[2])
            if isinstance(a, Vec) and isinstance(b, Vec) and isinstance(num, int) and num >= 2:
                return [a + (b - a).scale(c(Fraction(i, num - 1))) for i in range(num)]
        return NO_MATCH

    return hook


def evaluator(repo, module, extra=None, bind: Optional[dict] = None) -> Evaluator:
    b = {"np.pi": math.pi, "numpy.pi": math.pi, "math.pi": math.pi}
    b.update(bind or {})
    ev = Evaluator(repo=repo, module=module, call_hook=base_hook(extra), bind=b)
    ev.binop_hook = binop
    ev.extra_types = (Rat, Vec, Fraction)
    ev.float_arith = True
    orig_truth = ev.truth

    def truth(v, node=None):
        if isinstance(v, Rat):
            return value(v) != 0
        return orig_truth(v, node)

    ev.truth = truth  # type: ignore[method-assign]
    return ev


def same(a, b) -> bool:
    return isinstance(a, Vec) and isinstance(b, Vec) and all((x - y).is_zero() for x, y in zip(a.c, b.c))


def distance(a: Vec, b: Vec) -> float:
    return math.sqrt(sum(float(value(x - y)) ** 2 for x, y in zip(a.c, b.c)))

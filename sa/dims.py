"""Angles are dimensionless. Wherever the optimisation package turns a point with functions.rotate(point, angle, axis, origin)
the `angle` argument must be a pure number under the package's own conventions: clamp parameters of the curve clamps are LENGTHS
(LineClamp: distance along the line, RadialClamp: arc length - their docstrings and default bounds say so), norms and point-to-line
distances are lengths, angle_between() is a number. `params[0] / radius` is a number; `params[0] * radius` is an area."""

from __future__ import annotations

import ast
from typing import Dict, Optional, Tuple

from .model import Repo, attr_chain
from .report import RuleRun

LENGTH_CALLS = {"norm", "point_to_line_distance", "point_to_plane_distance", "arc_length_3point", "polyline_length"}
NUMBER_CALLS = {"angle_between", "float", "int", "radians", "deg2rad"}


class _Unknown(Exception):
    pass


def _dim(e: ast.expr, env: Dict[str, int], closure_params: set) -> Optional[int]:
    if isinstance(e, ast.Constant) and isinstance(e.value, (int, float)):
        return None if e.value == 0 else 0  # None = any dimension (literal zero)
    if isinstance(e, ast.Name):
        if e.id in env:
            return env[e.id]
        raise _Unknown(e.id)
    if isinstance(e, ast.Attribute):
        if e.attr in ("pi", "TOL"):
            return 0
        raise _Unknown(ast.unparse(e))
    if isinstance(e, ast.Subscript) and isinstance(e.value, ast.Name) and e.value.id in closure_params:
        return 1  # a clamp parameter: a length
    if isinstance(e, ast.UnaryOp):
        return _dim(e.operand, env, closure_params)
    if isinstance(e, ast.BinOp):
        a, b = _dim(e.left, env, closure_params), _dim(e.right, env, closure_params)
        if isinstance(e.op, (ast.Add, ast.Sub)):
            if a is None:
                return b
            if b is None or a == b:
                return a
            raise _Unknown("mixed sum")
        if isinstance(e.op, ast.Mult):
            return None if a is None or b is None else a + b
        if isinstance(e.op, ast.Div):
            if b is None:
                raise _Unknown("division by zero")
            return None if a is None else a - b
        raise _Unknown("operator")
    if isinstance(e, ast.Call):
        nm = (attr_chain(e.func) or "").split(".")[-1]
        if nm in LENGTH_CALLS:
            return 1
        if nm in NUMBER_CALLS:
            return 0
        raise _Unknown(nm)
    raise _Unknown(type(e).__name__)


def angle_dimension_rule(repo: Repo, prop: str, rule_id: str, module_prefixes: Tuple[str, ...] = ("optimize.",), floor: int = 2) -> RuleRun:
    r = RuleRun(prop, rule_id, floor=floor, what="the angle handed to functions.rotate in clamps and links is dimensionless (clamp parameters and distances are lengths)")
    unjudged = 0
    for fn in sorted(repo.all_functions(), key=lambda f: f.qualname):
        short = fn.module.name[len("classy_blocks.") :] if fn.module.name.startswith("classy_blocks.") else fn.module.name
        if not any(short.startswith(p) for p in module_prefixes):
            continue
        env: Dict[str, int] = {}
        for _ in range(2):
            for n in ast.walk(fn.node):
                if isinstance(n, ast.Assign) and len(n.targets) == 1 and isinstance(n.targets[0], ast.Name):
                    try:
                        d = _dim(n.value, env, set())
                        if d is not None:
                            env[n.targets[0].id] = d
                    except _Unknown:
                        pass
        k = 0
        for n in ast.walk(fn.node):
            if not (isinstance(n, ast.Call) and (attr_chain(n.func) or "").split(".")[-1] == "rotate" and isinstance(n.func, ast.Attribute) and attr_chain(n.func.value) in ("f", "functions") and len(n.args) >= 2):
                continue
            # parameters of the enclosing lambda / nested function are the clamp's parameter vector
            closure_params = set()
            from .model import parent

            p = parent(n)
            while p is not None and p is not fn.node:
                if isinstance(p, ast.Lambda) or (isinstance(p, ast.FunctionDef) and p is not fn.node):
                    closure_params |= {a.arg for a in p.args.args}
                p = parent(p)
            k += 1
            try:
                d = _dim(n.args[1], env, closure_params)
            except _Unknown:
                unjudged += 1
                continue
            r.check(
                d in (0, None),
                fn,
                f"rotate(..., {ast.unparse(n.args[1])[:40]}, ...): the angle is a pure number",
                f"{fn.qualname} turns a point by '{ast.unparse(n.args[1])[:60]}', which has the dimension L^{d} under the package's conventions (clamp parameters and distances are lengths): "
                "an angle must be dimensionless - e.g. arc length DIVIDED by radius; multiplied by the radius the travelled arc grows with r^2 and the clamp's bounds no longer mean arc length",
                n,
                key=f"rotate#{k}",
            )
    r.note(f"{unjudged} rotate() call(s) whose angle could not be typed are not judged")
    return r

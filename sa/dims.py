"""Angles are dimensionless. Wherever the optimisation package turns a point with functions.rotate(point, angle, axis, origin)
the `angle` argument must be a pure number under the package's own conventions: clamp parameters of the curve clamps are LENGTHS
(LineClamp: distance along the line, RadialClamp: arc length - their docstrings and default bounds say so), norms and point-to-line
distances are lengths, angle_between() is a number. `params[0] / radius` is a number; `params[0] * radius` is an area."""

from __future__ import annotations

import ast
from typing import Dict, Optional, Tuple

from .model import Repo, attr_chain
from .report import RuleRun

LENGTH_CALLS = {"norm", "point_to_line_distance", "point_to_plane_distance", "arc_length_3point", "polyline_length"}
NUMBER_CALLS = {"angle_between", "float", "int", "radians", "deg2rad"}


class _Unknown(Exception):
    pass


def _dim(e: ast.expr, env: Dict[str, int], closure_params: set) -> Optional[int]:
    if isinstance(e, ast.Constant) and isinstance(e.value, (int, float)):
        return None if e.value == 0 else 0  # None = any dimension (literal zero)
    if isinstance(e, ast.Name):
        if e.id in env:
            return env[e.id]
        raise _Unknown(e.id)
    if isinstance(e, ast.Attribute):
        if e.attr in ("pi", "TOL"):
            return 0
        raise _Unknown(ast.unparse(e))
    if isinstance(e, ast.Subscript) and isinstance(e.value, ast.Name) and e.value.id in closure_params:
        return 1  # a clamp parameter: a length
    if isinstance(e, ast.UnaryOp):
        return _dim(e.operand, env, closure_params)
    if isinstance(e, ast.BinOp):
        a, b = _dim(e.left, env, closure_params), _dim(e.right, env, closure_params)
        if isinstance(e.op, (ast.Add, ast.Sub)):
            if a is None:
                return b
            if b is None or a == b:
                return a
            raise _Unknown("mixed sum")
        if isinstance(e.op, ast.Mult):
            return None if a is None or b is None else a + b
        if isinstance(e.op, ast.Div):
            if b is None:
                raise _Unknown("division by zero")
            return None if a is None else a - b
        raise _Unknown("operator")
    if isinstance(e, ast.Call):
        nm = (attr_chain(e.func) or "").split(".")[-1]
        if nm in LENGTH_CALLS:
            return 1
        if nm in NUMBER_CALLS:
            return 0
        raise _Unknown(nm)
    raise _Unknown(type(e).__name__)


def angle_dimension_rule(repo: Repo, prop: str, rule_id: str, module_prefixes: Tuple[str, ...] = ("optimize.",), floor: int = 2) -> RuleRun:
    r = RuleRun(prop, rule_id, floor=floor, what="the angle handed to functions.rotate in clamps and links is dimensionless (clamp parameters and distances are lengths)")
    unjudged = 0
    for fn in sorted(repo.all_functions(), key=lambda f: f.qualname):
        short = fn.module.name[len("classy_blocks.") :] if fn.module.name.startswith("classy_blocks.") else fn.module.name
        if not any(short.startswith(p) for p in module_prefixes):
            continue
        env: Dict[str, int] = {}
        for _ in range(2):
            for n in ast.walk(fn.node):
                if isinstance(n, ast.Assign) and len(n.targets) == 1 and isinstance(n.targets[0], ast.Name):
                    try:
                        d = _dim(n.value, env, set())
                        if d is not None:
                            env[n.targets[0].id] = d
                    except _Unknown:
                        pass
        k = 0
        for n in ast.walk(fn.node):
            if not (isinstance(n, ast.Call) and (attr_chain(n.func) or "").split(".")[-1] == "rotate" and isinstance(n.func, ast.Attribute) and attr_chain(n.func.value) in ("f", "functions") and len(n.args) >= 2):
                continue
            # parameters of the enclosing lambda / nested function are the clamp's parameter vector
            closure_params = set()
            from .model import parent

            p = parent(n)
            while p is not None and p is not fn.node:
                if isinstance(p, ast.Lambda) or (isinstance(p, ast.FunctionDef) and p is not fn.node):
                    closure_params |= {a.arg for a in p.args.args}
                p = parent(p)
            k += 1
            try:
                d = _dim(n.args[1], env, closure_params)
            except _Unknown:
                unjudged += 1
                continue
            r.check(
                d in (0, None),
                fn,
                f"rotate(..., {ast.unparse(n.args[1])[:40]}, ...): the angle is a pure number",
                f"{fn.qualname} turns a point by '{ast.unparse(n.args[1])[:60]}', which has the dimension L^{d} under the package's conventions (clamp parameters and distances are lengths): "
                "an angle must be dimensionless - e.g. arc length DIVIDED by radius; multiplied by the radius the travelled arc grows with r^2 and the clamp's bounds no longer mean arc length",
                n,
                key=f"rotate#{k}",
            )
    r.note(f"{unjudged} rotate() call(s) whose angle could not be typed are not judged")
    return r


# ---------------------------------------------------------------------------------------------------------------------
# homogeneity degree: how a quantity scales when every position of the model is multiplied by s (positions 1, tolerances and
# literals 0, norm / abs keep the degree, cross / dot / products add degrees, quotients subtract, sqrt halves). A comparison
# whose two sides differ by two or more degrees decides differently for the same shape at another model size.
class Inhomogeneous(Exception):
    pass


def _is_plain_constant(node: ast.expr) -> bool:
    if isinstance(node, ast.Constant):
        return True
    if isinstance(node, ast.UnaryOp):
        return _is_plain_constant(node.operand)
    nm = (attr_chain(node) or "").split(".")[-1] if isinstance(node, (ast.Name, ast.Attribute)) else ""
    return nm in ("TOL", "VSMALL", "VBIG", "pi")


def homogeneity(e: ast.expr, env: Dict[str, object], defs: Dict[str, ast.expr], depth: int = 0):
    """Degree (int / float) of an expression; None for the literal 0 (any degree). Raises Inhomogeneous when a sum mixes degrees
    and _Unknown when a construct is not understood."""
    if isinstance(e, ast.Constant) and isinstance(e.value, (int, float)):
        return None if e.value == 0 else 0
    if isinstance(e, ast.Name):
        if e.id in env:
            return env[e.id]
        if e.id in defs and depth < 6:
            return homogeneity(defs[e.id], env, defs, depth + 1)
        if e.id in ("TOL", "VSMALL", "VBIG", "pi"):
            return 0
        raise _Unknown(e.id)
    if isinstance(e, ast.Attribute):
        if e.attr in ("pi", "TOL", "VSMALL", "VBIG"):
            return 0
        if e.attr in ("position", "center", "origin", "point", "points", "positions", "point_array"):
            return 1
        if e.attr in ("length", "radius"):
            return 1
        raise _Unknown(ast.unparse(e))
    if isinstance(e, ast.Subscript):
        return homogeneity(e.value, env, defs, depth)
    if isinstance(e, ast.UnaryOp):
        return homogeneity(e.operand, env, defs, depth)
    if isinstance(e, ast.BinOp):
        a, b = homogeneity(e.left, env, defs, depth), homogeneity(e.right, env, defs, depth)
        if isinstance(e.op, (ast.Add, ast.Sub)):
            if a is None:
                return b
            if b is None or a == b:
                return a
            raise Inhomogeneous(f"'{ast.unparse(e)[:60]}' adds quantities of degree {a} and {b}")
        if isinstance(e.op, ast.Mult):
            return None if a is None or b is None else a + b
        if isinstance(e.op, ast.Div):
            if b is None:
                raise _Unknown("division by zero")
            return None if a is None else a - b
        if isinstance(e.op, ast.Pow) and isinstance(e.right, ast.Constant) and isinstance(e.right.value, (int, float)):
            return None if a is None else a * e.right.value
        raise _Unknown("operator")
    if isinstance(e, ast.Call):
        nm = (attr_chain(e.func) or "").split(".")[-1]
        if nm in ("unit_vector", "angle_between", "sin", "cos", "tan", "arccos", "arcsin", "arctan2", "sign", "radians", "get_side_normals"):
            return 0
        if nm in ("get_side_points", "get_side_center", "get_edge_lengths") or (nm in LENGTH_CALLS and nm != "norm"):
            return 1
        args = [homogeneity(a, env, defs, depth) for a in e.args]
        if nm in ("norm", "abs", "fabs", "absolute", "asarray", "array", "float", "max", "min", "sum", "mean") and args:
            known = [a for a in args if a is not None]
            if len(set(known)) > 1:
                raise Inhomogeneous(f"'{ast.unparse(e)[:60]}' combines quantities of degree {sorted(set(known))}")
            return known[0] if known else None
        if nm in ("maximum", "minimum", "clip", "fmax", "fmin") and args:
            # a floor / ceiling by a small or unit constant does not change how the quantity scales
            known = [a for a, node in zip(args, e.args) if a is not None and not _is_plain_constant(node)]
            if len(set(known)) > 1:
                raise Inhomogeneous(f"'{ast.unparse(e)[:60]}' combines quantities of degree {sorted(set(known))}")
            return known[0] if known else 0
        if nm in ("roll", "take", "expand_dims", "squeeze", "flip", "copy", "reshape", "transpose", "atleast_1d", "atleast_2d") and args:
            return args[0]
        if nm in ("get_side_points", "get_side_center", "get_edge_lengths"):
            return 1
        if nm in ("cross", "dot", "inner", "vdot") and len(args) == 2:
            return None if None in args else args[0] + args[1]
        if nm == "dot" and len(args) == 1 and isinstance(e.func, ast.Attribute):
            a0 = homogeneity(e.func.value, env, defs, depth)
            return None if a0 is None or args[0] is None else a0 + args[0]
        if nm == "sqrt" and len(args) == 1:
            return None if args[0] is None else args[0] / 2
        if nm in ("unit_vector", "angle_between", "sin", "cos", "tan", "arccos", "arcsin", "arctan2", "sign", "radians"):
            return 0
        raise _Unknown(nm)
    raise _Unknown(type(e).__name__)


def scale_free_comparison_rule(repo: Repo, prop: str, rule_id: str, functions, allowed=(0, 1), floor: int = 1) -> RuleRun:
    """Every comparison that decides the result of the named predicates compares sides whose homogeneity degrees differ by an
    allowed amount: 0 (an angle-like, scale-free criterion) or 1 (a length against the library's absolute length tolerance - its
    convention for coincident points). A difference of 2 (an area / a product of two lengths against the plain tolerance) makes
    the verdict depend on the model's size: a millimetre-sized model written in metres loses its arcs."""
    from .model import AnalysisError, walk_shallow

    r = RuleRun(prop, rule_id, floor=floor, what="collinearity / validity comparisons scale consistently with the model: both sides of the same degree in the positions, or a length against the absolute length tolerance - not an area (product of two lengths) against the plain tolerance")
    n = 0
    for q in functions:
        fn = repo.func(q)
        defs: Dict[str, ast.expr] = {}
        for st in walk_shallow(fn.node):
            if isinstance(st, ast.Assign) and len(st.targets) == 1 and isinstance(st.targets[0], ast.Name):
                defs[st.targets[0].id] = st.value
        penv: Dict[str, object] = {}
        for a_ in fn.node.args.args:
            ann = ast.unparse(a_.annotation) if a_.annotation is not None else ""
            if any(t in ann for t in ("PointType", "VectorType", "PointListType")) and a_.arg not in defs:
                penv[a_.arg] = 1
        k = 0
        for node in ast.walk(fn.node):
            if not (isinstance(node, ast.Compare) and len(node.ops) == 1 and isinstance(node.ops[0], (ast.Lt, ast.LtE, ast.Gt, ast.GtE))):
                continue
            if any(isinstance(x, ast.Constant) and x.value == 0 for x in (node.left, node.comparators[0])):
                continue  # a sign test: the same at every size
            try:
                a = homogeneity(node.left, penv, defs)
                b = homogeneity(node.comparators[0], penv, defs)
            except Inhomogeneous as err:
                r.bad(fn, f"{fn.qualname}: {err}: the verdict changes with the size of the model", node, key=f"compare#{k}")
                k += 1
                n += 1
                continue
            except _Unknown as err:
                raise AnalysisError(f"{fn.qualname}: scaling degree of '{ast.unparse(node)[:70]}' not determined ({err})") from err
            n += 1
            diff = None if a is None or b is None else abs(a - b)
            r.check(
                diff is None or diff in allowed,
                fn,
                f"'{ast.unparse(node)[:60]}': degrees {a} vs {b}",
                f"{fn.qualname}: '{ast.unparse(node)[:90]}' compares a quantity that scales with the model size to the power {a} against one of power {b}: "
                "the same shape is judged differently at another size - with an absolute tolerance of 1e-7 on the cross product of the two arms every arc of a model smaller than about a millimetre "
                "is declared collinear and silently left out of the dictionary (and nearly collinear arcs of a very large model are written and crash blockMesh)",
                node,
                key=f"compare#{k}",
            )
            k += 1
    r.require(n >= floor, f"only {n} deciding comparisons found")
    return r


def perpendicular_guards_rule(repo: Repo, prop: str, rule_id: str, module_prefixes=("construct.",), floor: int = 3, words=("perpendicular",), example: str = "", strict: bool = False) -> RuleRun:
    """'radius vectors not perpendicular to the axis [are rejected] in either direction' - for a shape of any size: the guards that
    raise '... not perpendicular' compare a cosine-like quantity. The homogeneity degree of both sides is followed through the
    constructor (parameters of point / vector type have degree 1, normalised vectors 0, products add): a dot product of two
    un-normalised vectors (degree 2) against the plain tolerance accepts a millimetre-sized cylinder whose radius leans 27 degrees
    and refuses a kilometre-sized one for rounding noise."""
    from .model import AnalysisError

    r = RuleRun(prop, rule_id, floor=floor, what="perpendicularity guards scale consistently with the shape: a cosine (degree 0) or a length (degree 1, one vector normalised) against the tolerance - not the dot product of two un-normalised vectors")
    n = 0
    for fn in sorted(repo.all_functions(), key=lambda f_: f_.qualname):
        short = fn.module.name[len("classy_blocks.") :] if fn.module.name.startswith("classy_blocks.") else fn.module.name
        if not any(short.startswith(p) for p in module_prefixes):
            continue
        guards = [
            st
            for st in ast.walk(fn.node)
            if isinstance(st, ast.If) and any(isinstance(b, ast.Raise) and any(w in ast.unparse(b).lower() for w in words) for b in st.body)
        ]
        if not guards:
            continue
        env: Dict[str, object] = {}
        for a in fn.node.args.args:
            ann = ast.unparse(a.annotation) if a.annotation is not None else ""
            if any(t in ann for t in ("PointType", "VectorType", "PointListType")):
                env[a.arg] = 1
            elif ann == "float" and any(k in a.arg for k in ("radius", "length", "size", "width", "height", "thickness")):
                env[a.arg] = 1
            elif ann in ("float", "int"):
                env[a.arg] = 0

        def bind(st: ast.stmt):
            if isinstance(st, ast.Assign) and len(st.targets) == 1 and isinstance(st.targets[0], ast.Name):
                try:
                    env[st.targets[0].id] = homogeneity(st.value, env, {})
                except (_Unknown, Inhomogeneous):
                    env.pop(st.targets[0].id, None)

        def visit(body):
            nonlocal n
            for st in body:
                if st in guards:
                    k = 0
                    for node in ast.walk(st.test):
                        if isinstance(node, ast.Compare) and len(node.ops) == 1 and isinstance(node.ops[0], (ast.Lt, ast.LtE, ast.Gt, ast.GtE)):
                            try:
                                a_, b_ = homogeneity(node.left, env, {}), homogeneity(node.comparators[0], env, {})
                            except (_Unknown, Inhomogeneous) as err:
                                raise AnalysisError(f"{fn.qualname}: scaling degree of the perpendicularity guard '{ast.unparse(node)[:70]}' not determined ({err})") from err
                            n += 1
                            diff = None if a_ is None or b_ is None else abs(a_ - b_)
                            r.check(
                                diff is None or diff in ((0,) if strict else (0, 1)),
                                fn,
                                f"'{ast.unparse(node)[:50]}': degrees {a_} vs {b_}",
                                f"{fn.qualname}: the {words[0]} guard '{ast.unparse(node)[:70]}' compares a quantity that scales with the shape's size to the power {a_} against one of power {b_} "
                                "(a product of un-normalised vectors against the plain tolerance): a millimetre-sized shape that breaks the precondition by tens of degrees is accepted and built distorted"
                                + (f" - {example} -" if example else " - Cylinder([0,0,0],[1e-4,0,0],[5e-4,1e-3,0]) -")
                                + " and a very large one is refused for rounding noise; the precondition is not enforced for every size",
                                node,
                                key=f"guard#{k}",
                            )
                            k += 1
                    continue
                bind(st)
                for sub in ("body", "orelse"):
                    inner = getattr(st, sub, None)
                    if isinstance(inner, list) and inner and isinstance(inner[0], ast.stmt) and not isinstance(st, (ast.FunctionDef, ast.ClassDef)):
                        visit(inner)

        visit(fn.node.body)
    r.require(n >= floor, f"only {n} {words[0]} guards found")
    return r


def angle_arguments_rule(repo: Repo, prop: str, rule_id: str, modules=("optimize.cell",), floor: int = 2) -> RuleRun:
    """'the quality measure does not depend on the size of the cell': every angle of the measure is the arc cosine (sine) of a
    quantity that does not scale with the cell - a dot product of two vectors each divided by ITS OWN length. The homogeneity
    degree of the argument of every inverse trigonometric call in the quality kernels is followed through the function
    (points 1, unit vectors 0, norms keep, products add, quotients subtract); a vector normalised by the length of another
    (already normalised) vector leaves a degree-1 argument: the angle of a non-square corner then changes with the cell's size."""
    from .model import AnalysisError

    r = RuleRun(prop, rule_id, floor=floor, what="the argument of every arccos / arcsin of the quality kernels is of degree 0 in the cell's size (each vector divided by its own length)")
    n = 0
    for mname in modules:
        mod = repo.module(mname)
        for fn in sorted(repo.all_functions(), key=lambda f_: f_.qualname):
            if fn.module is not mod:
                continue
            calls = [c for c in ast.walk(fn.node) if isinstance(c, ast.Call) and (attr_chain(c.func) or "").split(".")[-1] in ("arccos", "arcsin", "acos", "asin") and c.args]
            if not calls:
                continue
            env: Dict[str, object] = {}
            k = 0

            def visit(body):
                nonlocal n, k
                for st in body:
                    for c in [c for c in calls if any(c is x for x in ast.walk(st))] if not isinstance(st, (ast.If, ast.For, ast.While, ast.With, ast.Try)) else []:
                        try:
                            deg = homogeneity(c.args[0], env, {})
                        except Inhomogeneous as err:
                            r.bad(fn, f"{fn.qualname}: the argument of '{ast.unparse(c)[:60]}' mixes quantities that scale differently with the cell ({err})", c, key=f"angle#{k}")
                            k += 1
                            n += 1
                            continue
                        except _Unknown as err:
                            raise AnalysisError(f"{fn.qualname}: scaling degree of the argument of '{ast.unparse(c)[:60]}' not determined ({err})") from err
                        n += 1
                        r.check(
                            deg in (None, 0),
                            fn,
                            f"'{ast.unparse(c)[:50]}': argument of degree {deg}",
                            f"{fn.qualname}: the argument of '{ast.unparse(c)[:70]}' scales with the size of the cell to the power {deg}: one of the two vectors is not divided by its own length "
                            "(e.g. by the length of the other, already normalised one), so the 'cosine' is cos(angle) times an edge length - the angle of every non-right corner, and with it the quality of "
                            "the cell, changes when the mesh is scaled",
                            c,
                            key=f"angle#{k}",
                        )
                        k += 1
                    if isinstance(st, ast.Assign) and len(st.targets) == 1 and isinstance(st.targets[0], ast.Name):
                        try:
                            env[st.targets[0].id] = homogeneity(st.value, env, {})
                        except (_Unknown, Inhomogeneous):
                            env.pop(st.targets[0].id, None)
                    for sub in ("body", "orelse", "finalbody"):
                        inner = getattr(st, sub, None)
                        if isinstance(inner, list) and inner and isinstance(inner[0], ast.stmt) and not isinstance(st, (ast.FunctionDef, ast.ClassDef)):
                            visit(inner)

            visit(fn.node.body)
    r.require(n >= floor, f"only {n} inverse-trigonometric calls found in the quality kernels")
    return r


def scale_free_module_rule(repo: Repo, prop: str, rule_id: str, modules, floor: int = 1) -> RuleRun:
    """Every comparison of a geometric quantity with the library's small numbers (TOL, VSMALL) in the named modules: the quantity
    scales like a length at most (degree 0 or 1). An area - the norm of a cross product of two edge vectors - compared with the
    length tolerance decides differently for a sub-millimetre block than for the same block at scale 1 (flow-sensitive scaling
    degrees; comparisons whose quantity cannot be typed are counted in a note, not judged)."""
    r = RuleRun(prop, rule_id, floor=floor, what="quantities compared with TOL / VSMALL scale like a length at most (never an area against the length tolerance)")
    n = skipped = 0
    for mname in modules:
        mod = repo.module(mname)
        for fn in sorted(repo.all_functions(), key=lambda f_: f_.qualname):
            if fn.module is not mod:
                continue
            env: Dict[str, object] = {}
            for a in fn.node.args.args:
                ann = ast.unparse(a.annotation) if a.annotation is not None else ""
                if any(t in ann for t in ("PointType", "VectorType", "PointListType")):
                    env[a.arg] = 1
            k = 0

            def judge(node, fn=fn, env=env):
                nonlocal n, skipped, k
                if not (isinstance(node, ast.Compare) and len(node.ops) == 1 and isinstance(node.ops[0], (ast.Lt, ast.LtE, ast.Gt, ast.GtE))):
                    return
                sides = [node.left, node.comparators[0]]
                small = [x for x in sides if _is_plain_constant(x) and not isinstance(x, ast.Constant)]
                if len(small) != 1:
                    return
                other = sides[1] if small[0] is sides[0] else sides[0]
                try:
                    deg = homogeneity(other, env, {})
                except (_Unknown, Inhomogeneous):
                    skipped += 1
                    return
                n += 1
                r.check(
                    deg is None or deg <= 1,
                    fn,
                    f"'{ast.unparse(node)[:60]}': degree {deg}",
                    f"{fn.qualname}: '{ast.unparse(node)[:80]}' compares a quantity that scales with the size of the block to the power {deg} (an area) with the length tolerance: for a block with edges below about "
                    "0.3 mm the test takes every triangle for collapsed - the same block at scale 1 is handled correctly",
                    node,
                    key=f"compare#{k}",
                )
                k += 1

            def visit(body):
                for st in body:
                    tests = [st.test] if isinstance(st, (ast.If, ast.While)) else []
                    for t in tests:
                        for x in ast.walk(t):
                            judge(x)
                    if not isinstance(st, (ast.If, ast.While, ast.For, ast.With, ast.Try, ast.FunctionDef, ast.ClassDef)):
                        for x in ast.walk(st):
                            judge(x)
                    if isinstance(st, ast.Assign) and len(st.targets) == 1 and isinstance(st.targets[0], ast.Name):
                        try:
                            env[st.targets[0].id] = homogeneity(st.value, env, {})
                        except (_Unknown, Inhomogeneous):
                            env.pop(st.targets[0].id, None)
                    for sub in ("body", "orelse", "finalbody"):
                        inner = getattr(st, sub, None)
                        if isinstance(inner, list) and inner and isinstance(inner[0], ast.stmt) and not isinstance(st, (ast.FunctionDef, ast.ClassDef)):
                            visit(inner)

            visit(fn.node.body)
    r.note(f"{skipped} comparison(s) with a small number whose other side could not be typed are not judged")
    r.ok(None, f"{n} comparisons judged in {list(modules)}", key="scan")
    return r

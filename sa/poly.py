"""A polynomial abstract domain: expressions of the source are normalised to multivariate polynomials with rational
coefficients, so that a closed-form table (a reflection matrix, a barycentre, ...) can be compared with its textbook
definition exactly - without evaluating anything numerically and independent of how the expression is written."""

from __future__ import annotations

import ast
from fractions import Fraction
from typing import Dict, Optional, Tuple

from .model import AnalysisError

Mono = Tuple[Tuple[str, int], ...]


class Poly:
    __slots__ = ("terms",)

    def __init__(self, terms: Optional[Dict[Mono, Fraction]] = None):
        self.terms: Dict[Mono, Fraction] = {m: c for m, c in (terms or {}).items() if c != 0}

    @staticmethod
    def const(c) -> "Poly":
        return Poly({(): Fraction(c)})

    @staticmethod
    def var(name: str) -> "Poly":
        return Poly({((name, 1),): Fraction(1)})

    def __add__(self, o: "Poly") -> "Poly":
        t = dict(self.terms)
        for m, c in o.terms.items():
            t[m] = t.get(m, Fraction(0)) + c
        return Poly(t)

    def __neg__(self) -> "Poly":
        return Poly({m: -c for m, c in self.terms.items()})

    def __sub__(self, o: "Poly") -> "Poly":
        return self + (-o)

    def __mul__(self, o: "Poly") -> "Poly":
        t: Dict[Mono, Fraction] = {}
        for m1, c1 in self.terms.items():
            for m2, c2 in o.terms.items():
                d = dict(m1)
                for v, e in m2:
                    d[v] = d.get(v, 0) + e
                m = tuple(sorted(d.items()))
                t[m] = t.get(m, Fraction(0)) + c1 * c2
        return Poly(t)

    def __pow__(self, n: int) -> "Poly":
        out = Poly.const(1)
        for _ in range(n):
            out = out * self
        return out

    def is_const(self) -> bool:
        return all(m == () for m in self.terms)

    def __eq__(self, o) -> bool:
        return isinstance(o, Poly) and self.terms == o.terms

    def __hash__(self):
        return hash(tuple(sorted(self.terms.items())))

    def __repr__(self) -> str:
        if not self.terms:
            return "0"
        parts = []
        for m, c in sorted(self.terms.items()):
            mon = "*".join(v if e == 1 else f"{v}^{e}" for v, e in m)
            parts.append(f"{c}" if not mon else (mon if c == 1 else f"{c}*{mon}"))
        return " + ".join(parts)


def eval_poly(expr: ast.expr, env: Dict[str, object]) -> Poly:
    """env maps names to Poly (scalars) or to lists of Poly (vectors, indexable by constants)."""
    if isinstance(expr, ast.Constant) and isinstance(expr.value, (int, float)) and not isinstance(expr.value, bool):
        return Poly.const(Fraction(expr.value).limit_denominator(10**9))
    if isinstance(expr, ast.Name):
        v = env.get(expr.id)
        if isinstance(v, Poly):
            return v
        raise AnalysisError(f"polynomial domain: name '{expr.id}' is not a scalar polynomial")
    if isinstance(expr, ast.Subscript) and isinstance(expr.value, ast.Name) and isinstance(expr.slice, ast.Constant) and isinstance(expr.slice.value, int):
        v = env.get(expr.value.id)
        if isinstance(v, list) and -len(v) <= expr.slice.value < len(v) and isinstance(v[expr.slice.value], Poly):
            return v[expr.slice.value]
        raise AnalysisError(f"polynomial domain: '{ast.unparse(expr)}' is not a component of a known vector")
    if isinstance(expr, ast.UnaryOp) and isinstance(expr.op, ast.USub):
        return -eval_poly(expr.operand, env)
    if isinstance(expr, ast.UnaryOp) and isinstance(expr.op, ast.UAdd):
        return eval_poly(expr.operand, env)
    if isinstance(expr, ast.BinOp):
        a = eval_poly(expr.left, env)
        if isinstance(expr.op, ast.Pow):
            if isinstance(expr.right, ast.Constant) and isinstance(expr.right.value, int) and 0 <= expr.right.value <= 6:
                return a ** expr.right.value
            raise AnalysisError(f"polynomial domain: exponent in '{ast.unparse(expr)[:60]}'")
        b = eval_poly(expr.right, env)
        if isinstance(expr.op, ast.Add):
            return a + b
        if isinstance(expr.op, ast.Sub):
            return a - b
        if isinstance(expr.op, ast.Mult):
            return a * b
        if isinstance(expr.op, ast.Div) and b.is_const() and b.terms:
            return a * Poly.const(1 / b.terms[()])
    raise AnalysisError(f"polynomial domain: cannot normalise '{ast.unparse(expr)[:80]}'")

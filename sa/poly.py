"""A polynomial abstract domain: expressions of the source are normalised to multivariate polynomials with rational
coefficients, so that a closed-form table (a reflection matrix, a barycentre, ...) can be compared with its textbook
definition exactly - without evaluating anything numerically and independent of how the expression is written."""

from __future__ import annotations

import ast
from fractions import Fraction
from typing import Dict, Optional, Tuple

from .model import AnalysisError

Mono = Tuple[Tuple[str, int], ...]


class Poly:
    __slots__ = ("terms",)

    def __init__(self, terms: Optional[Dict[Mono, Fraction]] = None):
        self.terms: Dict[Mono, Fraction] = {m: c for m, c in (terms or {}).items() if c != 0}

    @staticmethod
    def const(c) -> "Poly":
        return Poly({(): Fraction(c)})

    @staticmethod
    def var(name: str) -> "Poly":
        return Poly({((name, 1),): Fraction(1)})

    def __add__(self, o: "Poly") -> "Poly":
        t = dict(self.terms)
        for m, c in o.terms.items():
            t[m] = t.get(m, Fraction(0)) + c
        return Poly(t)

    def __neg__(self) -> "Poly":
        return Poly({m: -c for m, c in self.terms.items()})

    def __sub__(self, o: "Poly") -> "Poly":
        return self + (-o)

    def __mul__(self, o: "Poly") -> "Poly":
        t: Dict[Mono, Fraction] = {}
        for m1, c1 in self.terms.items():
            for m2, c2 in o.terms.items():
                d = dict(m1)
                for v, e in m2:
                    d[v] = d.get(v, 0) + e
                m = tuple(sorted(d.items()))
                t[m] = t.get(m, Fraction(0)) + c1 * c2
        return Poly(t)

    def __pow__(self, n: int) -> "Poly":
        out = Poly.const(1)
        for _ in range(n):
            out = out * self
        return out

    def is_const(self) -> bool:
        return all(m == () for m in self.terms)

    def __eq__(self, o) -> bool:
        return isinstance(o, Poly) and self.terms == o.terms

    def __hash__(self):
        return hash(tuple(sorted(self.terms.items())))

    def __repr__(self) -> str:
        if not self.terms:
            return "0"
        parts = []
        for m, c in sorted(self.terms.items()):
            mon = "*".join(v if e == 1 else f"{v}^{e}" for v, e in m)
            parts.append(f"{c}" if not mon else (mon if c == 1 else f"{c}*{mon}"))
        return " + ".join(parts)


def eval_poly(expr: ast.expr, env: Dict[str, object]) -> Poly:
    """env maps names to Poly (scalars) or to lists of Poly (vectors, indexable by constants)."""
    if isinstance(expr, ast.Constant) and isinstance(expr.value, (int, float)) and not isinstance(expr.value, bool):
        return Poly.const(Fraction(expr.value).limit_denominator(10**9))
    if isinstance(expr, ast.Name):
        v = env.get(expr.id)
        if isinstance(v, Poly):
            return v
        raise AnalysisError(f"polynomial domain: name '{expr.id}' is not a scalar polynomial")
    if isinstance(expr, ast.Subscript) and isinstance(expr.value, ast.Name) and isinstance(expr.slice, ast.Constant) and isinstance(expr.slice.value, int):
        v = env.get(expr.value.id)
        if isinstance(v, list) and -len(v) <= expr.slice.value < len(v) and isinstance(v[expr.slice.value], Poly):
            return v[expr.slice.value]
        raise AnalysisError(f"polynomial domain: '{ast.unparse(expr)}' is not a component of a known vector")
    if isinstance(expr, ast.UnaryOp) and isinstance(expr.op, ast.USub):
        return -eval_poly(expr.operand, env)
    if isinstance(expr, ast.UnaryOp) and isinstance(expr.op, ast.UAdd):
        return eval_poly(expr.operand, env)
    if isinstance(expr, ast.BinOp):
        a = eval_poly(expr.left, env)
        if isinstance(expr.op, ast.Pow):
            if isinstance(expr.right, ast.Constant) and isinstance(expr.right.value, int) and 0 <= expr.right.value <= 6:
                return a ** expr.right.value
            raise AnalysisError(f"polynomial domain: exponent in '{ast.unparse(expr)[:60]}'")
        b = eval_poly(expr.right, env)
        if isinstance(expr.op, ast.Add):
            return a + b
        if isinstance(expr.op, ast.Sub):
            return a - b
        if isinstance(expr.op, ast.Mult):
            return a * b
        if isinstance(expr.op, ast.Div) and b.is_const() and b.terms:
            return a * Poly.const(1 / b.terms[()])
    raise AnalysisError(f"polynomial domain: cannot normalise '{ast.unparse(expr)[:80]}'")


# ---------------------------------------------------------------------------------------------------------------------
# rational functions and 3-vectors over them: enough algebra to follow a closed-form geometric construction statement by
# statement and to check an identity about its result exactly
class Rat:
    __slots__ = ("num", "den")

    def __init__(self, num: Poly, den: Optional[Poly] = None):
        self.num, self.den = num, den if den is not None else Poly.const(1)

    def __add__(self, o: "Rat") -> "Rat":
        if self.den == o.den:
            return Rat(self.num + o.num, self.den)
        return Rat(self.num * o.den + o.num * self.den, self.den * o.den)

    def __neg__(self) -> "Rat":
        return Rat(-self.num, self.den)

    def __sub__(self, o: "Rat") -> "Rat":
        return self + (-o)

    def __mul__(self, o: "Rat") -> "Rat":
        return Rat(self.num * o.num, self.den * o.den)

    def __truediv__(self, o: "Rat") -> "Rat":
        if not o.num.terms:
            raise AnalysisError("rational domain: division by zero")
        return Rat(self.num * o.den, self.den * o.num)

    def is_zero(self) -> bool:
        return not self.num.terms

    def as_number(self):
        """The rational number this denotes when it contains no variable (else the object itself)."""
        if self.num.is_const() and self.den.is_const() and self.den.terms:
            return self.num.terms.get((), Fraction(0)) / self.den.terms[()]
        return self


class Vec:
    __slots__ = ("c",)

    def __init__(self, comps):
        self.c = tuple(comps)

    def __add__(self, o):
        return Vec(a + b for a, b in zip(self.c, o.c))

    def __sub__(self, o):
        return Vec(a - b for a, b in zip(self.c, o.c))

    def __neg__(self):
        return Vec(-a for a in self.c)

    def scale(self, s: Rat):
        return Vec(a * s for a in self.c)

    def dot(self, o) -> Rat:
        out = Rat(Poly.const(0))
        for a, b in zip(self.c, o.c):
            out = out + a * b
        return out

    def cross(self, o):
        a, b = self.c, o.c
        return Vec((a[1] * b[2] - a[2] * b[1], a[2] * b[0] - a[0] * b[2], a[0] * b[1] - a[1] * b[0]))


def sym_vec(name: str) -> Vec:
    return Vec(Rat(Poly.var(f"{name}{i}")) for i in range(3))


def reduce_unit(p: Poly, name: str) -> Poly:
    """Normal form of a polynomial modulo |u| = 1 for the vector u = (name0, name1, name2): name2^2 -> 1 - name0^2 - name1^2."""
    x, y, z = f"{name}0", f"{name}1", f"{name}2"
    changed = True
    while changed:
        changed = False
        out = Poly()
        for mono, coef in p.terms.items():
            d = dict(mono)
            if d.get(z, 0) >= 2:
                changed = True
                d[z] -= 2
                if d[z] == 0:
                    del d[z]
                rest = Poly({tuple(sorted(d.items())): coef})
                out = out + rest * (Poly.const(1) - Poly.var(x) ** 2 - Poly.var(y) ** 2)
            else:
                out = out + Poly({mono: coef})
        p = out
    return p


def eval_alg(expr: ast.expr, env: Dict[str, object]):
    """Rat | Vec value of an expression over +, -, *, /, unary minus, x.dot(y), np.dot, np.cross and numeric constants."""
    hook = env.get("__hook__")
    if hook is not None:
        v = hook(expr, env)
        if v is not None:
            return v
    if isinstance(expr, ast.Constant) and isinstance(expr.value, (int, float)) and not isinstance(expr.value, bool):
        return Rat(Poly.const(Fraction(expr.value).limit_denominator(10**9)))
    if isinstance(expr, ast.Name):
        if expr.id in env:
            return env[expr.id]
        raise AnalysisError(f"algebra domain: unbound name '{expr.id}'")
    if isinstance(expr, ast.UnaryOp) and isinstance(expr.op, ast.USub):
        v = eval_alg(expr.operand, env)
        return -v
    if isinstance(expr, ast.BinOp):
        a, b = eval_alg(expr.left, env), eval_alg(expr.right, env)
        if isinstance(expr.op, ast.Add) and type(a) is type(b):
            return a + b
        if isinstance(expr.op, ast.Sub) and type(a) is type(b):
            return a - b
        if isinstance(expr.op, ast.Mult):
            if isinstance(a, Rat) and isinstance(b, Rat):
                return a * b
            if isinstance(a, Rat) and isinstance(b, Vec):
                return b.scale(a)
            if isinstance(a, Vec) and isinstance(b, Rat):
                return a.scale(b)
        if isinstance(expr.op, ast.Div) and isinstance(b, Rat):
            return a / b if isinstance(a, Rat) else a.scale(Rat(Poly.const(1)) / b)
        raise AnalysisError(f"algebra domain: operator in '{ast.unparse(expr)[:60]}'")
    if isinstance(expr, ast.Call):
        fn = expr.func
        nm = fn.attr if isinstance(fn, ast.Attribute) else (fn.id if isinstance(fn, ast.Name) else "")
        if nm == "dot":
            ops = [eval_alg(a, env) for a in expr.args]
            if len(ops) == 1 and isinstance(fn, ast.Attribute):
                ops = [eval_alg(fn.value, env), ops[0]]
            if len(ops) == 2 and all(isinstance(o, Vec) for o in ops):
                return ops[0].dot(ops[1])
        if nm == "cross" and len(expr.args) == 2:
            a, b = eval_alg(expr.args[0], env), eval_alg(expr.args[1], env)
            if isinstance(a, Vec) and isinstance(b, Vec):
                return a.cross(b)
        if nm in ("asarray", "array") and expr.args:
            return eval_alg(expr.args[0], env)
        if nm in ("min", "max") and len(expr.args) >= 2 and isinstance(fn, ast.Name):
            vals = [eval_alg(a, env) for a in expr.args]
            nums = [const_value(v) for v in vals]
            if all(x is not None for x in nums):
                pick = min if nm == "min" else max
                return vals[nums.index(pick(nums))]
    raise AnalysisError(f"algebra domain: cannot follow '{ast.unparse(expr)[:80]}'")


def const_value(v) -> Optional[Fraction]:
    """The number a Rat denotes when it contains no variable (None otherwise)."""
    if isinstance(v, Rat) and v.num.is_const() and v.den.is_const() and v.den.terms:
        return v.num.terms.get((), Fraction(0)) / v.den.terms[()]
    return None

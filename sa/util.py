"""Helpers shared by the rule modules."""

from __future__ import annotations

import ast
from typing import Callable, Dict, Iterable, List, Optional, Sequence, Set, Tuple

from .cfg import CFG, Node
from .model import (
    AnalysisError,
    CallSite,
    ClassInfo,
    FuncInfo,
    Repo,
    attr_chain,
    parent,
    walk_shallow,
)


def call_map(repo: Repo, fn: FuncInfo) -> Dict[int, CallSite]:
    return {id(cs.node): cs for cs in repo.callsites(fn)}


def stmt_exprs(stmt: ast.AST) -> List[ast.AST]:
    """Expression parts of a CFG node's statement that are evaluated *at* that node (headers of
    compound statements only, not their bodies)."""
    if isinstance(stmt, (ast.If, ast.While)):
        return [stmt.test]
    if isinstance(stmt, (ast.For, ast.AsyncFor)):
        return [stmt.iter]
    if isinstance(stmt, (ast.With, ast.AsyncWith)):
        return [i.context_expr for i in stmt.items]
    if isinstance(stmt, ast.Try):
        return []
    if isinstance(stmt, ast.ExceptHandler):
        return [stmt.type] if stmt.type is not None else []
    if isinstance(stmt, (ast.FunctionDef, ast.AsyncFunctionDef, ast.ClassDef)):
        return []
    return [stmt]


def node_calls(node: Node) -> List[ast.Call]:
    out: List[ast.Call] = []
    if node.stmt is None or node.kind == "join":
        return out
    for e in stmt_exprs(node.stmt):
        for n in [e, *walk_shallow(e)]:
            if isinstance(n, ast.Call):
                out.append(n)
    return out


def node_attr_reads(node: Node) -> List[ast.Attribute]:
    out: List[ast.Attribute] = []
    if node.stmt is None or node.kind == "join":
        return out
    for e in stmt_exprs(node.stmt):
        for n in [e, *walk_shallow(e)]:
            if isinstance(n, ast.Attribute):
                out.append(n)
    return out


class Reach:
    """'this CFG node calls something that reaches target' predicate with caching.
    Property reads (self.is_assembled) count as calls."""

    def __init__(self, repo: Repo, fn: FuncInfo):
        self.repo = repo
        self.fn = fn
        self.sites = repo.callsites(fn)
        self._by_call: Dict[int, CallSite] = {}
        self._by_attr: Dict[int, CallSite] = {}
        for cs in self.sites:
            if getattr(cs.node, "_property_read", False):
                self._by_attr[id(cs.node.func)] = cs
            else:
                self._by_call[id(cs.node)] = cs
        self._reach_cache: Dict[Tuple[str, str], bool] = {}

    def callee_reaches(self, callee: FuncInfo, target: FuncInfo) -> bool:
        key = (callee.qualname, target.qualname)
        if key not in self._reach_cache:
            self._reach_cache[key] = callee == target or self.repo.reaches(callee, target)
        return self._reach_cache[key]

    def callsites_in(self, node: Node) -> List[CallSite]:
        out = []
        if node.stmt is None or node.kind == "join":
            return out
        for e in stmt_exprs(node.stmt):
            for n in [e, *walk_shallow(e)]:
                if isinstance(n, ast.Call) and id(n) in self._by_call:
                    out.append(self._by_call[id(n)])
                elif isinstance(n, ast.Attribute) and id(n) in self._by_attr:
                    out.append(self._by_attr[id(n)])
        return out

    def node_reaches(self, node: Node, target: FuncInfo) -> bool:
        for cs in self.callsites_in(node):
            if any(self.callee_reaches(c, target) for c in cs.callees):
                return True
        return False

    def node_calls_directly(self, node: Node, target: FuncInfo) -> bool:
        return any(target in cs.callees for cs in self.callsites_in(node))


def enclosing_loops(node: ast.AST, stop: Optional[ast.AST] = None) -> List[ast.AST]:
    """For/While/comprehension nodes enclosing `node`, innermost first (within function `stop`)."""
    out = []
    child = node
    p = parent(node)
    while p is not None and p is not stop:
        if isinstance(p, (ast.For, ast.While)) and any(child is s for s in p.body):
            out.append(p)
        elif isinstance(p, (ast.ListComp, ast.SetComp, ast.GeneratorExp, ast.DictComp)):
            out.append(p)
        if isinstance(p, (ast.FunctionDef, ast.AsyncFunctionDef, ast.Lambda)):
            break
        child, p = p, parent(p)
    return out


def loop_early_exits(loop: ast.AST) -> List[ast.stmt]:
    """break / return statements that leave `loop` early (breaks of nested loops excluded)."""
    out: List[ast.stmt] = []

    def rec(stmts, depth):
        for st in stmts:
            if isinstance(st, ast.Return):
                out.append(st)
            elif isinstance(st, ast.Break) and depth == 0:
                out.append(st)
            elif isinstance(st, (ast.For, ast.While)):
                rec(st.body, depth + 1)
                rec(st.orelse, depth)
            elif isinstance(st, ast.If):
                rec(st.body, depth)
                rec(st.orelse, depth)
            elif isinstance(st, (ast.With,)):
                rec(st.body, depth)
            elif isinstance(st, ast.Try):
                rec(st.body, depth)
                for h in st.handlers:
                    rec(h.body, depth)
                rec(st.orelse, depth)
                rec(st.finalbody, depth)

    if isinstance(loop, (ast.For, ast.While)):
        rec(loop.body, 0)
    return out


def loop_continues(loop: ast.AST) -> List[ast.stmt]:
    out: List[ast.stmt] = []

    def rec(stmts):
        for st in stmts:
            if isinstance(st, ast.Continue):
                out.append(st)
            elif isinstance(st, ast.If):
                rec(st.body)
                rec(st.orelse)
            elif isinstance(st, ast.With):
                rec(st.body)
            elif isinstance(st, ast.Try):
                rec(st.body)
                for h in st.handlers:
                    rec(h.body)
                rec(st.orelse)
                rec(st.finalbody)

    if isinstance(loop, (ast.For, ast.While)):
        rec(loop.body)
    return out


def loop_iter_source(loop: ast.AST) -> Optional[ast.expr]:
    if isinstance(loop, ast.For):
        return loop.iter
    if isinstance(loop, (ast.ListComp, ast.SetComp, ast.GeneratorExp, ast.DictComp)):
        return loop.generators[0].iter
    return None


def strip_wrappers(expr: ast.expr, names: Sequence[str] = ("list", "tuple", "iter")) -> ast.expr:
    """list(x) / tuple(x) -> x (order-preserving, complete wrappers only)."""
    while (
        isinstance(expr, ast.Call)
        and isinstance(expr.func, ast.Name)
        and expr.func.id in names
        and len(expr.args) == 1
        and not expr.keywords
    ):
        expr = expr.args[0]
    return expr


def is_full_iteration_of(expr: ast.expr, chain: str) -> bool:
    """expr iterates the complete container `chain` (e.g. 'self.blocks'): the container itself,
    list(container), enumerate(container), reversed/sorted(container)."""
    e = strip_wrappers(expr, ("list", "tuple", "iter", "enumerate", "reversed", "sorted", "set"))
    return attr_chain(e) == chain


def raises_of(fn: FuncInfo, exc_names: Iterable[str]) -> List[ast.Raise]:
    names = set(exc_names)
    out = []
    for n in walk_shallow(fn.node):
        if isinstance(n, ast.Raise) and n.exc is not None:
            e = n.exc.func if isinstance(n.exc, ast.Call) else n.exc
            if ast.unparse(e).split(".")[-1] in names:
                out.append(n)
    return out


def attr_reads(fn_node: ast.AST, attr: str) -> List[ast.Attribute]:
    return [
        n
        for n in ast.walk(fn_node)
        if isinstance(n, ast.Attribute) and n.attr == attr and isinstance(n.ctx, ast.Load)
    ]


def find_calls(fn_node: ast.AST, method: str) -> List[ast.Call]:
    out = []
    for n in ast.walk(fn_node):
        if isinstance(n, ast.Call):
            f = n.func
            if (isinstance(f, ast.Attribute) and f.attr == method) or (isinstance(f, ast.Name) and f.id == method):
                out.append(n)
    return out


def is_open_for_write(call: ast.Call) -> bool:
    name = attr_chain(call.func)
    if name not in ("open", "io.open", "builtins.open", "codecs.open"):
        return False
    mode = None
    if len(call.args) >= 2:
        mode = call.args[1]
    for kw in call.keywords:
        if kw.arg == "mode":
            mode = kw.value
    if mode is None:
        return False
    if isinstance(mode, ast.Constant) and isinstance(mode.value, str):
        return any(c in mode.value for c in "wax+")
    return True  # computed mode: assume writable


def fmt_path(path: Optional[List[Node]]) -> str:
    if not path:
        return ""
    parts = []
    for n in path:
        if n.kind in ("entry", "return-exit", "raise-exit"):
            parts.append(n.kind)
        elif n.kind == "join":
            continue
        else:
            parts.append(f"L{n.lineno}")
    return " -> ".join(parts)


def const_str_set(node: ast.expr) -> Optional[Set[str]]:
    if isinstance(node, (ast.List, ast.Tuple, ast.Set)) and all(
        isinstance(e, ast.Constant) and isinstance(e.value, str) for e in node.elts
    ):
        return {e.value for e in node.elts}
    return None


def literal_members(repo: Repo, mod, ann: ast.expr) -> Optional[List]:
    """Members of a Literal[...] annotation or of a type alias naming one."""
    if isinstance(ann, ast.Constant) and isinstance(ann.value, str):
        try:
            ann = ast.parse(ann.value, mode="eval").body
        except SyntaxError:
            return None
    if isinstance(ann, ast.Subscript) and ast.unparse(ann.value).split(".")[-1] == "Literal":
        elts = ann.slice.elts if isinstance(ann.slice, ast.Tuple) else [ann.slice]
        try:
            return [ast.literal_eval(e) for e in elts]
        except Exception:  # noqa: BLE001
            return None
    if isinstance(ann, (ast.Name, ast.Attribute)):
        obj = repo.resolve_expr(mod, ann)
        if isinstance(obj, tuple) and obj[0] == "const":
            return literal_members(repo, obj[2], obj[1])
    return None



def assemble_loop(repo):
    """The function of Mesh that holds the per-operation assembling loop: Mesh.assemble itself, or a private method of Mesh that
    assemble() calls and that contains the call self._add_vertices(...) (the loop may be wrapped for error handling)."""
    import ast as _ast

    from .model import attr_chain as _chain

    asm = repo.func("mesh.Mesh.assemble")

    def holds(fn):
        return any(isinstance(c, _ast.Call) and _chain(c.func) == "self._add_vertices" for c in _ast.walk(fn.node))

    if holds(asm):
        return asm
    mesh = repo.cls("mesh.Mesh")
    for c in _ast.walk(asm.node):
        if isinstance(c, _ast.Call) and isinstance(c.func, _ast.Attribute) and isinstance(c.func.value, _ast.Name) and c.func.value.id == "self":
            fn = mesh.methods.get(c.func.attr)
            if fn is not None and fn is not asm and holds(fn):
                return fn
    return asm

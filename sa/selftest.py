"""E6 - self-test harness (thorough tier).

For the property under test the catalogue in ``sa/variants/<id>.py`` lists

  MUTANTS  : (name, file, old text, new text, expected rule)  - seeded faults that break a clause the
             rule decides; each must be reported by that rule (a new finding compared with the
             unmodified tree);
  NEUTRALS : (name, file, old text, new text)                 - behaviour-preserving edits (renames,
             reordered independent statements, equivalent idioms); each must leave the findings
             unchanged and must not produce an analysis error.

Variants are applied as in-memory overlays on the *current* source of the repository (nothing is
written to disk); a variant whose ``old`` text does not occur exactly once in the current tree is
counted as 'skipped' (the tree has moved on), never as a failure.
"""

from __future__ import annotations

import importlib
import os
import traceback
from concurrent.futures import ProcessPoolExecutor
from typing import Any, Dict, List, Optional, Tuple

from .model import AnalysisError, Repo

_CTX: Dict[str, Any] = {}


def _load_catalogue(prop: str):
    try:
        return importlib.import_module(f"sa.variants.{prop.lower()}")
    except ImportError:
        return None


def _apply(root: str, file: str, old: str, new: str) -> Optional[Dict[str, str]]:
    path = os.path.join(root, file)
    if not os.path.exists(path):
        return None
    with open(path, encoding="utf-8") as fh:
        src = fh.read()
    if src.count(old) != 1:
        return None
    return {file: src.replace(old, new)}


def patch_edits(diff_text: str):
    """Unified diff -> list of (file, old block, new block) edits, one per hunk (applied by exact text match, so a hunk whose
    context has changed makes the variant 'not applicable' instead of being mis-applied)."""
    edits = []
    cur = None
    old: List[str] = []
    new: List[str] = []

    def flush():
        if cur is not None and (old or new):
            edits.append((cur, "".join(old), "".join(new)))

    for line in diff_text.splitlines(keepends=True):
        if line.startswith("+++ "):
            flush()
            old, new = [], []
            path = line[4:].strip()
            cur = path[2:] if path.startswith("b/") else path
        elif line.startswith("--- ") or line.startswith("diff ") or line.startswith("index "):
            continue
        elif line.startswith("@@"):
            flush()
            old, new = [], []
        elif cur is not None and line.startswith("-"):
            old.append(line[1:])
        elif cur is not None and line.startswith("+"):
            new.append(line[1:])
        elif cur is not None and line.startswith(" "):
            old.append(line[1:])
            new.append(line[1:])
        elif cur is not None and line.strip() == "":
            old.append(line)
            new.append(line)
    flush()
    return edits


def seed_variants(prop: str):
    """Every filed seeded change of this property (/verif/seeded/<prop>-*/patch.diff) as a self-test variant."""
    base = os.path.join(os.path.dirname(os.path.dirname(os.path.abspath(__file__))), "seeded")
    out = []
    if not os.path.isdir(base):
        return out
    for d in sorted(os.listdir(base)):
        if not d.startswith(prop + "-"):
            continue
        pf = os.path.join(base, d, "patch.diff")
        mf = os.path.join(base, d, "meta.json")
        if os.path.exists(mf):
            import json

            with open(mf, encoding="utf-8") as fh:
                if json.load(fh).get("limit"):
                    continue  # a documented limit of the technique (DESIGN.md section 6): kept on file, not expected to be reported
        if os.path.exists(pf):
            with open(pf, encoding="utf-8") as fh:
                out.append((f"seeded change {d}", patch_edits(fh.read()), prop))
    return out


def _run_variant(args) -> Dict[str, Any]:
    prop, root, kind, name, edits, expect = args
    from .check import load_rules, run_rules

    mod = load_rules(prop)
    overlay: Dict[str, str] = {}
    if kind == "sweep":
        from . import sweeps

        overlay = sweeps.SWEEPS[name](root)
        edits = []
        kind = "neutral"
        name = f"whole-tree sweep: {name}"
    for edit in edits:
        file, old, new = edit[0], edit[1], edit[2]
        every = len(edit) > 3 and edit[3] == "all"
        if file not in overlay:
            path = os.path.join(root, file)
            if not os.path.exists(path):
                return {"name": name, "kind": kind, "status": "skipped"}
            with open(path, encoding="utf-8") as fh:
                overlay[file] = fh.read()
        n = overlay[file].count(old)
        if n == 0 or (n != 1 and not every):
            return {"name": name, "kind": kind, "status": "skipped"}
        overlay[file] = overlay[file].replace(old, new)
    try:
        repo = Repo(root, overlay)
        runs, errors = run_rules(mod, repo)
    except AnalysisError as err:
        return {"name": name, "kind": kind, "status": "error", "errors": [str(err)], "findings": []}
    except Exception as err:  # noqa: BLE001
        return {"name": name, "kind": kind, "status": "error", "errors": [f"{type(err).__name__}: {err}"], "findings": []}
    keys = sorted({(f.rule, f.construct) for r in runs for f in r.findings})
    return {"name": name, "kind": kind, "status": "ran", "errors": [e.split("\n")[0][:300] for e in errors], "findings": keys, "expect": expect}


def run(prop: str, mod, root: str, baseline_findings, jobs: int = 16) -> Dict[str, Any]:
    cat = _load_catalogue(prop)
    if cat is None:
        return {"skipped_reason": "no variant catalogue for this property", "mutants_applied": 0, "neutrals_applied": 0, "failures": []}
    base = {(f.rule, f.construct) for f in baseline_findings}
    tasks = []
    for m in getattr(cat, "MUTANTS", []):
        name, edits, expect = _norm(m)
        tasks.append((prop, root, "mutant", name, edits, expect))
    for name, edits, expect in seed_variants(prop):
        tasks.append((prop, root, "mutant", name, edits, expect))
    for n in getattr(cat, "NEUTRALS", []):
        name, edits, _ = _norm(n, neutral=True)
        tasks.append((prop, root, "neutral", name, edits, None))
    from . import sweeps

    for sname in sweeps.SWEEPS:
        tasks.append((prop, root, "sweep", sname, [], None))
    results: List[Dict[str, Any]] = []
    if jobs > 1 and len(tasks) > 1:
        with ProcessPoolExecutor(max_workers=min(jobs, len(tasks))) as ex:
            results = list(ex.map(_run_variant, tasks, chunksize=1))
    else:
        results = [_run_variant(t) for t in tasks]
    out: Dict[str, Any] = {"mutants_applied": 0, "mutants_caught": 0, "neutrals_applied": 0, "neutrals_silent": 0, "skipped": 0, "failures": [], "details": []}
    for res in results:
        if res["status"] == "skipped":
            out["skipped"] += 1
            out["details"].append({"name": res["name"], "kind": res["kind"], "verdict": "not applicable to this tree"})
            continue
        new = [k for k in res.get("findings", []) if tuple(k) not in base]
        if res["kind"] == "mutant":
            out["mutants_applied"] += 1
            exp = res.get("expect")
            hit = [k for k in new if exp is None or k[0] == exp or k[0].startswith(exp)]
            if hit:
                out["mutants_caught"] += 1
                out["details"].append({"name": res["name"], "kind": "mutant", "verdict": "reported", "by": sorted({k[0] for k in hit}), "constructs": [k[1] for k in hit][:3]})
            else:
                why = "analysis error instead of a finding: " + "; ".join(res.get("errors", [])) if res.get("errors") else f"no new finding of rule {exp} (new findings: {new})"
                out["failures"].append(f"seeded variant '{res['name']}' not reported: {why}")
                out["details"].append({"name": res["name"], "kind": "mutant", "verdict": "MISSED", "why": why})
        else:
            out["neutrals_applied"] += 1
            gone = [k for k in base if list(k) not in [list(x) for x in res.get("findings", [])] and k[0].split(".")[0] == prop]
            if not new and not res.get("errors") and res["status"] == "ran":
                out["neutrals_silent"] += 1
                out["details"].append({"name": res["name"], "kind": "neutral", "verdict": "silent"})
            else:
                why = f"new findings {new}" if new else f"analysis errors {res.get('errors')}"
                out["failures"].append(f"neutral variant '{res['name']}' raised an alarm: {why}")
                out["details"].append({"name": res["name"], "kind": "neutral", "verdict": "ALARM", "why": why})
    return out


def _norm(entry, neutral: bool = False):
    """Entries: (name, file, old, new[, expect]) or (name, [(file, old, new), ...][, expect])."""
    name = entry[0]
    if isinstance(entry[1], list):
        edits = [tuple(e) for e in entry[1]]
        expect = entry[2] if len(entry) > 2 else None
    else:
        edits = [(entry[1], entry[2], entry[3])]
        expect = entry[4] if len(entry) > 4 else None
    return name, edits, expect


def main() -> int:
    """``python -m sa.selftest [C01 ...]``: runs the catalogues and prints one line per variant."""
    import sys

    from .check import PROPERTIES, NOT_APPLICABLE, findings_of, load_rules, run_rules

    props = [p.upper() for p in sys.argv[1:]] or [p for p in PROPERTIES if p not in NOT_APPLICABLE]
    root = os.environ.get("VERIF_REPO", "/repo")
    rc = 0
    for prop in props:
        mod = load_rules(prop)
        runs, errors = run_rules(mod, Repo(root))
        res = run(prop, mod, root, findings_of(runs))
        print(f"{prop}: mutants {res.get('mutants_caught', 0)}/{res.get('mutants_applied', 0)} reported, neutrals {res.get('neutrals_silent', 0)}/{res.get('neutrals_applied', 0)} silent, skipped {res.get('skipped', 0)}")
        for d in res.get("details", []):
            if d["verdict"] in ("MISSED", "ALARM"):
                print(f"   {d['verdict']}: {d['name']}: {d.get('why', '')[:300]}")
        if res.get("failures"):
            rc = 2
    return rc


if __name__ == "__main__":
    raise SystemExit(main())

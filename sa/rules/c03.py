"""C03 - cell count and expansion ratio obey the geometric-progression law."""

from __future__ import annotations

import ast
import itertools
from typing import Any, Dict, List, Optional, Set, Tuple

from ..model import AnalysisError, FuncInfo, Repo, attr_chain, parent, walk_shallow
from ..peval import NO_MATCH, Evaluator, NotEvaluable, Obj, Raised, Sym
from ..report import RuleRun
from ..util import literal_members

PROP = "C03"
TITLE = "Cell count and expansion ratio obey the geometric-progression law"
DECIDES = (
    "the name-driven registry agrees with the functions it calls: every get_<out>__<p1>__<p2> takes (length, p1, p2) in exactly "
    "that order, with names among the five chop quantities, and Chop.calculate passes data[input_1], data[input_2] in that order "
    "(C03.REGISTRY-AGREEMENT); abstract run of Chop.calculate for all 10 parameter pairs (and the count-only default) reaches all "
    "five quantities within the loop bound (C03.CLOSURE); Chop.invert swaps start/end size, reciprocates both ratios, keeps count "
    "and length ratio and remaps 'preserve'; Grading.inverted reverses the sections and reciprocates the expansion only "
    "(C03.INVERT-COMPLETE); every relation validates length first and count where it takes one (C03.VALIDATION-SIBLINGS); a "
    "dimension (units) type check of every relation body: sizes and length carry dimension L, count and ratios are dimensionless, "
    "sums/comparisons need equal dimensions, logs/exponents dimensionless operands, and the returned dimension is that of the "
    "output named by the function (C03.DIMENSIONS)."
    " every 'ratio == 1' switch of the relations is the same purely absolute test against TOL, no relative closeness test (numpy isclose/allclose defaults) anywhere in the grading modules except the two length-uniformity tests (C03.UNIT-RATIO-TESTS); a chop re-created for another edge hands exactly two quantities to the closure (C03.COPY-WELL-POSED = C04.PRESERVE-CARRIED)."
    ' No logarithm argument or result in grading.relations is clamped into range: an unrealisable request surfaces as an error, not as a repaired count (C03.REJECT-NOT-REPAIR).'
    ' Nothing in the grading package memoises a value computed from state its class changes later (C03.NO-MEMO); root finders run with default tolerances (C03.SOLVER-TOLERANCE); nothing is rounded to decimals (C03.NO-ROUNDING). Every relation taking a total / cell-to-cell expansion ends in a raise when run abstractly with that ratio at 0, -0.5 and -2 (C03.RATIO-REJECTION); every result of a get_count__* relation is rounded up, int(x) + 1 or a ceiling (C03.COUNT-ROUNDS-UP).'
)
NOT_DECIDED = (
    "that the formulas are the geometric-progression identities, rounding of counts, behaviour near ratio 1, finiteness - identities "
    "over reals with root finding (deciding them means evaluating or symbolically executing the bodies: another technique family)."
)
ASSUMPTIONS = ["inspect.getmembers lists module functions alphabetically (registry order)"]

QUANTITIES = ["count", "start_size", "end_size", "c2c_expansion", "total_expansion"]


def relation_functions(repo: Repo) -> List[FuncInfo]:
    mod = repo.module("grading.relations")
    out = []
    for q, f in repo.functions.items():
        if f.module is mod and f.cls is None and f.name.startswith("get_") and "__" in f.name and f.name != "get_calculation_functions":
            out.append(f)
    return sorted(out, key=lambda f: f.name)


def split_name(repo: Repo, name: str) -> Tuple[str, str, str]:
    """Evaluates ChopRelation.from_function abstractly on a function object with that __name__."""
    ff = repo.func("grading.chop.ChopRelation.from_function")
    fobj = Obj("function")
    fobj.set("__name__", name)
    made = {}

    def hook(ev, call: ast.Call, nm):
        if nm == "cls":
            made["args"] = [ev.eval(a) for a in call.args]
            return Obj("relation")
        return NO_MATCH

    try:
        Evaluator(repo=repo, module=ff.module, call_hook=hook).call_funcinfo(ff, [Sym("cls"), fobj])
    except (NotEvaluable, Raised) as err:
        raise AnalysisError(f"ChopRelation.from_function not evaluable for '{name}': {err}") from err
    if "args" not in made or len(made["args"]) != 4:
        raise AnalysisError("ChopRelation.from_function does not build cls(output, input_1, input_2, function)")
    return tuple(made["args"][:3])  # type: ignore[return-value]


def registry_agreement(repo: Repo) -> RuleRun:
    r = RuleRun(PROP, "C03.REGISTRY-AGREEMENT", floor=12, what="get_<out>__<p1>__<p2>(length, p1, p2): names and order agree with the registry's name splitting")
    r.exhaustive = True
    rels = relation_functions(repo)
    chop = repo.cls("grading.chop.Chop")
    fields = [k for k in chop.class_annotations]
    r.require(set(QUANTITIES) <= set(fields), f"Chop fields {fields} no longer contain the five quantities")
    seen_sig = set()
    for fn in rels:
        out, p1, p2 = split_name(repo, fn.name)
        params = fn.params
        problems = []
        if len(params) != 3:
            problems.append(f"takes {len(params)} positional parameters {params}")
        else:
            if params[0] != "length":
                problems.append(f"first parameter is '{params[0]}', the registry passes the length first")
            if (params[1], params[2]) != (p1, p2):
                problems.append(f"parameters ({params[1]}, {params[2]}) but the name announces ({p1}, {p2}): Chop.calculate passes data['{p1}'], data['{p2}'] in that order")
        for q in (out, p1, p2):
            if q not in QUANTITIES:
                problems.append(f"'{q}' is not one of the five chop quantities")
        if len({out, p1, p2}) != 3:
            problems.append("output and inputs are not pairwise distinct")
        if (out, frozenset((p1, p2))) in seen_sig:
            problems.append("a second relation with the same output and inputs")
        seen_sig.add((out, frozenset((p1, p2))))
        if fn.node.args.defaults or fn.node.args.kwonlyargs or fn.node.args.vararg:
            problems.append("defaults / keyword-only / *args parameters")
        r.check(not problems, fn, f"{out} <- ({p1}, {p2})", f"{fn.name}: " + "; ".join(problems), fn.node, key="signature")
    # the caller's argument order, observed on the abstract run of Chop.calculate: each relation is
    # called with (length, value of input_1, value of input_2)
    res, used, this, call_log = run_calculate(repo, {"count": Sym("given:count"), "start_size": Sym("given:start_size")}, want_log=True)
    calc = repo.func("grading.chop.Chop.calculate")
    r.require(len(call_log) >= 1, "Chop.calculate: no relation calls observed on the abstract run")
    bad_calls = []
    for name, args, expected in call_log:
        if [repr(a) for a in args] != expected:
            bad_calls.append(f"{name} called with {[repr(a) for a in args]}, expected {expected}")
    r.check(not bad_calls, calc, f"{len(call_log)} relation calls with (length, input_1, input_2)", "Chop.calculate: " + "; ".join(bad_calls[:3]), calc.node, key="call-order")
    # the registry filter picks exactly these functions
    gcf = repo.func("grading.relations.get_calculation_functions")
    src = ast.unparse(gcf.node)
    r.check("startswith('get_')" in src and "'__' in name" in src, gcf, "registry filter: get_ prefix and '__'", "get_calculation_functions no longer selects functions by 'get_' prefix and '__' in the name", gcf.node, key="filter")
    return r


registry_agreement.rule_id = "C03.REGISTRY-AGREEMENT"


# --------------------------------------------------------------------------------------------
def run_calculate(repo: Repo, given: Dict[str, Any], want_log: bool = False):
    calc = repo.func("grading.chop.Chop.calculate")
    chop_cls = repo.cls("grading.chop.Chop")
    fields = [k for k in chop_cls.class_annotations]
    this = Obj("chop", cls=chop_cls)
    for f in fields:
        this.set(f, None)
    this.set("length_ratio", 1)
    this.set("preserve", "c2c_expansion")
    for k, v in given.items():
        this.set(k, v)
    rels = []
    io = {}
    for fn in relation_functions(repo):
        out, p1, p2 = split_name(repo, fn.name)
        o = Obj(fn.name)
        o.set("output", out)
        o.set("input_1", p1)
        o.set("input_2", p2)
        o.set("inputs", {p1, p2})
        o.set("function", Sym(f"fn:{fn.name}"))
        rels.append(o)
        io[fn.name] = (out, p1, p2)
    used = []
    call_log = []
    values: Dict[str, Any] = {k: v for k, v in given.items()}

    def callee_name(ev, call):
        if isinstance(call.func, ast.Name) and isinstance(ev.env.get(call.func.id), Sym) and repr(ev.env[call.func.id]).startswith("fn:"):
            return repr(ev.env[call.func.id])[3:]
        if isinstance(call.func, ast.Attribute):
            try:
                v = ev.eval(call.func)
            except NotEvaluable:
                return None
            if isinstance(v, Sym) and repr(v).startswith("fn:"):
                return repr(v)[3:]
        return None

    def hook(ev, call: ast.Call, nm):
        if nm in ("dataclasses.asdict", "asdict"):
            return {f: this.get(f) for f in fields}
        if nm == "ChopRelation.get_possible_combinations":
            return list(rels)
        name = callee_name(ev, call)
        if name is not None:
            args = [ev.eval(a) for a in call.args]
            if any(a is None for a in args):
                raise Raised("TypeError")
            out, p1, p2 = io[name]
            call_log.append((name, args, ["length", repr(values.get(p1)), repr(values.get(p2))]))
            used.append(name)
            values[out] = Sym(f"value-of:{name}")
            return values[out]
        if nm == "int" and call.args:
            v = ev.eval(call.args[0])
            return v
        return NO_MATCH

    ev = Evaluator(repo=repo, module=calc.module, call_hook=hook)
    try:
        res = ev.call_funcinfo(calc, [this, Sym("length")])
    except Raised as err:
        res = ("raised", err.exc_name)
    except NotEvaluable as err:
        raise AnalysisError(f"Chop.calculate not evaluable: {err}") from err
    if want_log:
        return res, used, this, call_log
    return res, used, this


def closure(repo: Repo) -> RuleRun:
    r = RuleRun(PROP, "C03.CLOSURE", floor=11, what="all 10 parameter pairs (and count alone) resolve to count and total expansion within the loop bound")
    r.exhaustive = True
    calc = repo.func("grading.chop.Chop.calculate")
    for a, b in itertools.combinations(QUANTITIES, 2):
        res, used, this = run_calculate(repo, {a: Sym(f"given:{a}"), b: Sym(f"given:{b}")})
        ok = isinstance(res, tuple) and len(res) == 2 and res[0] != "raised" and res[0] is not None and res[1] is not None
        r.check(ok, calc, f"({a}, {b}) -> {len(used)} relation(s): {used}", f"Chop.calculate cannot resolve count and total expansion from ({a}, {b}): result {res}, relations used {used}", calc.node, key=f"{a}+{b}")
        if ok:
            results = this.get("results")
            missing = [q for q in QUANTITIES if results.get(q) is None]
            r.check(not missing, calc, "results hold all five quantities", f"after calculate() from ({a}, {b}) chop.results lacks {missing} (copy_preserving needs them)", calc.node, key=f"{a}+{b}:results")
    # a single quantity is not enough (except that __post_init__ supplies c2c_expansion = 1)
    res, used, this = run_calculate(repo, {"start_size": Sym("given:start_size")})
    r.check(isinstance(res, tuple) and res[0] == "raised", calc, "one quantity alone is rejected", f"Chop.calculate resolves a chop from start_size alone: {res}", calc.node, key="underdetermined")
    return r


closure.rule_id = "C03.CLOSURE"


# --------------------------------------------------------------------------------------------
def recip_hook(op, a, b):
    if isinstance(op, ast.Div) and a == 1 and isinstance(b, Sym):
        return ("recip", b)
    if isinstance(op, ast.Div) and a == 1 and isinstance(b, tuple) and b and b[0] == "recip":
        return b[1]
    return NO_MATCH


def invert_complete(repo: Repo) -> RuleRun:
    r = RuleRun(PROP, "C03.INVERT-COMPLETE", floor=8, what="Chop.invert and Grading.inverted")
    inv = repo.func("grading.chop.Chop.invert")
    chop_cls = repo.cls("grading.chop.Chop")
    pres = literal_members(repo, chop_cls.module, chop_cls.class_annotations.get("preserve"))
    r.require(bool(pres), "Chop.preserve Literal not found")
    swap = {"start_size": "end_size", "end_size": "start_size"}
    for p in pres:
        this = Obj("chop", cls=chop_cls)
        vals = {q: Sym(q) for q in QUANTITIES}
        for q, v in vals.items():
            this.set(q, v)
        this.set("length_ratio", Sym("length_ratio"))
        this.set("preserve", p)
        this.set("results", {})
        ev = Evaluator(repo=repo, module=inv.module)
        ev.binop_hook = recip_hook
        try:
            ev.call_funcinfo(inv, [this])
        except (NotEvaluable, Raised) as err:
            raise AnalysisError(f"Chop.invert not evaluable: {err}") from err
        want = {
            "start_size": Sym("end_size"),
            "end_size": Sym("start_size"),
            "c2c_expansion": ("recip", Sym("c2c_expansion")),
            "total_expansion": ("recip", Sym("total_expansion")),
            "count": Sym("count"),
            "length_ratio": Sym("length_ratio"),
        }
        if p == pres[0]:
            for k, v in want.items():
                got = this.get(k)
                r.check(got == v, inv, f"{k} -> {got}", f"Chop.invert leaves {k} = {got!r}; expected {v!r}", inv.node, key=f"invert:{k}")
        got_p = this.get("preserve")
        want_p = swap.get(p, p)
        r.check(
            got_p == want_p,
            inv,
            f"preserve '{p}' -> '{got_p}'",
            f"Chop.invert swaps start_size and end_size but leaves preserve = '{got_p}' (was '{p}'): a chop propagated through a flipped block then "
            f"preserves the cell size at the wrong end further down the chain (expected '{want_p}')",
            inv.node,
            key=f"invert:preserve={p}",
        )
    # None values stay None
    this = Obj("chop", cls=chop_cls)
    for q in QUANTITIES:
        this.set(q, None)
    this.set("start_size", Sym("start_size"))
    this.set("preserve", "c2c_expansion")
    ev = Evaluator(repo=repo, module=inv.module)
    ev.binop_hook = recip_hook
    try:
        ev.call_funcinfo(inv, [this])
        ok = this.get("end_size") == Sym("start_size") and this.get("start_size") is None and this.get("c2c_expansion") is None and this.get("total_expansion") is None
    except (NotEvaluable, Raised):
        ok = False
    r.check(ok, inv, "unset quantities stay unset", "Chop.invert fails or invents values when ratios are not set", inv.node, key="invert:none")

    ginv = repo.func("grading.grading.Grading.inverted")
    gcls = repo.cls("grading.grading.Grading")
    this = Obj("grading", cls=gcls)
    spec = [[Sym("l1"), Sym("c1"), Sym("t1")], [Sym("l2"), Sym("c2"), Sym("t2")], [Sym("l3"), Sym("c3"), Sym("t3")]]
    this.set("specification", spec)
    this.set("length", Sym("length"))

    def hook(ev_, call: ast.Call, nm):
        if nm in ("copy.deepcopy", "copy.copy"):
            src = ev_.eval(call.args[0])
            if isinstance(src, Obj):
                cp = Obj("copy", cls=src._cls)
                cp.set("length", src.get("length"))
                cp.set("specification", [list(x) for x in src.get("specification")] if nm == "copy.deepcopy" else src.get("specification"))
                return cp
        return NO_MATCH

    ev = Evaluator(repo=repo, module=ginv.module, call_hook=hook)
    ev.binop_hook = recip_hook
    try:
        res = ev.call_funcinfo(ginv, [this])
    except (NotEvaluable, Raised) as err:
        raise AnalysisError(f"Grading.inverted not evaluable: {err}") from err
    want = [[Sym("l3"), Sym("c3"), ("recip", Sym("t3"))], [Sym("l2"), Sym("c2"), ("recip", Sym("t2"))], [Sym("l1"), Sym("c1"), ("recip", Sym("t1"))]]
    got = res.get("specification") if isinstance(res, Obj) else res
    r.check(got == want, ginv, "sections reversed, expansion reciprocated, length ratio and count kept", f"Grading.inverted gives {got}; expected {want}", ginv.node, key="grading.inverted")
    r.check(this.get("specification") == [[Sym("l1"), Sym("c1"), Sym("t1")], [Sym("l2"), Sym("c2"), Sym("t2")], [Sym("l3"), Sym("c3"), Sym("t3")]] and res is not this, ginv, "the original grading is untouched", "Grading.inverted modifies the grading it was called on (shared by coincident wires of the neighbour)", ginv.node, key="grading.inverted:pure")
    return r


invert_complete.rule_id = "C03.INVERT-COMPLETE"


# --------------------------------------------------------------------------------------------
def validation_siblings(repo: Repo) -> RuleRun:
    r = RuleRun(PROP, "C03.VALIDATION-SIBLINGS", floor=12, what="every relation validates length first; relations taking count validate it")
    from ..cfg import CFG
    from ..util import node_calls

    for fn in relation_functions(repo):
        g = CFG(fn.node)

        def validates(n, what, arg):
            return any(attr_chain(c.func) == what and c.args and ast.unparse(c.args[0]) == arg for c in node_calls(n))

        ok, path = g.must_pass(g.entry, g.exit_return, lambda n: validates(n, "_validate_length", "length"))
        r.check(ok, fn, "_validate_length(length) on every path to a result", f"{fn.name} can return a result without validating the length (its siblings do): a zero or negative edge length yields a wrong or non-finite grading instead of an error", fn.node, key="length")
        if "count" in fn.params:
            okc, _p = g.must_pass(g.entry, g.exit_return, lambda n: validates(n, "_validate_count", "count"))
            r.check(okc, fn, "_validate_count(count, ...) on every path to a result", f"{fn.name} takes a count but can return without validating it (its siblings do)", fn.node, key="count")
    vl = repo.func("grading.relations._validate_length")
    ok = any(isinstance(n, ast.If) and isinstance(n.test, ast.Compare) and ast.unparse(n.test).replace(" ", "") in ("length<=0", "0>=length", "notlength>0") and any(isinstance(b, ast.Raise) for b in n.body) for n in ast.walk(vl.node))
    r.check(ok, vl, "length <= 0 rejected", "_validate_length no longer rejects length <= 0", vl.node, key="_validate_length")
    return r


validation_siblings.rule_id = "C03.VALIDATION-SIBLINGS"


# --------------------------------------------------------------------------------------------
DIM = {"length": 1, "start_size": 1, "end_size": 1, "count": 0, "c2c_expansion": 0, "total_expansion": 0}
POLY = "poly"  # numeric literal 0: any dimension


class DimError(Exception):
    def __init__(self, msg: str, node: ast.AST):
        super().__init__(msg)
        self.node = node


class DimChecker:
    def __init__(self, fn_node: ast.FunctionDef, env: Dict[str, Any]):
        self.fn = fn_node
        self.env: Dict[str, Any] = dict(env)
        self.funcs: Dict[str, ast.FunctionDef] = {}
        self.returns: List[Tuple[Any, ast.AST]] = []

    def same(self, a, b, node):
        if a == POLY:
            return b
        if b == POLY:
            return a
        if a != b:
            raise DimError(f"'{ast.unparse(node)[:70]}' combines a quantity of dimension L^{a} with one of dimension L^{b}", node)
        return a

    def dim(self, e: ast.expr):
        if isinstance(e, ast.Constant):
            if isinstance(e.value, (int, float)):
                return POLY if e.value == 0 else 0
            return 0
        if isinstance(e, ast.Name):
            if e.id in self.env:
                return self.env[e.id]
            if e.id in ("R_MAX",):
                return 0
            raise DimError(f"unknown name {e.id}", e)
        if isinstance(e, ast.Attribute):
            nm = attr_chain(e) or ""
            if nm.split(".")[-1] in ("TOL", "VSMALL", "VBIG", "pi"):
                return 0
            raise DimError(f"unknown attribute {nm}", e)
        if isinstance(e, ast.UnaryOp):
            return self.dim(e.operand)
        if isinstance(e, ast.BinOp):
            a, b = self.dim(e.left), self.dim(e.right)
            if isinstance(e.op, (ast.Add, ast.Sub)):
                return self.same(a, b, e)
            if isinstance(e.op, ast.Mult):
                return (0 if a == POLY else a) + (0 if b == POLY else b) if POLY not in (a, b) else POLY
            if isinstance(e.op, (ast.Div, ast.FloorDiv)):
                if b == POLY:
                    raise DimError("division by literal 0", e)
                return POLY if a == POLY else a - b
            if isinstance(e.op, ast.Pow):
                if b not in (0, POLY):
                    raise DimError(f"exponent '{ast.unparse(e.right)}' has dimension L^{b}; exponents must be dimensionless", e)
                if a in (0, POLY):
                    return a
                if isinstance(e.right, ast.Constant) and isinstance(e.right.value, int):
                    return a * e.right.value
                raise DimError(f"'{ast.unparse(e.left)}' (dimension L^{a}) raised to a non-constant power", e)
            raise DimError(f"operator {type(e.op).__name__}", e)
        if isinstance(e, ast.Call):
            nm = (attr_chain(e.func) or "").split(".")[-1]
            if nm in ("log", "log10", "exp", "isnan", "isfinite"):
                d = self.dim(e.args[0])
                if d not in (0, POLY):
                    raise DimError(f"{nm}() of '{ast.unparse(e.args[0])[:50]}' which has dimension L^{d}; its argument must be dimensionless", e)
                return 0
            if nm in ("abs", "int", "float", "round", "ceil", "floor", "sqrt"):
                d = self.dim(e.args[0])
                if nm == "sqrt" and d not in (0, POLY):
                    raise DimError("sqrt of a dimensional quantity", e)
                return d
            if nm in ("max", "min"):
                d = POLY
                for a in e.args:
                    d = self.same(d, self.dim(a), e)
                return d
            if nm == "brentq":
                f = e.args[0]
                if isinstance(f, ast.Name) and f.id in self.funcs:
                    self.check_root_function(self.funcs[f.id])
                d = self.same(self.dim(e.args[1]), self.dim(e.args[2]), e)
                return d
            if isinstance(e.func, ast.Name) and e.func.id in self.funcs:
                fdef = self.funcs[e.func.id]
                sub = DimChecker(fdef, dict(self.env))
                for p, a in zip(fdef.args.args, e.args):
                    sub.env[p.arg] = self.dim(a)
                sub.funcs = self.funcs
                sub.run()
                d = POLY
                for rd, rn in sub.returns:
                    d = self.same(d, rd, rn)
                return d
            raise DimError(f"call {nm}()", e)
        if isinstance(e, ast.Compare):
            d = self.dim(e.left)
            for c in e.comparators:
                d = self.same(d, self.dim(c), e)
            return 0
        if isinstance(e, ast.BoolOp):
            for v in e.values:
                self.dim(v)
            return 0
        if isinstance(e, ast.IfExp):
            self.dim(e.test)
            return self.same(self.dim(e.body), self.dim(e.orelse), e)
        raise DimError(f"expression kind {type(e).__name__}", e)

    def check_root_function(self, fdef: ast.FunctionDef):
        """f(x) for brentq: the unknown takes the dimension of the bracket; the residual must be
        dimensionally consistent (checked by evaluating its returns)."""
        sub = DimChecker(fdef, dict(self.env))
        sub.funcs = self.funcs
        for p in fdef.args.args:
            sub.env[p.arg] = 0  # count / ratio unknowns are dimensionless in every relation
        sub.run()
        d = POLY
        for rd, rn in sub.returns:
            d = self.same(d, rd, rn)

    def run(self):
        self.block(self.fn.body)

    def block(self, stmts):
        for st in stmts:
            if isinstance(st, ast.Expr):
                if isinstance(st.value, ast.Call) and (attr_chain(st.value.func) or "").startswith("_validate"):
                    continue
                if isinstance(st.value, ast.Constant):
                    continue
                self.dim(st.value)
            elif isinstance(st, ast.Assign):
                d = self.dim(st.value)
                for t in st.targets:
                    if isinstance(t, ast.Name):
                        self.env[t.id] = d if t.id not in self.env or self.env[t.id] == POLY else self.same(self.env[t.id], d, st)
            elif isinstance(st, ast.If):
                self.dim(st.test)
                self.block(st.body)
                self.block(st.orelse)
            elif isinstance(st, ast.Return):
                if st.value is not None:
                    self.returns.append((self.dim(st.value), st))
            elif isinstance(st, ast.FunctionDef):
                self.funcs[st.name] = st
            elif isinstance(st, ast.Raise):
                continue
            else:
                raise DimError(f"statement kind {type(st).__name__}", st)


def dimensions(repo: Repo) -> RuleRun:
    r = RuleRun(PROP, "C03.DIMENSIONS", floor=12, what="units type check of every relation: returned dimension = dimension of the named output")
    for fn in relation_functions(repo):
        out, p1, p2 = split_name(repo, fn.name)
        if not all(q in DIM for q in (out, p1, p2)) or len(fn.params) != 3:
            r.ok(fn, "not typed here: name/signature problem reported by C03.REGISTRY-AGREEMENT", key="body")
            continue
        env = {fn.params[0]: DIM["length"], fn.params[1]: DIM[p1], fn.params[2]: DIM[p2]}
        chk = DimChecker(fn.node, env)
        try:
            chk.run()
        except DimError as err:
            msg = str(err)
            if msg.startswith(("unknown", "call ", "expression kind", "statement kind", "operator")):
                raise AnalysisError(f"[C03.DIMENSIONS] {fn.name}: cannot type '{msg}'") from err
            r.bad(fn, f"{fn.name}: dimensionally inconsistent: {msg} (length and cell sizes are lengths, count and expansion ratios pure numbers)", err.node, key="body")
            continue
        want = DIM[out]
        wrong = [(d, n) for d, n in chk.returns if d not in (want, POLY)]
        r.require(bool(chk.returns), f"{fn.name} has no return")
        r.check(
            not wrong,
            fn,
            f"returns L^{want} ({out})",
            f"{fn.name} returns a quantity of dimension L^{wrong[0][0] if wrong else '?'} ('{ast.unparse(wrong[0][1])[:70] if wrong else ''}') but '{out}' has dimension L^{want}",
            wrong[0][1] if wrong else fn.node,
            key="return",
        )
    return r


dimensions.rule_id = "C03.DIMENSIONS"

def bracket_siblings(repo: Repo) -> RuleRun:
    """The two root-finding relations for the cell-to-cell ratio (from count and start size / from count
    and end size) search the same bracket; a deviation in one of them is a contradiction (Engler)."""
    r = RuleRun(PROP, "C03.BRACKET-SIBLINGS", floor=2, what="sibling root searches use the same bracket expressions and the same sign test")
    a = repo.func("grading.relations.get_c2c_expansion__count__start_size")
    b = repo.func("grading.relations.get_c2c_expansion__count__end_size")

    def brackets(fn: FuncInfo):
        """{'c_min': {expr texts}, 'c_max': {...}} for the two names handed to brentq as the bracket."""
        calls = [c for c in ast.walk(fn.node) if isinstance(c, ast.Call) and (attr_chain(c.func) or "").endswith("brentq") and len(c.args) >= 3]
        out = {}
        if len(calls) != 1:
            return out
        for role, arg in (("c_min", calls[0].args[1]), ("c_max", calls[0].args[2])):
            if not isinstance(arg, ast.Name):
                continue
            for n in ast.walk(fn.node):
                if isinstance(n, ast.Assign) and isinstance(n.targets[0], ast.Name) and n.targets[0].id == arg.id:
                    out.setdefault(role, set()).add(ast.unparse(n.value))
        return out

    ba, bb = brackets(a), brackets(b)
    r.require(set(ba) == {"c_min", "c_max"} and set(bb) == {"c_min", "c_max"}, "c_min / c_max bracket assignments not found in both sibling relations")
    for name in ("c_min", "c_max"):
        r.check(
            ba[name] == bb[name],
            a,
            f"{name}: {sorted(ba[name])}",
            f"the bracket bound {name} differs between the sibling root searches: {a.name} uses {sorted(ba[name] - bb[name])} where {b.name} uses {sorted(bb[name] - ba[name])} "
            "(both solve the same geometric series for the ratio; with a narrower bracket valid chops are rejected)",
            a.node,
            key=name,
        )
    # both refuse brackets without a sign change before searching
    for fn in (a, b):
        def sign_product_guard(n: ast.If) -> bool:
            """a raising `if` whose test compares a product f(lo) * f(hi) with 0 so that a non-negative product is refused -
            written either way round (p >= 0, 0 <= p, not p < 0, ...)"""
            if not any(isinstance(x, ast.Raise) for x in n.body):
                return False
            t, neg = n.test, False
            while isinstance(t, ast.UnaryOp) and isinstance(t.op, ast.Not):
                t, neg = t.operand, not neg
            if not (isinstance(t, ast.Compare) and len(t.ops) == 1):
                return False
            left, right, op = t.left, t.comparators[0], t.ops[0]
            is_prod = lambda e: isinstance(e, ast.BinOp) and isinstance(e.op, ast.Mult)  # noqa: E731
            is_zero = lambda e: isinstance(e, ast.Constant) and e.value == 0  # noqa: E731
            if is_prod(left) and is_zero(right):
                refuses_nonneg = isinstance(op, (ast.GtE, ast.Gt))
            elif is_zero(left) and is_prod(right):
                refuses_nonneg = isinstance(op, (ast.LtE, ast.Lt))
            else:
                return False
            return refuses_nonneg != neg

        guards = [n for n in ast.walk(fn.node) if isinstance(n, ast.If) and sign_product_guard(n)]
        r.check(len(guards) == 1, fn, "sign change required before the root search", f"{fn.name} no longer rejects a bracket without a sign change (f(lo) * f(hi) >= 0) before brentq", fn.node, key="sign-test")
    return r


bracket_siblings.rule_id = "C03.BRACKET-SIBLINGS"

def unit_ratio_tests(repo: Repo) -> RuleRun:
    """Every relation that switches between the geometric-progression formula and its limit for ratio 1 decides
    'ratio == 1' with the same purely absolute test |ratio - 1| vs util.constants.TOL. A wider or relative window in one
    sibling makes that relation return the uniform count for ratios its inverse relation still treats as graded."""
    from .. import tolerance

    r = RuleRun(PROP, "C03.UNIT-RATIO-TESTS", floor=5, what="every 'ratio == 1' switch in the relations is |ratio - 1| against TOL, absolute; no relative closeness test outside the two length-uniformity tests")
    with_switch = []
    for fn in relation_functions(repo):
        if tolerance.tests_in(repo, fn.module, fn.node):
            with_switch.append(fn.qualname)
    r.require(len(with_switch) >= 5, f"only {len(with_switch)} relation(s) with a recognised unit-ratio switch; 7 were confirmed by reading")
    tolerance.check_functions(r, repo, with_switch, scan_modules=("grading.relations", "grading.chop", "grading.grading"))
    return r


unit_ratio_tests.rule_id = "C03.UNIT-RATIO-TESTS"

def copy_well_posed(repo: Repo) -> RuleRun:
    """A chop re-created for another edge (Chop.copy_preserving) must hand exactly two quantities to the closure - the
    count and the preserved one; a left-over third value makes Chop.calculate return the stale one, so the given
    parameters are not reproduced. Same rule as C04.PRESERVE-CARRIED."""
    from ..report import rebrand
    from . import c04

    return rebrand(c04.preserve_carried(repo), PROP, "C03.COPY-WELL-POSED")


copy_well_posed.rule_id = "C03.COPY-WELL-POSED"

def no_stale_lazy_cache(repo: Repo) -> RuleRun:
    """Chop.calculate(length) resolves for THIS length: nothing computed from the call argument is kept on the chop and served for another length."""
    from ..memo import lazy_cache_rule

    return lazy_cache_rule(repo, PROP, "C03.NO-STALE-CACHE", ('grading.',))


no_stale_lazy_cache.rule_id = "C03.NO-STALE-CACHE"

def reject_not_repair(repo: Repo) -> RuleRun:
    """'... and unrealisable sets are rejected': the grading relations are closed formulas whose logarithms leave their domain
    exactly when the requested set cannot be realised (a contracting progression that never fills the edge gives log of a
    non-positive number -> NaN -> int() raises). Clamping such an argument (max(x, eps), clip, abs) turns the rejection into a
    made-up count. Every log / sqrt argument in grading.relations is followed back through the local definitions: no clamp on the way."""
    r = RuleRun(PROP, "C03.REJECT-NOT-REPAIR", floor=5, what="no logarithm / root argument in grading.relations is clamped into its domain (max, min, clip, abs): out-of-domain means the set is unrealisable and must surface as an error, not as a repaired number")
    mod = repo.module("grading.relations")
    CLAMPS = {"max", "min", "clip", "abs", "fabs", "maximum", "minimum", "nan_to_num", "absolute"}
    n = 0
    for fn in sorted(repo.all_functions(), key=lambda f: f.qualname):
        if fn.module is not mod:
            continue
        defs = {}
        for st in ast.walk(fn.node):
            if isinstance(st, ast.Assign) and len(st.targets) == 1 and isinstance(st.targets[0], ast.Name):
                defs.setdefault(st.targets[0].id, []).append(st.value)

        def clamp_in(e: ast.expr, depth: int = 0):
            for x in ast.walk(e):
                if isinstance(x, ast.Call) and (attr_chain(x.func) or "").split(".")[-1] in CLAMPS:
                    return x
                if isinstance(x, ast.Name) and depth < 3:
                    for d in defs.get(x.id, []):
                        hit = clamp_in(d, depth + 1)
                        if hit is not None:
                            return hit
            return None

        k = 0
        for c in ast.walk(fn.node):
            if isinstance(c, ast.Call) and (attr_chain(c.func) or "").split(".")[-1] in ("log", "log10", "log2", "sqrt", "log1p") and c.args:
                n += 1
                hit = clamp_in(c.args[0])
                key = f"{'log' if 'log' in (attr_chain(c.func) or '') else 'sqrt'}#{k}"
                k += 1
                r.check(
                    hit is None,
                    fn,
                    f"'{ast.unparse(c)[:60]}': argument not clamped",
                    f"{fn.qualname}: the argument of '{ast.unparse(c)[:70]}' is forced into the domain by '{ast.unparse(hit)[:60] if hit is not None else ''}': where the formula would have produced NaN (the requested set "
                    "cannot be realised - e.g. a contracting progression whose cells never add up to the edge length) a number is now returned and a grading far from the requested sizes is written instead of an error",
                    c,
                    key=key,
                )
        # ... nor is the RESULT of a logarithm clamped: a negative cell count (total expansion and cell-to-cell expansion
        # pointing in opposite directions) is an unrealisable request as well
        for c in ast.walk(fn.node):
            if isinstance(c, ast.Call) and (attr_chain(c.func) or "").split(".")[-1] in CLAMPS and c.args:
                inner = [x for a in c.args for x in ast.walk(a) if isinstance(x, ast.Call) and (attr_chain(x.func) or "").split(".")[-1] in ("log", "log10", "log2", "log1p")]
                if inner:
                    r.bad(
                        fn,
                        f"{fn.qualname}: '{ast.unparse(c)[:80]}' forces the result of a logarithm into range: a count that comes out negative or NaN because the requested expansions contradict each other "
                        "is turned into a plausible positive number instead of surfacing as an error",
                        c,
                        key=f"clamped-result:{(attr_chain(c.func) or '').split('.')[-1]}",
                    )
    r.require(n >= 5, f"only {n} log/sqrt calls found in grading.relations")
    # ... nor is the RESULT of a relation forced into a range: a cell-to-cell ratio of 0.5 over 25 cells IS a total expansion of 6e-8;
    # handing out 1e-7 instead writes a grading whose cells do not follow the requested ratio
    for fn in relation_functions(repo):
        defs = {}
        for st in ast.walk(fn.node):
            if isinstance(st, ast.Assign) and len(st.targets) == 1 and isinstance(st.targets[0], ast.Name):
                defs.setdefault(st.targets[0].id, []).append(st.value)
        k = 0
        for st in walk_shallow(fn.node):
            if isinstance(st, ast.Return) and st.value is not None:
                val = st.value
                if isinstance(val, ast.Name) and len(defs.get(val.id, [])) == 1:
                    val = defs[val.id][0]
                top = val
                clamp = isinstance(top, ast.Call) and (attr_chain(top.func) or "").split(".")[-1] in ("min", "max", "clip", "minimum", "maximum") and len(top.args) >= 2
                if clamp and not all(isinstance(a, ast.Constant) for a in top.args):
                    r.bad(fn, f"{fn.qualname}: the result '{ast.unparse(top)[:80]}' is forced into a range: what the formula gives for the requested parameters is replaced by a bound - the written expansion no longer reproduces the given count and ratio", st, key=f"clamped-return#{k}")
                    k += 1
    return r


reject_not_repair.rule_id = "C03.REJECT-NOT-REPAIR"

def no_memo(repo: Repo) -> RuleRun:
    """'the reversed grading is the mirror image of the grading as it is NOW': nothing in the grading package memoises a value computed from state that is changed later (a grading built step by step)."""
    from ..memo import memo_rule

    return memo_rule(repo, PROP, "C03.NO-MEMO", ("grading.",))


no_memo.rule_id = "C03.NO-MEMO"


def solver_tolerance(repo: Repo) -> RuleRun:
    """'the realised sizes equal the requested ones': the closed-form relations are exact, the two that need a root finder
    inherit its tolerance. scipy's defaults (xtol 2e-12, rtol 8.9e-16) are far below anything that matters; the library's
    general tolerance (1e-7) as xtol is not - an absolute error of 1e-7 in a cell-to-cell ratio is amplified by the exponent
    count-1 and is large relative to ratios close to 1."""
    from .. import tolerance

    r = RuleRun(PROP, "C03.SOLVER-TOLERANCE", floor=2, what="root finders of the grading relations run with scipy's default tolerances or tighter (no xtol / rtol looser than 1e-10)")
    mod = repo.module("grading.relations")
    k = 0
    for fn in sorted(repo.all_functions(), key=lambda f: f.qualname):
        if fn.module is not mod:
            continue
        for c in ast.walk(fn.node):
            if isinstance(c, ast.Call) and (attr_chain(c.func) or "").split(".")[-1] in ("brentq", "brenth", "bisect", "newton", "fsolve", "root_scalar", "ridder", "toms748"):
                loose = []
                for kw in c.keywords:
                    if kw.arg in ("xtol", "rtol", "tol", "atol"):
                        v = tolerance.fold(repo, fn.module, kw.value)
                        if v is None or v > 1e-10:
                            loose.append(f"{kw.arg}={ast.unparse(kw.value)}" + (f" (= {v})" if v is not None else ""))
                r.check(not loose, fn, f"'{ast.unparse(c)[:50]}': default tolerances", f"{fn.qualname}: the root finder is called with {', '.join(loose)}: the cell-to-cell ratio it returns is only that accurate, and the error is amplified by the exponent count-1 - a requested size comes back off by 1e-5 .. 1e-4 relative", c, key=f"solver#{k}")
                k += 1
    r.require(k >= 2, f"only {k} root-finder calls found in grading.relations")
    return r


solver_tolerance.rule_id = "C03.SOLVER-TOLERANCE"

def no_rounding(repo: Repo) -> RuleRun:
    """'the realised sizes equal the requested ones' for ratios of any magnitude: nothing in the grading package is rounded to decimals."""
    from ..tolerance import no_rounding_rule

    return no_rounding_rule(repo, PROP, "C03.NO-ROUNDING", ('grading.',))


no_rounding.rule_id = "C03.NO-ROUNDING"

# --------------------------------------------------------------------------------------------
def ratio_rejection(repo: Repo) -> RuleRun:
    """'... the total expansion is finite and positive ... parameter sets that cannot be realised on the edge are rejected with
    an error': a total or cell-to-cell expansion that is zero or negative cannot be realised by a geometric progression. Every
    relation that takes a ratio is run abstractly (float arithmetic of the analyser, numpy's log / isnan and the root finder
    modelled) with that ratio at 0, -0.5, -2, nan and inf and ordinary companions: the run must end in a raise, not in a result
    (nan passes a test written for the invalid range, 'x <= 0', and gives a non-finite grading)."""
    import math

    r = RuleRun(PROP, "C03.RATIO-REJECTION", floor=10, what="every relation taking a total / cell-to-cell expansion rejects a zero or negative ratio (abstract run with the ratio at 0, -0.5, -2, nan, inf ends in a raise); the validators accept 0.5, 1, 2")
    ORDINARY = {"length": 1.0, "count": 10, "start_size": 0.1, "end_size": 0.1, "c2c_expansion": 1.1, "total_expansion": 2.0}

    def hook(ev, call, name):
        nm = (name or "").split(".")[-1]
        if nm in ("log", "log10", "log2") and (name or "").startswith(("np.", "numpy.", "math.")) and len(call.args) == 1:
            x = ev.eval(call.args[0])
            if isinstance(x, (int, float)) and not isinstance(x, bool):
                if x != x or x < 0:
                    return float("nan")
                if x == 0:
                    return float("-inf")
                return {"log": math.log, "log10": math.log10, "log2": math.log2}[nm](x)
            return NO_MATCH
        if nm == "isnan" and len(call.args) == 1:
            x = ev.eval(call.args[0])
            if isinstance(x, (int, float)):
                return x != x
            if isinstance(x, complex):
                return False
            return NO_MATCH
        if nm == "brentq" and len(call.args) >= 3:
            # scipy's contract: f(a) and f(b) must be real and of different signs, else ValueError / TypeError
            f = ev.eval(call.args[0])
            ends = [ev.eval(call.args[1]), ev.eval(call.args[2])]
            if not (isinstance(f, tuple) and f and f[0] == "<func>"):
                return NO_MATCH
            vals = []
            for x in ends:
                if not isinstance(x, (int, float)):
                    raise Raised("TypeError")
                vals.append(ev.run_function(f[1], {f[1].args.args[0].arg: x}))
            if any(isinstance(v, Sym) for v in vals):
                raise Raised("TypeError")  # complex / non-numeric function value
            if any(v != v for v in vals) or vals[0] * vals[1] > 0:
                raise Raised("ValueError")
            return Sym("root")
        if nm == "int" and len(call.args) == 1:
            x = ev.eval(call.args[0])
            if isinstance(x, float) and (x != x or x in (float("inf"), float("-inf"))):
                raise Raised("ValueError")
            if isinstance(x, (int, float)):
                return int(x)
            if isinstance(x, Sym):
                return Sym("number")
            return NO_MATCH
        if nm == "abs" and len(call.args) == 1:
            x = ev.eval(call.args[0])
            if isinstance(x, (int, float, complex)):
                return abs(x)
        if nm == "isinstance":
            return True
        if nm == "float" and len(call.args) == 1:
            x = ev.eval(call.args[0])
            if isinstance(x, str):
                try:
                    return float(x)
                except ValueError:
                    raise Raised("ValueError") from None
            if isinstance(x, (int, float)):
                return float(x)
            return NO_MATCH
        if nm == "eval" and len(call.args) == 1:
            txt = ev.eval(call.args[0])
            if isinstance(txt, str):
                return bool(eval(compile(ast.parse(txt, mode="eval"), "<cond>", "eval"), {"__builtins__": {}}))  # a literal comparison such as '10>=1'
        return NO_MATCH

    import operator

    OPS = {ast.Add: operator.add, ast.Sub: operator.sub, ast.Mult: operator.mul, ast.Div: operator.truediv, ast.Pow: operator.pow}

    def arith(op, a, b):
        num = lambda x: isinstance(x, (int, float, complex)) and not isinstance(x, bool)  # noqa: E731
        if type(op) in OPS and num(a) and num(b):
            try:
                out = OPS[type(op)](a, b)
                return Sym("complex number") if isinstance(out, complex) else out
            except ZeroDivisionError:
                raise Raised("ZeroDivisionError") from None
            except OverflowError:
                raise Raised("OverflowError") from None
        if type(op) in OPS and (isinstance(a, Sym) or isinstance(b, Sym)):
            return Sym("number")
        return NO_MATCH

    def run(fn, args):
        ev = Evaluator(repo=repo, module=fn.module, call_hook=hook, bind={"np.inf": float("inf"), "numpy.inf": float("inf"), "math.inf": float("inf"), "np.nan": float("nan")})
        ev.binop_hook = arith
        ev.float_arith = True
        try:
            out = ev.call_funcinfo(fn, list(args))
        except Raised as err:
            return "raises", err
        except ZeroDivisionError as err:
            return "raises", err
        except (NotEvaluable, OverflowError) as err:
            raise AnalysisError(f"{fn.name}{tuple(args)} not evaluable on the ratio model: {err}") from err
        return "returns", out

    n = 0
    for fn in relation_functions(repo):
        for ratio in ("total_expansion", "c2c_expansion"):
            if ratio not in fn.params:
                continue
            for bad in (0.0, -0.5, -2.0, float("nan"), float("inf")):
                args = [bad if p == ratio else ORDINARY[p] for p in fn.params]
                kind, out = run(fn, args)
                n += 1
                r.check(
                    kind == "raises",
                    fn,
                    f"{ratio} = {bad:g} rejected",
                    f"{fn.name}({', '.join(f'{p}={a:g}' for p, a in zip(fn.params, args))}) returns {out!r} instead of raising: a {ratio.replace('_', ' ')} of {bad:g} cannot be realised by a geometric "
                    f"progression, yet Chop(...).calculate() hands out a grading with a non-positive / complex / non-finite expansion instead of an error",
                    fn.node,
                    key=f"{ratio}:{bad:g}",
                )
    # the same for the two cell sizes: a first / last cell of zero or negative size cannot be realised; each of the two is refused by
    # every relation that takes it (the relations for the two ends are siblings: what one validates, the other validates)
    for fn in relation_functions(repo):
        for size in ("start_size", "end_size"):
            if size not in fn.params:
                continue
            for bad in (0.0, -0.1, -2.0):
                args = [bad if p == size else ORDINARY[p] for p in fn.params]
                try:
                    kind, out = run(fn, args)
                except AnalysisError:
                    if bad == 0.0:
                        continue  # a size of exactly zero under a root finder: division by zero inside the residual - a raise in the real run
                    raise
                n += 1
                r.check(
                    kind == "raises",
                    fn,
                    f"{size} = {bad:g} rejected",
                    f"{fn.name}({', '.join(f'{p}={a:g}' for p, a in zip(fn.params, args))}) returns {out!r} instead of raising: a {size.replace('_', ' ')} of {bad:g} cannot be realised, "
                    "yet Chop(...).calculate() hands out a grading - Chop(end_size=-2).calculate(1) gives (1, 1)",
                    fn.node,
                    key=f"{size}:{bad:g}",
                )
    # a total and a cell-to-cell expansion that point in opposite directions (cells growing along the edge, the last one smaller than
    # the first) cannot be realised either: the logarithm quotient is negative, which truncation towards zero would turn into count 1
    both = [f_ for f_ in relation_functions(repo) if {"total_expansion", "c2c_expansion"} <= set(f_.params)]
    for fn in both:
        for te, cc in ((0.95, 1.1), (0.5, 1.1), (1.2, 0.9), (3.0, 0.5)):
            args = [te if p == "total_expansion" else cc if p == "c2c_expansion" else ORDINARY[p] for p in fn.params]
            kind, out = run(fn, args)
            n += 1
            r.check(
                kind == "raises",
                fn,
                f"total {te:g} against cell-to-cell {cc:g} rejected",
                f"{fn.name}({', '.join(f'{p}={a:g}' for p, a in zip(fn.params, args))}) returns {out!r}: a total expansion of {te:g} with a cell-to-cell expansion of {cc:g} contradict each other "
                "(no number of cells realises both), yet a count is handed out - truncation towards zero turns the negative quotient of the logarithms into one cell",
                fn.node,
                key=f"contradiction:{te:g}:{cc:g}",
            )
    for vname in ("_validate_total_expansion", "_validate_c2c_expansion"):
        vf = repo.func(f"grading.relations.{vname}")
        for good in (0.5, 1.0, 2.0):
            kind, out = run(vf, [good])
            r.check(kind == "returns", vf, f"{good:g} accepted", f"{vname}({good:g}) raises: an ordinary ratio is refused", vf.node, key=f"accept:{good:g}")
    r.require(n >= 45, f"only {n} ratio scenarios found in grading.relations")
    return r


ratio_rejection.rule_id = "C03.RATIO-REJECTION"


# --------------------------------------------------------------------------------------------
def count_rounds_up(repo: Repo) -> RuleRun:
    """'... to within the rounding of count to the next whole cell (never coarser than requested ...)': a relation that computes
    a cell count from sizes / ratios obtains a real number of cells and must round it UP (int(x) + 1 or a ceiling); a bare
    truncation, floor or round-to-nearest leaves fewer cells than requested, i.e. cells larger than the requested size, for
    every non-integer quotient."""
    r = RuleRun(PROP, "C03.COUNT-ROUNDS-UP", floor=5, what="every result of a get_count__* relation is a real cell number rounded up (int(x) + 1 or ceil), never truncated / floored / rounded to nearest")

    def classify(e: ast.expr, defs: Dict[str, List[ast.expr]], depth: int = 0) -> Tuple[str, ast.expr]:
        nm = (attr_chain(e.func) or "").split(".")[-1] if isinstance(e, ast.Call) else ""
        if isinstance(e, ast.BinOp) and isinstance(e.op, ast.Add):
            for a, b in ((e.left, e.right), (e.right, e.left)):
                if isinstance(b, ast.Constant) and b.value == 1 and isinstance(a, ast.Call) and (attr_chain(a.func) or "").split(".")[-1] in ("int", "floor", "trunc"):
                    inner = a.args[0] if a.args else None
                    if isinstance(inner, ast.Name) and depth < 3 and len(defs.get(inner.id, [])) == 1:
                        inner = defs[inner.id][0]
                    if isinstance(inner, ast.Call) and (attr_chain(inner.func) or "").split(".")[-1] in ("round", "rint", "around", "ceil"):
                        return "over", e  # rounded (to nearest / up) first and then incremented: one cell too many
                    return "up", e
        if nm == "ceil":
            return "up", e
        if nm == "int" and e.args:
            inner = e.args[0]
            if isinstance(inner, ast.Call) and (attr_chain(inner.func) or "").split(".")[-1] == "ceil":
                return "up", e
            if isinstance(inner, ast.BinOp) and isinstance(inner.op, ast.Add) and any(isinstance(x, ast.Constant) and x.value == 1 for x in (inner.left, inner.right)):
                return "up", e  # int(x + 1) == int(x) + 1 for x >= 0
            return "down", e
        if nm in ("floor", "trunc", "round", "rint"):
            return "down", e
        if isinstance(e, ast.Name) and depth < 3 and len(defs.get(e.id, [])) == 1:
            return classify(defs[e.id][0], defs, depth + 1)
        if isinstance(e, ast.IfExp):
            a, b = classify(e.body, defs, depth), classify(e.orelse, defs, depth)
            return (a if a[0] != "up" else b)
        return "unknown", e

    n = 0
    for fn in relation_functions(repo):
        if not fn.name.startswith("get_count__"):
            continue
        defs: Dict[str, List[ast.expr]] = {}
        for st in walk_shallow(fn.node):
            if isinstance(st, ast.Assign) and len(st.targets) == 1 and isinstance(st.targets[0], ast.Name):
                defs.setdefault(st.targets[0].id, []).append(st.value)
        k = 0
        for st in walk_shallow(fn.node):
            if not (isinstance(st, ast.Return) and st.value is not None):
                continue
            value = st.value
            if isinstance(value, ast.Name):
                # 'tmp = <expr>; return tmp': the assignment just before the return, in the same block
                body = next((b for n_ in ast.walk(fn.node) for b in (getattr(n_, "body", None), getattr(n_, "orelse", None)) if isinstance(b, list) and st in b), None)
                if body is not None and body.index(st) > 0:
                    prev = body[body.index(st) - 1]
                    if isinstance(prev, ast.Assign) and len(prev.targets) == 1 and isinstance(prev.targets[0], ast.Name) and prev.targets[0].id == value.id:
                        value = prev.value
            kind, at = classify(value, defs)
            if kind == "unknown":
                raise AnalysisError(f"{fn.name}: the result '{ast.unparse(st.value)[:60]}' is not a recognised rounding of a cell number (int(x) + 1, ceil(x), int(x), floor, round)")
            n += 1
            r.check(
                kind == "up",
                fn,
                f"result #{k} '{ast.unparse(st.value)[:50]}' rounds up",
                (
                    f"{fn.name} returns '{ast.unparse(at)[:70]}': the real number of cells is rounded first and then incremented (its sibling results are int(x) + 1): whenever the fractional part is 0.5 or more "
                    "the chop gets one cell more than the next whole cell, and the reversed chop (which lands on the other side of .5) a different count and a non-reciprocal expansion"
                    if kind == "over"
                    else f"{fn.name} returns '{ast.unparse(at)[:70]}': the real number of cells is truncated / rounded down instead of up (its sibling results are int(x) + 1), so for every non-integer quotient "
                    "one cell fewer than needed is made and the cells are larger than the requested size - e.g. Chop(start_size=0.3, end_size=0.3).calculate(1) gives 3 cells of 0.333"
                ),
                st,
                key=f"result#{k}",
            )
            k += 1
    r.require(n >= 5, f"only {n} count results found in grading.relations")
    return r


count_rounds_up.rule_id = "C03.COUNT-ROUNDS-UP"


# --------------------------------------------------------------------------------------------
def exact_power(repo: Repo) -> RuleRun:
    """'... including the neighbourhood ... of exact-integer solutions': a relation that obtains the number of cells as the quotient
    of the logarithms of two of its own PARAMETERS (count - 1 = log T / log c) is asked, in ordinary use, for exact powers
    (T = c ** k): the floating-point quotient then lands a rounding error below the whole number about one time in three
    (log(1.05**2)/log(1.05) = 1.9999999999999998), and a bare truncation loses a cell. The truncated quantity must carry a small
    positive allowance (x + tol) or be rounded at a fixed number of digits first."""
    from ..tolerance import fold

    r = RuleRun(PROP, "C03.EXACT-POWER", floor=1, what="a cell number obtained as log(parameter) / log(parameter) is truncated only with a small positive allowance: exact powers keep their cell")
    n = 0

    def is_log_of_param(e: ast.expr, params) -> bool:
        return isinstance(e, ast.Call) and (attr_chain(e.func) or "").split(".")[-1] in ("log", "log10", "log2") and len(e.args) == 1 and isinstance(e.args[0], ast.Name) and e.args[0].id in params

    for fn in relation_functions(repo):
        if not fn.name.startswith("get_count__"):
            continue
        defs: Dict[str, List[ast.expr]] = {}
        for st in walk_shallow(fn.node):
            if isinstance(st, ast.Assign) and len(st.targets) == 1 and isinstance(st.targets[0], ast.Name):
                defs.setdefault(st.targets[0].id, []).append(st.value)

        def quotient(e: ast.expr, depth: int = 0) -> bool:
            if isinstance(e, ast.Name) and depth < 3 and defs.get(e.id):
                return all(quotient(v, depth + 1) for v in defs[e.id])
            return isinstance(e, ast.BinOp) and isinstance(e.op, ast.Div) and is_log_of_param(e.left, fn.params) and is_log_of_param(e.right, fn.params)

        k = 0
        for node in ast.walk(fn.node):
            if not (isinstance(node, ast.Call) and (attr_chain(node.func) or "").split(".")[-1] in ("int", "floor", "trunc") and node.args):
                continue
            arg = node.args[0]
            allowance = None
            core = arg
            if isinstance(arg, ast.BinOp) and isinstance(arg.op, ast.Add):
                for a, b in ((arg.left, arg.right), (arg.right, arg.left)):
                    v = fold(repo, fn.module, b)
                    if v is not None:
                        core, allowance = a, v
                        break
            elif isinstance(arg, ast.BinOp) and isinstance(arg.op, ast.Sub) and fold(repo, fn.module, arg.right) is not None:
                core, allowance = arg.left, -fold(repo, fn.module, arg.right)
            rounded = isinstance(arg, ast.Call) and (attr_chain(arg.func) or "").split(".")[-1] in ("round", "around") and len(arg.args) >= 2
            if rounded:
                core = arg.args[0]
            if not quotient(core):
                continue
            n += 1
            r.check(
                rounded or (allowance is not None and 0 < allowance <= 1e-3),
                fn,
                f"'{ast.unparse(node)[:50]}' truncates a quotient of logarithms of parameters with an allowance",
                f"{fn.name}: '{ast.unparse(node)[:70]}' truncates log(parameter) / log(parameter) as it comes: for an exact power - Chop(total_expansion=1.05**2, c2c_expansion=1.05) - the quotient is "
                "1.9999999999999998 and the chop gets 2 cells instead of 3 (104 of 342 pairs c ** (n - 1), n = 2..39, lose a cell): blockMesh then realises the total expansion with the wrong "
                "cell-to-cell ratio, although the two given values have an exact solution",
                node,
                key=f"truncation#{k}",
            )
            k += 1
    r.require(n >= 1, "no count relation truncates a quotient of logarithms of its parameters any more (get_count__total_expansion__c2c_expansion re-written?)")
    return r


exact_power.rule_id = "C03.EXACT-POWER"


# --------------------------------------------------------------------------------------------
def count_integral(repo: Repo) -> RuleRun:
    """'the computed cell count is an integer >= 1': whatever number the user hands in as count (a quotient length / size is a
    float), Chop stores the whole number of cells that is written - the relations then solve for exactly that count. Abstract
    run of Chop.__post_init__."""
    r = RuleRun(PROP, "C03.COUNT-INTEGRAL", floor=5, what="Chop.__post_init__ stores count as a whole number >= 1 (float counts truncated, non-positive ones raised to 1)")
    cls = repo.cls("grading.chop.Chop")
    fn = repo.find_method(cls, "__post_init__")
    r.require(fn is not None, "Chop.__post_init__ vanished")
    for given, want in ((7.9, 7), (3, 3), (1.0, 1), (0, 1), (-5, 1), (12.0, 12)):
        chop = Obj("chop", cls=cls)
        for fld in ("start_size", "end_size", "c2c_expansion", "total_expansion"):
            chop.set(fld, None)
        chop.set("count", given)
        chop.set("length_ratio", 1.0)
        chop.set("preserve", "c2c_expansion")
        ev = Evaluator(repo=repo, module=fn.module)
        ev.float_arith = True

        def hook(ev_, call, name):
            nm = (name or "").split(".")[-1]
            if nm == "int" and len(call.args) == 1:
                v = ev_.eval(call.args[0])
                if isinstance(v, (int, float)) and not isinstance(v, bool):
                    return int(v)
            if nm in ("max", "min") and len(call.args) == 2:
                a, b = ev_.eval(call.args[0]), ev_.eval(call.args[1])
                if all(isinstance(x, (int, float)) and not isinstance(x, bool) for x in (a, b)):
                    return max(a, b) if nm == "max" else min(a, b)
            if nm == "dict":
                return {}
            return NO_MATCH

        ev.call_hook = hook
        try:
            ev.call_funcinfo(fn, [chop])
        except (Raised, NotEvaluable) as err:
            raise AnalysisError(f"Chop.__post_init__ not evaluable with count={given!r}: {err}") from err
        got = chop.get("count")
        r.check(
            isinstance(got, int) and not isinstance(got, bool) and got == want,
            fn,
            f"count={given!r} stored as {want}",
            f"Chop(count={given!r}) stores count = {got!r} ({type(got).__name__}); expected the whole number {want}: a fractional count is used as it is inside the relations (sizes and ratios are solved for "
            f"{got!r} cells) while a whole number of cells is written - the written count and expansion do not reproduce the requested size",
            fn.node,
            key=f"count={given!r}",
        )
    return r


count_integral.rule_id = "C03.COUNT-INTEGRAL"


# --------------------------------------------------------------------------------------------
def shortcut_exact(repo: Repo) -> RuleRun:
    """'... they reproduce the parameters that were given': a relation that finds its result as the root of a function it defines
    itself (fexp) may return early with a closed form for special inputs - that closed form must be a root of the same function.
    The relations are run over exact rational inputs (count 2, 3, 4; sizes 1/5, 1/3, 2/5 of the length); whenever they return
    without calling the root finder and the value is not the uniform ratio 1, the relation's own residual function is evaluated
    exactly at that value and must vanish."""
    from fractions import Fraction

    from .. import exact

    r = RuleRun(PROP, "C03.SHORTCUT-EXACT", floor=12, what="every closed-form early return of a root-finding relation is an exact root of the relation's own residual function (exact rational evaluation)")
    n = 0
    for fn in relation_functions(repo):
        inner = [st for st in fn.node.body if isinstance(st, ast.FunctionDef)]
        if not fn.name.startswith("get_c2c_expansion__") or len(inner) != 1 or len(inner[0].args.args) != 1:
            continue
        resid = inner[0]
        rets = [st for st in resid.body if isinstance(st, ast.Return)]
        r.require(len(rets) == 1 and rets[0].value is not None, f"{fn.name}: the residual function {resid.name} is not a single return")
        for count in (2, 3, 4):
            for size in (Fraction(1, 5), Fraction(1, 3), Fraction(2, 5)):
                args = {"length": exact.c(1), "count": count}
                size_name = [p for p in fn.params if p.endswith("_size")]
                if len(size_name) != 1:
                    continue
                args[size_name[0]] = exact.c(size)
                reached = {"root": False}

                def hook(ev, call, name, reached=reached):
                    nm = (name or "").split(".")[-1]
                    if nm == "brentq":
                        reached["root"] = True
                        return Sym("root")
                    if nm == "eval" and len(call.args) == 1:
                        txt = ev.eval(call.args[0])
                        if isinstance(txt, str):
                            return bool(eval(compile(ast.parse(txt, mode="eval"), "<cond>", "eval"), {"__builtins__": {}}))
                    if nm == "isinstance":
                        return True
                    if nm == "float" and len(call.args) == 1:
                        v = ev.eval(call.args[0])
                        if isinstance(v, str):
                            return float(v)
                    return NO_MATCH

                ev = exact.evaluator(repo, fn.module, extra=hook)
                inner_binop = ev.binop_hook

                def binop_(op, a, b, reached=reached, inner_binop=inner_binop):
                    try:
                        return inner_binop(op, a, b)
                    except NotEvaluable:
                        if isinstance(op, ast.Pow):
                            reached["root"] = True  # an irrational bracket end: the relation is on its root-finding path
                        raise

                ev.binop_hook = binop_
                try:
                    got = ev.call_funcinfo(fn, [args[p] for p in fn.params])
                except Raised:
                    continue  # rejected input
                except NotEvaluable as err:
                    if reached["root"]:
                        n += 1
                        r.ok(fn, f"count={count}, {size_name[0]}={size}: solved by the root finder", key=f"{count}:{size}")
                        continue
                    raise AnalysisError(f"{fn.name}(count={count}, {size_name[0]}={size}) not evaluable over exact rationals: {err}") from err
                if reached["root"] or isinstance(got, Sym):
                    n += 1
                    r.ok(fn, f"count={count}, {size_name[0]}={size}: solved by the root finder", key=f"{count}:{size}")
                    continue
                val = exact.value(got) if isinstance(got, exact.Rat) else got
                if val == 1:
                    n += 1
                    r.ok(fn, f"count={count}, {size_name[0]}={size}: uniform", key=f"{count}:{size}")
                    continue
                ev2 = exact.evaluator(repo, fn.module, extra=hook)
                ev2.env = dict(args)
                ev2.env[resid.args.args[0].arg] = got if isinstance(got, exact.Rat) else exact.c(Fraction(got))
                ev2.mod_stack = [fn.module]
                try:
                    res = ev2.eval(rets[0].value)
                except (Raised, NotEvaluable) as err:
                    raise AnalysisError(f"{fn.name}: residual {resid.name} not evaluable at the closed-form result {val}: {err}") from err
                n += 1
                resv = exact.value(res) if isinstance(res, exact.Rat) else res
                r.check(
                    resv == 0,
                    fn,
                    f"count={count}, {size_name[0]}={size}: closed form {val} is a root of {resid.name}",
                    f"{fn.name}(length=1, count={count}, {size_name[0]}={size}) returns the closed form {val} without root finding, but the relation's own residual {resid.name}({val}) = {resv} is not 0: "
                    f"with that ratio {count} cells do not fill the edge with the requested {size_name[0].replace('_', ' ')} (for the last-cell size the two-cell ratio is the reciprocal of the first-cell one)",
                    fn.node,
                    key=f"{count}:{size}",
                )
    r.require(n >= 12, f"only {n} exact scenarios of root-finding relations examined")
    return r


shortcut_exact.rule_id = "C03.SHORTCUT-EXACT"


# --------------------------------------------------------------------------------------------
def single_cell(repo: Repo) -> RuleRun:
    """'... a given first/last cell size exactly when count is given': one cell on an edge is as long as the edge - first and last
    cell size both equal the length, the ratio is 1. The two relations that solve the ratio from a count and a size are siblings:
    both accept (count 1, size = length) and both return 1 (exact rational evaluation; lengths 1, 3/7 and 25)."""
    from fractions import Fraction

    from .. import exact

    r = RuleRun(PROP, "C03.SINGLE-CELL", floor=6, what="get_c2c_expansion__count__start_size / __end_size accept a single cell as long as the edge and return the ratio 1")
    n = 0
    for fn in relation_functions(repo):
        if not (fn.name.startswith("get_c2c_expansion__count__") and fn.name.endswith("_size")):
            continue
        for length in (Fraction(1), Fraction(3, 7), Fraction(25)):

            def hook(ev, call, name):
                nm = (name or "").split(".")[-1]
                if nm == "brentq":
                    return Sym("root")
                if nm == "eval" and len(call.args) == 1:
                    txt = ev.eval(call.args[0])
                    if isinstance(txt, str):
                        return bool(eval(compile(ast.parse(txt, mode="eval"), "<cond>", "eval"), {"__builtins__": {}}))
                if nm == "isinstance":
                    return True
                if nm == "float" and len(call.args) == 1 and isinstance(ev.eval(call.args[0]), str):
                    return float(ev.eval(call.args[0]))
                return NO_MATCH

            ev = exact.evaluator(repo, fn.module, extra=hook)
            n += 1
            try:
                got = ev.call_funcinfo(fn, [exact.c(length), 1, exact.c(length)])
            except Raised as err:
                r.bad(
                    fn,
                    f"{fn.name}(length={length}, count=1, size={length}) raises {err.exc_name}: a single cell as long as the edge is the one realisable request with count 1, and the sibling relation for the "
                    "other end accepts it - Chop(count=1, preserve='start_size') cannot be written, and with preserve='end_size' it depends on the corner numbering of the neighbour",
                    fn.node,
                    key=f"single:{length}",
                )
                continue
            except NotEvaluable as err:
                raise AnalysisError(f"{fn.name}(length={length}, count=1, size={length}) not evaluable over exact rationals: {err}") from err
            val = exact.value(got) if isinstance(got, exact.Rat) else got
            r.check(val == 1, fn, f"length {length}: one cell -> ratio 1", f"{fn.name}(length={length}, count=1, size={length}) returns {val!r}; one cell has ratio 1", fn.node, key=f"single:{length}")
    # 'reversing a chop yields the same count and the reciprocal expansion': one cell with a size that is NOT the length is treated alike
    # by the two siblings - (count 1, start size s) reversed is (count 1, end size s); both return 1 or both raise
    def outcome(fn, length, size):
        def hook2(ev, call, name):
            nm = (name or "").split(".")[-1]
            if nm == "brentq":
                return Sym("root")
            if nm == "eval" and len(call.args) == 1 and isinstance(ev.eval(call.args[0]), str):
                return bool(eval(compile(ast.parse(ev.eval(call.args[0]), mode="eval"), "<cond>", "eval"), {"__builtins__": {}}))
            if nm == "isinstance":
                return True
            if nm == "float" and len(call.args) == 1 and isinstance(ev.eval(call.args[0]), str):
                return float(ev.eval(call.args[0]))
            return NO_MATCH

        ev = exact.evaluator(repo, fn.module, extra=hook2)
        try:
            got = ev.call_funcinfo(fn, [exact.c(length), 1, exact.c(size)])
        except Raised as err:
            return f"raises {err.exc_name}"
        except ZeroDivisionError:
            return "raises ZeroDivisionError"
        except NotEvaluable as err:
            raise AnalysisError(f"{fn.name}(length={length}, count=1, size={size}) not evaluable: {err}") from err
        return f"returns {exact.value(got) if isinstance(got, exact.Rat) else got}"

    pair = {fn.name.rsplit("__", 1)[-1]: fn for fn in relation_functions(repo) if fn.name.startswith("get_c2c_expansion__count__") and fn.name.endswith("_size")}
    if set(pair) == {"start_size", "end_size"}:
        for length, size in ((Fraction(1), Fraction(1, 2)), (Fraction(25), Fraction(10)), (Fraction(1), Fraction(3, 2))):
            a, b = outcome(pair["start_size"], length, size), outcome(pair["end_size"], length, size)
            n += 1
            kind = lambda o: "raises" if o.startswith("raises") else o  # noqa: E731
            r.check(
                kind(a) == kind(b),
                pair["end_size"],
                f"count 1, size {size} on length {length}: both siblings '{kind(a)}'",
                f"get_c2c_expansion__count__start_size(length={length}, count=1, start_size={size}) {a} but get_c2c_expansion__count__end_size(length={length}, count=1, end_size={size}) {b}: "
                "Chop(count=1, start_size=s) reversed by Chop.invert() is Chop(count=1, end_size=s) - the same cell seen from the other end - and must give the same count and the reciprocal ratio, "
                "not a result on one side and an error on the other",
                pair["end_size"].node,
                key=f"reversal:{length}:{size}",
            )
    r.require(n >= 9, f"only {n} single-cell scenarios found")
    return r


single_cell.rule_id = "C03.SINGLE-CELL"


# --------------------------------------------------------------------------------------------
def calculate_pure(repo: Repo) -> RuleRun:
    """'Reversing a chop yields the same count and the reciprocal expansion': Chop.calculate(length) is a function of the length and
    of the chop's own parameters as they are NOW (invert() changes them). It therefore reads nothing it wrote itself in an earlier
    call: every attribute of self read in calculate is a declared parameter of the chop, and `results` is rebuilt before it is
    read. A remembered length / result ('each wire asks for the same numbers') answers the reversed chop with the old numbers."""
    r = RuleRun(PROP, "C03.CALCULATE-PURE", floor=2, what="Chop.calculate reads only the chop's declared parameters (and the results dict it has just rebuilt): nothing remembered from an earlier call")
    cls = repo.cls("grading.chop.Chop")
    fn = repo.find_method(cls, "calculate")
    r.require(fn is not None, "Chop.calculate vanished")
    fields = set(cls.class_annotations)
    me = fn.params[0]
    first_results_store = min((n.lineno for n in ast.walk(fn.node) if isinstance(n, ast.Assign) and any(isinstance(t, ast.Attribute) and t.attr == "results" and attr_chain(t.value) == me for t in n.targets)), default=None)
    r.require(first_results_store is not None, "Chop.calculate no longer rebuilds self.results")
    n = 0
    for node in ast.walk(fn.node):
        if isinstance(node, ast.Attribute) and isinstance(node.ctx, ast.Load) and attr_chain(node.value) == me:
            if node.attr in ("results",):
                n += 1
                r.check(node.lineno >= first_results_store, fn, f"results read at line {node.lineno} after being rebuilt", f"Chop.calculate reads self.results (line {node.lineno}) before rebuilding it (line {first_results_store}): the numbers of an earlier call - for another length, or from before invert() - are handed out again", node, key=f"results@{n}")
                continue
            if node.attr in fields or isinstance(parent(node), ast.Call) and parent(node).func is node:
                continue
            n += 1
            r.bad(
                fn,
                f"Chop.calculate reads self.{node.attr}, which is not a parameter of the chop but something an earlier call left behind: calculate(L); invert(); calculate(L) answers the reversed chop with the "
                "numbers of the original one (same total expansion instead of the reciprocal)",
                node,
                key=f"reads:{node.attr}",
            )
    r.ok(fn, f"{len(fields)} declared parameters; attribute reads checked", key="scan")
    r.require(len(fields) >= 5, "Chop no longer declares its five quantities")
    return r


calculate_pure.rule_id = "C03.CALCULATE-PURE"


# --------------------------------------------------------------------------------------------
def section_ratio(repo: Repo) -> RuleRun:
    """'parameter sets that cannot be realised on the edge are rejected': a section of a multi-grading takes a fraction of the
    edge in (0, 1]; it is resolved on length * ratio, so a ratio above 1 resolves the chop on a piece longer than the edge.
    Abstract run of Grading.add_chop on both sides of both bounds."""
    r = RuleRun(PROP, "C03.SECTION-RATIO", floor=5, what="Grading.add_chop accepts a length ratio in (0, 1] only")
    fn = repo.func("grading.grading.Grading.add_chop")
    gcls = repo.cls("grading.grading.Grading")
    for ratio, bad in ((0.0, True), (-0.5, True), (1.5, True), (2.0, True), (1.0, False), (0.3, False), (1e-3, False)):
        g = Obj("grading", cls=gcls)
        g.set("length", 2.0)
        g.set("specification", [])
        chop = Obj("chop", length_ratio=ratio, count=5)

        def hook(ev, call, name):
            if isinstance(call.func, ast.Attribute) and call.func.attr == "calculate":
                return (5, Sym("expansion"))
            return NO_MATCH

        ev = Evaluator(repo=repo, module=fn.module, call_hook=hook)
        ev.float_arith = True
        try:
            ev.call_funcinfo(fn, [g, chop])
            got = None
        except Raised as err:
            got = err.exc_name
        except NotEvaluable as err:
            raise AnalysisError(f"Grading.add_chop not evaluable with length_ratio={ratio}: {err}") from err
        r.check((got is not None) == bad, fn, f"length_ratio {ratio:g}: {'rejected' if got else 'accepted'}", f"Grading.add_chop with length_ratio={ratio:g} is {'rejected with ' + got if got else 'accepted'}; a section takes a fraction in (0, 1] of its edge - with a larger one the chop is resolved on a piece longer than the edge and the requested first / last cell size is not realised", fn.node, key=f"ratio:{ratio:g}")
    return r


section_ratio.rule_id = "C03.SECTION-RATIO"



def none_tests(repo: Repo) -> RuleRun:
    """'parameter sets that cannot be realised on the edge are rejected': a parameter of exactly 0 is a parameter - it reaches the validators. Whether a chop parameter was given is decided with `is None` (or by counting None), never by its truth value."""
    from ..optional import none_tests_rule

    return none_tests_rule(repo, PROP, "C03.NONE-TESTS", ("grading.",), floor=1)


none_tests.rule_id = "C03.NONE-TESTS"



def reject_atomic(repo: Repo) -> RuleRun:
    """'parameter sets that cannot be realised on the edge are rejected with an error rather than producing a wrong ... grading': a
    rejected chop leaves the grading as it was. Abstract run of Grading.add_chop with a chop whose calculate() raises, and with a
    length ratio out of range: the error reaches the caller and `specification` is still empty (a placeholder division appended
    before the numbers are known stays behind as a division with 0 cells, `is_defined` turns true and later chops land behind it)."""
    from ..peval import NO_MATCH, Evaluator, NotEvaluable, Obj, Raised, Sym

    r = RuleRun(PROP, "C03.REJECT-ATOMIC", floor=2, what="Grading.add_chop leaves `specification` untouched when the chop is rejected (calculate() raises, or the length ratio is out of range)")
    fn = repo.func("grading.grading.Grading.add_chop")
    for label, ratio, calc_raises in (("calculate() raises", 1, True), ("length ratio 0", 0, False), ("length ratio 1.5", 1.5, False)):
        g = Obj("grading", cls=repo.cls("grading.grading.Grading"))
        g.set("length", 1.0)
        g.set("specification", [])
        chop = Obj("chop", length_ratio=ratio)

        def hook(ev, call: ast.Call, name, calc_raises=calc_raises):
            if isinstance(call.func, ast.Attribute) and call.func.attr == "calculate":
                if calc_raises:
                    raise Raised("ValueError")
                return (Sym("count"), Sym("expansion"))
            return NO_MATCH

        ev = Evaluator(repo=repo, module=fn.module, call_hook=hook)
        ev.float_arith = True
        got = None
        try:
            ev.call_funcinfo(fn, [g, chop])
        except Raised as err:
            got = err.exc_name
        except NotEvaluable as err:
            raise AnalysisError(f"Grading.add_chop not evaluable ({label}): {err}") from err
        left = g.get("specification")
        r.check(
            got is not None and left == [],
            fn,
            f"{label}: raises and leaves no division behind",
            f"Grading.add_chop ({label}) " + ("does not raise" if got is None else f"raises {got} but leaves {len(left)} division(s) {left!r} in the specification: a caller that catches the error keeps a grading with a 0-cell division - is_defined is true, the count is wrong and later chops are written behind it"),
            fn.node,
            key=f"rejected:{label}",
        )
    return r


reject_atomic.rule_id = "C03.REJECT-ATOMIC"


RULES = [registry_agreement, closure, invert_complete, validation_siblings, dimensions, bracket_siblings, unit_ratio_tests, copy_well_posed, no_stale_lazy_cache, reject_not_repair, no_memo, solver_tolerance, no_rounding, ratio_rejection, count_rounds_up, count_integral, shortcut_exact, single_cell, calculate_pure, section_ratio, exact_power, none_tests, reject_atomic]

"""C09 - transforming or copying an entity equals transforming its output geometry."""

from __future__ import annotations

import ast
from typing import Any, Dict, List, Optional, Set, Tuple

from ..effects import Effects
from ..model import AnalysisError, ClassInfo, FuncInfo, Repo, TypeEnv, attr_chain, parent, st_cls, walk_shallow
from ..peval import NO_MATCH, Evaluator, NotEvaluable, Obj, Raised, Sym
from ..report import RuleRun

PROP = "C09"
TITLE = "Transforming or copying an entity equals transforming its output geometry"
DECIDES = (
    "no public helper of util/functions.py and no translate/rotate/scale/mirror/shear/transform method mutates, directly or through "
    "a callee, an array reachable from a parameter other than self (C09.PURITY, interprocedural alias/effect fixpoint); every "
    "origin-based point/array transform, evaluated over the linear-form domain T(aX + bO) + cX + dO, equals T(X - O) + O - the origin "
    "is subtracted once and added once (C09.AFFINE-BALANCE); a class that declares a part to be a direction by making translate or "
    "scale a no-op also neutralises the origin in rotate and mirror (C09.DIRECTION-PARTS); for every class overriding a per-kind "
    "transform method, transform() as resolved through the MRO routes that kind through the override (C09.TRANSFORM-EQUALS-METHODS); "
    "within one constructor a Face object is handed to at most one operation unless copied, faces of an already built operation count "
    "as owned (C09.LINEAR-PARTS); every copy() in the element hierarchy is a deep copy (C09.DEEP-COPY)."
    ' functions.mirror_matrix equals I - 2 n n^T entry by entry in a polynomial domain (C09.MIRROR-MATRIX); a freshly created element is attached to one slot only (C09.NO-SHARED-PARTS); no function closing over self is kept in an instance that copy.deepcopy must duplicate (part of C09.DEEP-COPY).'
    ' Overrides delegating to super().<same method> forward every shared parameter (C09.SUPER-FORWARDING); no array parameter is read after a whole-array in-place update of self (C09.INPLACE-THEN-READ); a side-effecting parts getter is read after self.center (C09.INVALIDATE-LAST); no function modifies an object it was handed, beyond eight confirmed ones (C09.ARGUMENTS-UNTOUCHED).'
    " Sense of rotation of angle-and-axis edges under mirror/rotate: axis sign x angle sign x traversal direction equals the determinant, for edges of a face, of an operation's faces and of its sides (C09.ARC-SENSE); no measured length stored as a snapshot (C09.LIVE-LENGTHS); coordinates stored as private copies (C09.PRIVATE-COORDINATES); curves read their points through live array objects (C09.LIVE-ARRAYS)."
    ' CircleCurve.mirror turns the normal into -M(normal) (C09.MIRROR-SENSE, exact); the displacement is copied before parts are moved in place (C09.DISPLACEMENT-COPIED); averages over point collections keep the coordinate axis (C09.AVERAGE-AXIS); directions derived as differences of points are used normalised (C09.UNIT-AXIS); closures returned by factory methods read only fixed configuration (part of C09.DEEP-COPY).'
)
NOT_DECIDED = "numeric equality of the transformed entity with an independently transformed output."
ASSUMPTIONS = [
    "np.asarray may return its argument (alias) - it does for ndarray input of matching dtype",
    "Operation.mirror vs Operation.transform([Mirror]) is a documented difference (explicit warning in Operation.transform) and the one listed exception of TRANSFORM-EQUALS-METHODS",
]

KINDS = ["translate", "rotate", "scale", "mirror", "shear"]
ARRAY_TYPES = ("PointType", "PointListType", "VectorType", "NPPointType", "NPPointListType", "NPVectorType", "FloatListType")


def purity(repo: Repo) -> RuleRun:
    r = RuleRun(PROP, "C09.PURITY", floor=40, what="transformation helpers and methods do not mutate arrays passed to them")
    eff = Effects(repo)
    fmod = repo.module("util.functions")
    elem = repo.cls("base.element.ElementBase")
    targets: List[FuncInfo] = []
    for f in repo.all_functions():
        if f.module is fmod and f.cls is None and not f.name.startswith("_"):
            targets.append(f)
        elif f.cls is not None and f.name in (*KINDS, "transform") and elem in repo.mro(f.cls):
            targets.append(f)
    for fn in sorted(targets, key=lambda f: f.qualname):
        mp = eff.mutated_params(fn)
        if mp:
            p = sorted(mp)[0]
            node = eff.witness.get((fn.qualname, p))
            r.bad(fn, f"{fn.qualname} modifies the array passed as '{p}' in place ({ast.unparse(node)[:60] if node is not None else '?'}): the caller's point/leader/origin is changed behind its back", node, key=f"param:{p}")
        else:
            r.ok(fn, "no parameter mutated", key="params")
    return r


purity.rule_id = "C09.PURITY"


# --------------------------------------------------------------------------------------------
class Lin:
    """T(ax*X + ao*O) + bx*X + bo*O  - a point expression over coordinates X, origin O and the
    linear operator T of the transformation (rotation matrix, mirror matrix, scaling ratio)."""

    __slots__ = ("ax", "ao", "bx", "bo")

    def __init__(self, ax=0, ao=0, bx=0, bo=0):
        self.ax, self.ao, self.bx, self.bo = ax, ao, bx, bo

    def tup(self):
        return (self.ax, self.ao, self.bx, self.bo)

    def __eq__(self, other):
        return isinstance(other, Lin) and other.tup() == self.tup()

    def __hash__(self):
        return hash(self.tup())

    def __repr__(self):
        return f"T({self.ax}X{self.ao:+d}O) {self.bx:+d}X {self.bo:+d}O"


def lin_binop(op, a, b):
    if isinstance(a, Lin) and isinstance(b, Lin):
        if isinstance(op, ast.Add):
            return Lin(a.ax + b.ax, a.ao + b.ao, a.bx + b.bx, a.bo + b.bo)
        if isinstance(op, ast.Sub):
            return Lin(a.ax - b.ax, a.ao - b.ao, a.bx - b.bx, a.bo - b.bo)
        raise NotEvaluable("product of two point expressions")
    lin, other = (a, b) if isinstance(a, Lin) else (b, a) if isinstance(b, Lin) else (None, None)
    if lin is None:
        return NO_MATCH
    if isinstance(other, Sym) and other.name == "ratio" and isinstance(op, ast.Mult):
        return apply_T(lin)
    if isinstance(other, Sym) and other.name == "zero" and isinstance(op, (ast.Add, ast.Sub)):
        return lin
    raise NotEvaluable(f"operation {type(op).__name__} between a point expression and {other!r}")


def apply_T(v: Lin) -> Lin:
    if v.ax or v.ao:
        raise NotEvaluable("the transformation is applied twice")
    return Lin(v.bx, v.bo, 0, 0)


def affine_hook(ev: Evaluator, call: ast.Call, name):
    nm = call.func.attr if isinstance(call.func, ast.Attribute) else (name or "").split(".")[-1]
    if name in ("np.asarray", "np.array", "numpy.asarray", "numpy.array", "np.copy", "numpy.copy", "copy.copy", "copy.deepcopy") and call.args:
        return ev.eval(call.args[0])
    if isinstance(call.func, ast.Attribute) and call.func.attr == "copy" and not call.args:
        v = ev.eval(call.func.value)
        if isinstance(v, Lin):
            return v
    if nm in ("rotation_matrix", "mirror_matrix"):
        m = Obj("matrix")
        m.set("T", m)
        return m
    if nm == "unit_vector":
        return Sym("unit")
    if nm == "vector" and len(call.args) == 3:
        return Sym("zero")
    if nm == "dot":
        if isinstance(call.func, ast.Attribute) and attr_chain(call.func.value) not in ("np", "numpy"):
            a = ev.eval(call.func.value)
            b = ev.eval(call.args[0])
        else:
            a, b = ev.eval(call.args[0]), ev.eval(call.args[1])
        if isinstance(a, Lin) and isinstance(b, Obj):
            return apply_T(a)
        if isinstance(b, Lin) and isinstance(a, Obj):
            return apply_T(b)
        raise NotEvaluable("dot product not between a point expression and the transformation matrix")
    return NO_MATCH


EXPECTED = Lin(1, -1, 0, 1)


def affine_balance(repo: Repo) -> RuleRun:
    r = RuleRun(PROP, "C09.AFFINE-BALANCE", floor=9, what="rotate/scale/mirror of points and arrays equal T(X - O) + O")
    r.exhaustive = True
    X, O = Lin(0, 0, 1, 0), Lin(0, 0, 0, 1)
    cases = []
    for kind, args in (("rotate", ["angle", "axis"]), ("scale", ["ratio"]), ("mirror", ["normal"])):
        cases.append((f"util.functions.{kind}", None, args))
        cases.append((f"construct.point.Point.{kind}", "position", args))
        cases.append((f"construct.array.Array.{kind}", "points", args))
    for qn, attr, extra in cases:
        fn = repo.func(qn)
        ev = Evaluator(repo=repo, module=fn.module, call_hook=affine_hook)
        ev.binop_hook = lin_binop
        ev.extra_types = (Lin,)
        argv: List[Any] = [Sym(a) for a in extra]
        try:
            if attr is None:
                res = ev.call_funcinfo(fn, [Lin(0, 0, 1, 0), *argv, Lin(0, 0, 0, 1)])
            else:
                this = Obj("entity", cls=fn.cls)
                this.set(attr, Lin(0, 0, 1, 0))
                ev.call_funcinfo(fn, [this, *argv, Lin(0, 0, 0, 1)])
                res = this.get(attr)
        except Raised as err:
            raise AnalysisError(f"{qn}: raised {err.exc_name} on the linear-form model") from err
        except NotEvaluable as err:
            if "applied twice" in str(err):
                r.bad(fn, f"{qn} applies the transformation twice to the coordinates", fn.node, key="balance")
                continue
            raise AnalysisError(f"{qn} not evaluable over the linear-form domain: {err}") from err
        r.check(
            res == EXPECTED,
            fn,
            f"result = {res}",
            f"{qn} computes {res} for coordinates X and origin O; a transformation about an origin must be T(X - O) + O "
            f"(origin subtracted {-(res.ao) if isinstance(res, Lin) else '?'} time(s) before and added {res.bo if isinstance(res, Lin) else '?'} time(s) after the linear map)",
            fn.node,
            key="balance",
        )
    return r


affine_balance.rule_id = "C09.AFFINE-BALANCE"


# --------------------------------------------------------------------------------------------
def _is_noop(fn: FuncInfo) -> bool:
    """No call, no store into an attribute or container: the method leaves the entity as it is."""
    for n in ast.walk(fn.node):
        if isinstance(n, ast.Call):
            return False
        if isinstance(n, (ast.Assign, ast.AugAssign, ast.AnnAssign)):
            tgts = n.targets if isinstance(n, ast.Assign) else [n.target]
            if any(isinstance(t, (ast.Attribute, ast.Subscript)) for t in tgts):
                return False
    return True


def _forwards_origin(fn: FuncInfo) -> bool:
    """True if the method hands its `origin` parameter on to a call."""
    if "origin" not in fn.params:
        return False
    for c in ast.walk(fn.node):
        if isinstance(c, ast.Call):
            for a in [*c.args, *[k.value for k in c.keywords]]:
                if isinstance(a, ast.Name) and a.id == "origin":
                    return True
    return False


def direction_parts(repo: Repo) -> RuleRun:
    r = RuleRun(PROP, "C09.DIRECTION-PARTS", floor=1, what="classes treating a part as a direction do so in all four origin-based/displacing transforms")
    elem = repo.cls("base.element.ElementBase")
    n = 0
    for cls in sorted(repo.subclasses(elem), key=lambda c: c.qualname):
        noops = [k for k in ("translate", "scale") if k in cls.methods and _is_noop(cls.methods[k])]
        if not noops:
            continue
        n += 1
        problems = []
        for k in ("rotate", "mirror"):
            m = repo.find_method(cls, k)
            if m is None:
                continue
            if m.cls is elem or _forwards_origin(m):
                problems.append(f"{k}() ({m.qualname}) forwards the caller's origin to the part")
        r.check(
            not problems,
            cls,
            f"{cls.name}: {noops} are no-ops and rotate/mirror ignore the origin",
            f"{cls.name} declares its parts to be directions ({', '.join(noops)} do nothing) but " + " and ".join(problems) + ": rotating or mirroring about a shifted origin displaces the direction vector instead of only turning it",
            cls.node,
            key="direction",
        )
    r.require(n >= 1, "no class with a no-op translate/scale found (edges.Angle restructured?)")
    return r


direction_parts.rule_id = "C09.DIRECTION-PARTS"


def transform_equals_methods(repo: Repo) -> RuleRun:
    r = RuleRun(PROP, "C09.TRANSFORM-EQUALS-METHODS", floor=5, what="transform() routes every kind through the class' own override")
    elem = repo.cls("base.element.ElementBase")
    documented = {("construct.operations.operation.Operation", "mirror")}
    tr_name = {"translate": "Translation", "rotate": "Rotation", "scale": "Scaling", "mirror": "Mirror", "shear": "Shear"}

    def routes_through_self(tfn: FuncInfo, kind: str) -> bool:
        selfname = tfn.params[0]
        for c in ast.walk(tfn.node):
            if isinstance(c, ast.Call) and isinstance(c.func, ast.Attribute) and c.func.attr == kind and isinstance(c.func.value, ast.Name) and c.func.value.id == selfname:
                return True
        return False

    for cls in sorted(repo.subclasses(elem), key=lambda c: c.qualname):
        overridden = [k for k in KINDS if k in cls.methods]
        if not overridden:
            continue
        tfn = repo.find_method(cls, "transform")
        r.require(tfn is not None, f"{cls.name}: no transform() in the MRO")
        # follow super().transform chains
        chain = [tfn]
        cur = tfn
        while any(isinstance(c, ast.Call) and isinstance(c.func, ast.Attribute) and c.func.attr == "transform" and isinstance(c.func.value, ast.Call) and attr_chain(c.func.value.func) == "super" for c in ast.walk(cur.node)):
            mro = repo.mro(cur.cls)
            nxt = None
            for c in mro[1:]:
                if "transform" in c.methods:
                    nxt = c.methods["transform"]
                    break
            if nxt is None or nxt in chain:
                break
            chain.append(nxt)
            cur = nxt
        for k in overridden:
            if cls.methods[k].cls is not cls:
                continue
            # primitives: parts == [self], transform's part.<kind>() IS the override
            parts = repo.find_method(cls, "parts")
            self_part = parts is not None and any(isinstance(x, ast.Return) and ast.unparse(x.value) == "[self]" for x in walk_shallow(parts.node))
            if self_part:
                r.ok(cls, f"{k}: parts == [self], transform reaches the override", key=f"{k}")
                continue
            if (cls.qualname, k) in documented:
                warned = any(isinstance(c, ast.Call) and attr_chain(c.func) == "warnings.warn" for t in chain for c in ast.walk(t.node))
                r.check(warned, cls, f"{k}: documented difference (transform warns)", f"{cls.name}.transform no longer warns that a Mirror is applied without {cls.name}.mirror's inversion", cls.methods[k].node, key=f"{k}")
                continue
            ok = any(routes_through_self(t, k) for t in chain)
            r.check(
                ok,
                cls.methods[k],
                f"{cls.name}.{k}: transform() calls self.{k}",
                f"{cls.name} overrides {k}() but transform() ({chain[-1].qualname}) applies a {tr_name[k]} to self.parts directly: "
                f"transform([{tr_name[k]}(...)]) and .{k}(...) give different results for this class",
                cls.methods[k].node,
                key=f"{k}",
            )
    return r


transform_equals_methods.rule_id = "C09.TRANSFORM-EQUALS-METHODS"


# --------------------------------------------------------------------------------------------
def linear_parts(repo: Repo) -> RuleRun:
    r = RuleRun(PROP, "C09.LINEAR-PARTS", floor=10, what="a Face object belongs to one operation")
    op_cls = repo.cls("construct.operations.operation.Operation")
    face_cls = repo.cls("construct.flat.face.Face")
    n_sites = 0
    for fn in sorted(repo.all_functions(), key=lambda f: f.qualname):
        env = None
        ctor_calls: List[ast.Call] = []
        for n in walk_shallow(fn.node):
            if not isinstance(n, ast.Call):
                continue
            tgt = None
            if isinstance(n.func, (ast.Name, ast.Attribute)):
                tgt = repo.resolve_expr(fn.module, n.func)
            is_ctor = isinstance(tgt, ClassInfo) and op_cls in repo.mro(tgt)
            is_series = isinstance(tgt, FuncInfo) and tgt.name == "from_series"
            if isinstance(n.func, ast.Attribute) and n.func.attr == "__init__" and isinstance(n.func.value, ast.Call) and attr_chain(n.func.value.func) == "super" and fn.cls is not None and op_cls in repo.mro(fn.cls) and fn.cls is not op_cls:
                is_ctor = True
            if is_ctor or is_series:
                ctor_calls.append(n)
        if not ctor_calls:
            continue
        env = TypeEnv(repo, fn)
        built: Set[str] = set()  # local names holding already built operations
        for n in walk_shallow(fn.node):
            if isinstance(n, ast.Assign) and isinstance(n.targets[0], ast.Name) and any(n.value is c for c in ctor_calls):
                built.add(n.targets[0].id)
        seen: Dict[str, ast.Call] = {}
        for call in ctor_calls:
            n_sites += 1
            args = list(call.args)
            if len(args) == 1 and isinstance(args[0], ast.List):
                args = list(args[0].elts)
            problems = []
            in_this_call: Set[str] = set()
            for a in args:
                if isinstance(a, ast.Starred):
                    continue
                txt = ast.unparse(a)
                if not isinstance(a, ast.Call) and isinstance(a, (ast.Name, ast.Attribute, ast.Subscript)):
                    if txt in in_this_call:
                        problems.append(f"'{txt}' is used for two faces of the same operation")
                    in_this_call.add(txt)
                if isinstance(a, ast.Call):
                    continue  # a fresh object (Face(...), x.copy(), get_face(...))
                t = env.type_of(a)
                if st_cls(t) is not None and face_cls not in repo.mro(st_cls(t)):
                    continue
                if isinstance(a, ast.Attribute) and a.attr in ("top_face", "bottom_face") and isinstance(a.value, ast.Name) and a.value.id in built:
                    problems.append(f"'{txt}' is a face owned by the already built operation '{a.value.id}'")
                elif txt in seen and seen[txt] is not call and st_cls(t) is not None:
                    problems.append(f"'{txt}' is also handed to another operation at line {seen[txt].lineno}")
                seen.setdefault(txt, call)
            r.check(
                not problems,
                fn,
                f"{ast.unparse(call.func)}(...): faces not shared",
                f"{fn.qualname}: {'; '.join(problems)} without .copy(): two operations share one Face object, so translating/rotating the shape moves that face twice",
                call,
                key=f"{ast.unparse(call)[:60]}",
            )
    r.require(n_sites >= 10, f"only {n_sites} operation constructions examined")
    return r


linear_parts.rule_id = "C09.LINEAR-PARTS"


def deep_copy(repo: Repo) -> RuleRun:
    r = RuleRun(PROP, "C09.DEEP-COPY", floor=3, what="copy() is copy.deepcopy(self) throughout the element hierarchy")
    elem = repo.cls("base.element.ElementBase")
    for cls in [elem, *sorted(repo.subclasses(elem), key=lambda c: c.qualname)]:
        m = cls.methods.get("copy")
        if m is None:
            continue
        rets = [n for n in walk_shallow(m.node) if isinstance(n, ast.Return)]
        rv = rets[0].value if len(rets) == 1 else None
        if isinstance(rv, ast.Name):
            defs = [n.value for n in walk_shallow(m.node) if isinstance(n, ast.Assign) and len(n.targets) == 1 and isinstance(n.targets[0], ast.Name) and n.targets[0].id == rv.id]
            rv = defs[0] if len(defs) == 1 else rv
        ok = isinstance(rv, ast.Call) and attr_chain(rv.func) in ("copy.deepcopy", "deepcopy") and bool(rv.args) and ast.unparse(rv.args[0]) == m.params[0]
        r.check(ok, m, "copy.deepcopy(self)", f"{m.qualname} is not a deep copy of self: the copy shares points/edges with the original and transforming one moves the other", m.node, key="copy")
    # deepcopy treats functions as atoms: a lambda / nested function that closes over `self` and is kept in the instance
    # still reads the ORIGINAL object's attributes in the copy (bound methods, in contrast, are re-bound to the copy)
    from ..alias import _stores_param

    for cls in [elem, *sorted(repo.subclasses(elem), key=lambda c: c.qualname)]:
        for m in sorted(cls.methods.values(), key=lambda f: f.name):
            if not m.params or m.is_staticmethod:
                continue
            selfname = m.params[0]
            closures = [n for n in ast.walk(m.node) if isinstance(n, (ast.Lambda, ast.FunctionDef)) and n is not m.node and any(isinstance(x, ast.Name) and x.id == selfname for x in ast.walk(n))]
            if not closures:
                continue
            env = TypeEnv(repo, m)
            for k, cl in enumerate(closures):
                kept = None
                par = parent(cl)
                if isinstance(par, ast.Assign) and any(isinstance(t, ast.Attribute) and attr_chain(t.value) == selfname for t in par.targets):
                    kept = f"assigned to {ast.unparse(par.targets[0])}"
                elif isinstance(par, ast.Call) and cl in par.args:
                    callees, _ = env.resolve_call(par)
                    idx = par.args.index(cl)
                    for c in callees:
                        off = 1 if c.cls is not None and not c.is_staticmethod else 0
                        if _stores_param(c, idx + off):
                            kept = f"handed to {c.qualname}, which stores it"
                elif isinstance(cl, ast.FunctionDef):
                    for n in ast.walk(m.node):
                        if isinstance(n, ast.Assign) and isinstance(n.value, ast.Name) and n.value.id == cl.name and any(isinstance(t, ast.Attribute) and attr_chain(t.value) == selfname for t in n.targets):
                            kept = f"assigned to {ast.unparse(n.targets[0])}"
                if kept is None:
                    r.ok(m, "closure over self is not kept in the instance", key=f"closure#{k}")
                    continue
                r.bad(
                    m,
                    f"{m.qualname} keeps a function that closes over '{selfname}' in the instance ({kept}): copy.deepcopy copies functions by reference, so in a copy() of this "
                    f"{cls.name} the function still reads the ORIGINAL object - the copy's geometry does not follow the copy's transformations and moves when the original is transformed",
                    cl,
                    key=f"closure#{k}",
                )
    # the same hazard one level down: helper objects held by elements (interpolators) whose factory method RETURNS a closure that
    # the constructor stores (self.function = self._get_function()). Reading configuration that never changes through `self` is
    # harmless (the copy has the same value); reading state the class rebuilds later (assigned outside __init__) is not: the
    # copy's function follows the ORIGINAL object's rebuilds
    classes = sorted({f.cls for f in repo.all_functions() if f.cls is not None and elem not in repo.mro(f.cls)}, key=lambda c: c.qualname)
    for cls in classes:
        rebuilt = set()
        for c_ in repo.mro(cls):
            for m_ in c_.methods.values():
                if m_.name == "__init__" or not m_.params:
                    continue
                for n_ in ast.walk(m_.node):
                    if isinstance(n_, (ast.Assign, ast.AugAssign, ast.AnnAssign)):
                        for t_ in n_.targets if isinstance(n_, ast.Assign) else [n_.target]:
                            if isinstance(t_, ast.Attribute) and isinstance(t_.value, ast.Name) and t_.value.id == m_.params[0]:
                                rebuilt.add(t_.attr)
        for m in sorted(cls.methods.values(), key=lambda f: f.name):
            if not m.params or m.is_staticmethod:
                continue
            selfname = m.params[0]
            for k, ret in enumerate(n for n in ast.walk(m.node) if isinstance(n, ast.Return) and isinstance(n.value, ast.Lambda)):
                lam = ret.value
                reads = {x.attr for x in ast.walk(lam) if isinstance(x, ast.Attribute) and isinstance(x.value, ast.Name) and x.value.id == selfname}
                if not reads:
                    continue
                # is the returned function kept in an instance?  self.<attr> = self.<m>()
                kept = any(
                    isinstance(a, ast.Assign) and isinstance(a.value, ast.Call) and isinstance(a.value.func, ast.Attribute) and a.value.func.attr == m.name and any(isinstance(t, ast.Attribute) for t in a.targets)
                    for c_ in repo.mro(cls) + list(repo.subclasses(cls))
                    for mm in c_.methods.values()
                    for a in ast.walk(mm.node)
                )
                if not kept:
                    continue
                harmful = sorted((reads & rebuilt) | (reads & {"points", "position", "positions", "array"}))
                r.check(
                    not harmful,
                    m,
                    f"returned closure reads only fixed configuration through self ({sorted(reads)})",
                    f"{m.qualname} returns a function that reads self.{harmful[0] if harmful else ''} and is kept in the instance: copy.deepcopy copies functions by reference, so in a copy of the object (a copied curve) the function "
                    "still reads the ORIGINAL object's state - the copy evaluates the original's rebuilt spline after the original is transformed",
                    lam,
                    key=f"returned-closure#{k}",
                )
    return r


deep_copy.rule_id = "C09.DEEP-COPY"

def unit_normal(repo: Repo) -> RuleRun:
    r = RuleRun(PROP, "C09.UNIT-NORMAL", floor=2, what="every mirror matrix is built from a normalised normal (sibling agreement)")
    n = 0
    for fn in sorted(repo.all_functions(), key=lambda f: f.qualname):
        for c in walk_shallow(fn.node):
            if isinstance(c, ast.Call) and (attr_chain(c.func) or "").split(".")[-1] == "mirror_matrix" and c.args:
                n += 1
                arg = c.args[0]
                ok = isinstance(arg, ast.Call) and (attr_chain(arg.func) or "").split(".")[-1] == "unit_vector"
                if not ok and isinstance(arg, ast.Name):
                    defs = [x for x in walk_shallow(fn.node) if isinstance(x, ast.Assign) and any(isinstance(t, ast.Name) and t.id == arg.id for t in x.targets)]
                    ok = bool(defs) and isinstance(defs[-1].value, ast.Call) and (attr_chain(defs[-1].value.func) or "").split(".")[-1] == "unit_vector"
                r.check(ok, fn, "mirror_matrix(unit normal)", f"{fn.qualname} builds the mirror matrix from '{ast.unparse(arg)}' without normalising it (its sibling does): mirroring with a non-unit normal scales the geometry", c, key="mirror_matrix")
    r.require(n >= 2, "fewer than two mirror_matrix call sites")
    return r


unit_normal.rule_id = "C09.UNIT-NORMAL"

def no_alias_store(repo: Repo) -> RuleRun:
    r = RuleRun(PROP, "C09.NO-ALIAS-STORE", floor=5, what="constructors do not keep an alias of a caller's array in an attribute that methods later modify in place")
    eff = Effects(repo)
    elem = repo.cls("base.element.ElementBase")
    n = 0
    for cls in [elem, *sorted(repo.subclasses(elem), key=lambda c: c.qualname)]:
        init = cls.methods.get("__init__")
        if init is None:
            continue
        stored = eff.stored_aliases(init)
        # only raw coordinate data counts: entity objects handed to a constructor are meant to be owned
        array_params = set()
        for a in init.node.args.args[1:]:
            ann = ast.unparse(a.annotation) if a.annotation is not None else ""
            if any(t in ann for t in ARRAY_TYPES):
                array_params.add(a.arg)
        if not array_params:
            continue
        # attributes some method of the class (or its bases/subclasses) modifies in place
        inplace: Dict[str, FuncInfo] = {}
        for c in [*repo.mro(cls), *repo.subclasses(cls)]:
            for m in c.methods.values():
                for a in eff.mutated_self_attrs(m):
                    inplace.setdefault(a, m)
        # attributes that receive (a copy or an alias of) an array parameter
        fed = set()
        for st in walk_shallow(init.node):
            if isinstance(st, (ast.Assign, ast.AnnAssign)):
                tgts = st.targets if isinstance(st, ast.Assign) else [st.target]
                for t in tgts:
                    if isinstance(t, ast.Attribute) and isinstance(t.value, ast.Name) and t.value.id == init.params[0] and st.value is not None and any(isinstance(x, ast.Name) and x.id in array_params for x in ast.walk(st.value)):
                        fed.add(f"self.{t.attr}")
        for attr in sorted(fed):
            n += 1
            al = stored.get(attr, set()) & array_params
            modifier = inplace.get(attr)
            if al and modifier is None:
                r.ok(init, f"{attr} aliases {sorted(al)} but is never modified in place", key=attr)
                continue
            r.check(
                not al,
                init,
                f"{attr} holds a private copy" + (f" (modified in place by {modifier.qualname})" if modifier else ""),
                f"{cls.name}.__init__ stores the caller's array '{sorted(al)[0] if al else ''}' in {attr} without copying it, and {modifier.qualname if modifier else '?'} modifies {attr} in place: "
                "transforming this entity changes the array the user passed in and every other entity built from it",
                init.node,
                key=attr,
            )
    r.require(n >= 5, f"only {n} attributes fed from array parameters found")
    return r


no_alias_store.rule_id = "C09.NO-ALIAS-STORE"


def transform_routing(repo: Repo) -> RuleRun:
    """Abstract run of ElementBase.transform: every transformation of the list reaches every part with
    the right method and arguments, and a default origin is the entity's centre AT THAT MOMENT."""
    r = RuleRun(PROP, "C09.TRANSFORM-ROUTING", floor=8, what="ElementBase.transform dispatch, argument order and per-transformation default origin")
    elem = repo.cls("base.element.ElementBase")
    tfn = repo.func("base.element.ElementBase.transform")
    trmod = repo.module("base.transforms")
    calls: List[Any] = []

    class Part(Obj):
        pass

    parts = [Obj("part0"), Obj("part1")]
    this = Obj("entity", cls=elem)
    this.set("parts", parts)
    orig_attr = {}

    def hook(ev, call: ast.Call, name):
        if isinstance(call.func, ast.Attribute) and call.func.attr in KINDS:
            try:
                recv = ev.eval(call.func.value)
            except NotEvaluable:
                return NO_MATCH
            if isinstance(recv, Obj) and recv in parts:
                args = [ev.eval(a) for a in call.args]
                kwargs = {k.arg: ev.eval(k.value) for k in call.keywords}
                calls.append((recv._name, call.func.attr, args, kwargs))
                return recv
        if name in ("np.array", "np.asarray", "numpy.array", "numpy.asarray", "np.copy", "numpy.copy") and call.args:
            return ev.eval(call.args[0])  # a copy / view of a symbolic vector is that vector as far as routing goes
        return NO_MATCH

    def mk(kind, **fields):
        cls = repo.resolve_name(trmod, kind)
        o = Obj(kind, cls=cls)
        for k, v in fields.items():
            o.set(k, v)
        return o

    seq = [
        mk("Rotation", axis=Sym("ax1"), angle=Sym("an1"), origin=None),
        mk("Translation", displacement=Sym("d")),
        mk("Scaling", ratio=Sym("r"), origin=None),
        mk("Mirror", normal=Sym("n"), origin=None),
        mk("Rotation", axis=Sym("ax2"), angle=Sym("an2"), origin=Sym("o2")),
        mk("Scaling", ratio=Sym("r2"), origin=Sym("o3")),
        mk("Mirror", normal=Sym("n2"), origin=Sym("o4")),
        mk("Shear", normal=Sym("sn"), origin=Sym("so"), direction=Sym("sd"), angle=Sym("sa")),
    ]
    ev = Evaluator(repo=repo, module=tfn.module, call_hook=hook)
    base_attr = ev.obj_attr

    def obj_attr(obj, attr):
        if obj is this and attr == "center":
            return Sym(f"center-after-{len(calls)}-part-calls")
        return base_attr(obj, attr)

    ev.obj_attr = obj_attr  # type: ignore[method-assign]
    try:
        ev.call_funcinfo(tfn, [this, seq])
    except (NotEvaluable, Raised) as err:
        raise AnalysisError(f"ElementBase.transform not evaluable on the symbolic model: {err}") from err

    def arg(call_, pos, kw):
        _, _, args, kwargs = call_
        if kw in kwargs:
            return kwargs[kw]
        return args[pos] if pos < len(args) else None

    expected = []
    for i, t in enumerate(seq):
        before = 2 * i  # part calls made before this transformation started
        k = t._name
        for p in ("part0", "part1"):
            if k == "Translation":
                expected.append((p, "translate", {"displacement": Sym("d")}))
            elif k == "Rotation":
                o = t.get("origin")
                expected.append((p, "rotate", {"angle": t.get("angle"), "axis": t.get("axis"), "origin": o if o is not None else Sym(f"center-after-{before}-part-calls")}))
            elif k == "Scaling":
                o = t.get("origin")
                expected.append((p, "scale", {"ratio": t.get("ratio"), "origin": o if o is not None else Sym(f"center-after-{before}-part-calls")}))
            elif k == "Mirror":
                o = t.get("origin")
                expected.append((p, "mirror", {"normal": t.get("normal"), "origin": o if o is not None else [0, 0, 0]}))
            elif k == "Shear":
                expected.append((p, "shear", {"normal": Sym("sn"), "origin": Sym("so"), "direction": Sym("sd"), "angle": Sym("sa")}))
    sig = {"translate": ["displacement"], "rotate": ["angle", "axis", "origin"], "scale": ["ratio", "origin"], "mirror": ["normal", "origin"], "shear": ["normal", "origin", "direction", "angle"]}
    r.check(len(calls) == len(expected), tfn, f"{len(calls)} part calls for {len(seq)} transformations x 2 parts", f"ElementBase.transform makes {len(calls)} calls on the parts for {len(seq)} transformations and 2 parts (expected {len(expected)}): a transformation or a part is skipped or applied twice", tfn.node, key="count")
    for i, (c, e) in enumerate(zip(calls, expected)):
        p, meth, want = e
        got = {name: arg(c, j, name) for j, name in enumerate(sig.get(c[1], []))}
        ok = c[0] == p and c[1] == meth and all(got.get(kk) == vv or (isinstance(vv, list) and list(got.get(kk) or []) == vv) for kk, vv in want.items())
        r.check(
            ok,
            tfn,
            f"#{i}: {p}.{meth}({', '.join(f'{kk}={vv}' for kk, vv in want.items())})",
            f"ElementBase.transform, transformation {i // 2} ({seq[i // 2]._name}): calls {c[0]}.{c[1]} with {got}; expected {p}.{meth} with {want} "
            "(a default origin is the entity's centre at the time the transformation is applied, a default mirror plane passes through the global origin)",
            tfn.node,
            key=f"call{i}:{seq[i // 2]._name}",
        )
    # the per-kind methods of ElementBase themselves
    cases = [
        ("translate", [Sym("d")], {"displacement": Sym("d")}),
        ("rotate", [Sym("an"), Sym("ax"), Sym("o")], {"angle": Sym("an"), "axis": Sym("ax"), "origin": Sym("o")}),
        ("rotate", [Sym("an"), Sym("ax")], {"angle": Sym("an"), "axis": Sym("ax"), "origin": Sym("center-after-0-part-calls")}),
        ("scale", [Sym("r"), Sym("o")], {"ratio": Sym("r"), "origin": Sym("o")}),
        ("scale", [Sym("r")], {"ratio": Sym("r"), "origin": Sym("center-after-0-part-calls")}),
        ("mirror", [Sym("n"), Sym("o")], {"normal": Sym("n"), "origin": Sym("o")}),
        ("mirror", [Sym("n")], {"normal": Sym("n"), "origin": [0, 0, 0]}),
        ("shear", [Sym("sn"), Sym("so"), Sym("sd"), Sym("sa")], {"normal": Sym("sn"), "origin": Sym("so"), "direction": Sym("sd"), "angle": Sym("sa")}),
    ]
    for kind, argv, want in cases:
        fn = repo.func(f"base.element.ElementBase.{kind}")
        del calls[:]
        ev = Evaluator(repo=repo, module=fn.module, call_hook=hook)
        base_attr2 = ev.obj_attr

        def obj_attr2(obj, attr, base_attr2=base_attr2):
            if obj is this and attr == "center":
                return Sym(f"center-after-{len(calls)}-part-calls")
            return base_attr2(obj, attr)

        ev.obj_attr = obj_attr2  # type: ignore[method-assign]
        try:
            res = ev.call_funcinfo(fn, [this, *argv])
        except (NotEvaluable, Raised) as err:
            raise AnalysisError(f"ElementBase.{kind} not evaluable on the symbolic model: {err}") from err
        ok = len(calls) == 2 and [c[0] for c in calls] == ["part0", "part1"] and res is this
        detail = f"calls {[(c[0], c[1]) for c in calls]}, returns {res!r}"
        if ok:
            for c in calls:
                got = {name: arg(c, j, name) for j, name in enumerate(sig[kind])}
                if c[1] != kind or any(not (got.get(kk) == vv or (isinstance(vv, list) and list(got.get(kk) or []) == vv)) for kk, vv in want.items()):
                    ok = False
                    detail = f"{c[0]}.{c[1]} called with {got}; expected {want}"
        label = f"{kind}({', '.join(map(repr, argv))})"
        r.check(ok, fn, f"{label}: every part, right arguments, returns self", f"ElementBase.{label}: {detail} (each part must receive the transformation once; a missing origin defaults to the entity's centre evaluated before any part moves, for mirror to the global origin; the entity itself is returned)", fn.node, key=label)
    return r


transform_routing.rule_id = "C09.TRANSFORM-ROUTING"

def mirror_matrix(repo: Repo) -> RuleRun:
    """functions.mirror_matrix(n) is the Householder reflection I - 2 n n^T: each of the nine entries, normalised to a
    polynomial in the components of n, equals delta_ij - 2 n_i n_j. A wrong entry is invisible for axis-aligned and
    diagonal normals - all that tests use - and bends every mirrored entity for a general one."""
    from ..poly import Poly, eval_poly

    r = RuleRun(PROP, "C09.MIRROR-MATRIX", floor=9, what="mirror_matrix(n)[i][j] == delta_ij - 2*n_i*n_j as polynomials, all nine entries")
    r.exhaustive = True
    fn = repo.func("util.functions.mirror_matrix")
    r.require(len(fn.params) == 1, "mirror_matrix no longer takes exactly the normal")
    comps = [Poly.var(f"n{i}") for i in range(3)]
    env = {fn.params[0]: comps}
    ret = None
    for st in fn.node.body:
        if isinstance(st, ast.Expr) and isinstance(st.value, ast.Constant):
            continue
        if isinstance(st, ast.Assign) and len(st.targets) == 1 and isinstance(st.targets[0], ast.Name):
            try:
                env[st.targets[0].id] = eval_poly(st.value, env)
            except AnalysisError:
                if isinstance(st.value, ast.Call) and (attr_chain(st.value.func) or "").split(".")[-1] in ("asarray", "array") and st.value.args and isinstance(st.value.args[0], ast.Name) and st.value.args[0].id in env:
                    env[st.targets[0].id] = env[st.value.args[0].id]
                else:
                    env.pop(st.targets[0].id, None)  # not a polynomial: unusable if an entry refers to it (reported then)
        elif isinstance(st, ast.Assign) and len(st.targets) == 1 and isinstance(st.targets[0], ast.Tuple) and isinstance(st.value, ast.Name) and isinstance(env.get(st.value.id), list):
            for t, v in zip(st.targets[0].elts, env[st.value.id]):
                if isinstance(t, ast.Name):
                    env[t.id] = v
        elif isinstance(st, ast.Return):
            ret = st.value
        else:
            r.require(False, f"mirror_matrix: statement '{ast.unparse(st)[:60]}' is outside the recognised shape (component bindings + one matrix literal)")
    r.require(ret is not None, "mirror_matrix does not return a matrix literal")
    if isinstance(ret, ast.Name):
        # returned through a local: take the expression it was bound to
        defs = [st.value for st in fn.node.body if isinstance(st, ast.Assign) and len(st.targets) == 1 and isinstance(st.targets[0], ast.Name) and st.targets[0].id == ret.id]
        r.require(len(defs) == 1, "mirror_matrix returns a name that is not bound exactly once")
        ret = defs[0]
    lit = ret.args[0] if isinstance(ret, ast.Call) and (attr_chain(ret.func) or "").split(".")[-1] in ("array", "asarray") and ret.args else ret
    r.require(isinstance(lit, (ast.List, ast.Tuple)) and len(lit.elts) == 3 and all(isinstance(row, (ast.List, ast.Tuple)) and len(row.elts) == 3 for row in lit.elts), "mirror_matrix does not return a 3x3 literal")
    for i, row in enumerate(lit.elts):
        for j, e in enumerate(row.elts):
            got = eval_poly(e, env)
            want = (Poly.const(1) if i == j else Poly.const(0)) - Poly.const(2) * comps[i] * comps[j]
            r.check(
                got == want,
                fn,
                f"[{i}][{j}] = {want}",
                f"mirror_matrix(n)[{i}][{j}] is {got} (from '{ast.unparse(e)}') but the reflection I - 2 n n^T has {want} there: mirroring about a plane whose normal has "
                "three different non-zero components is no longer a reflection (points, arrays, links and every mirrored entity are affected)",
                e,
                key=f"entry[{i}][{j}]",
            )
    return r


mirror_matrix.rule_id = "C09.MIRROR-MATRIX"

def no_shared_parts(repo: Repo) -> RuleRun:
    from ..alias import shared_parts_rule

    return shared_parts_rule(repo, PROP, "C09.NO-SHARED-PARTS")


no_shared_parts.rule_id = "C09.NO-SHARED-PARTS"

def arguments_untouched(repo: Repo) -> RuleRun:
    from ..alias import argument_mutation_rule

    return argument_mutation_rule(repo, PROP, "C09.ARGUMENTS-UNTOUCHED")


arguments_untouched.rule_id = "C09.ARGUMENTS-UNTOUCHED"

def super_forwarding(repo: Repo) -> RuleRun:
    from ..transforms import super_forwarding_rule

    return super_forwarding_rule(repo, PROP, "C09.SUPER-FORWARDING")


super_forwarding.rule_id = "C09.SUPER-FORWARDING"


def inplace_then_read(repo: Repo) -> RuleRun:
    from ..transforms import inplace_then_read_rule

    return inplace_then_read_rule(repo, PROP, "C09.INPLACE-THEN-READ")


inplace_then_read.rule_id = "C09.INPLACE-THEN-READ"


def invalidate_last(repo: Repo) -> RuleRun:
    from ..transforms import invalidate_last_rule

    return invalidate_last_rule(repo, PROP, "C09.INVALIDATE-LAST")


invalidate_last.rule_id = "C09.INVALIDATE-LAST"

def arc_sense(repo: Repo) -> RuleRun:
    """An angle-and-axis arc runs from its first to its second end point, turning by `angle` about `axis` (right-hand rule). Its
    image under an orthogonal map Q is the arc from Q(v1) to Q(v2) about det(Q)*Q(axis): a reflection reverses the sense of rotation.
    Three things can carry the reversal - the axis sign, the sign of the angle and the direction the edge is traversed in (its end
    points swapped, as Operation.mirror does for side edges by inverting the operation) - and their product must be det(Q) in every
    carrier of edge data. The rule evaluates the carrier's transformation on a model whose points and axis record what is applied
    to them, then multiplies the three signs."""
    r = RuleRun(PROP, "C09.ARC-SENSE", floor=10, what="sense of rotation of angle-and-axis edges: (axis sign) x (angle sign) x (traversal direction) equals the determinant of the transformation, for edges of a face, of an operation's faces and of its sides")
    r.exhaustive = True
    point_cls = repo.cls("construct.point.Point")
    angle_cls = repo.cls("construct.edges.Angle")
    line_cls = repo.cls("construct.edges.Line")
    face_cls = repo.cls("construct.flat.face.Face")
    op_cls = repo.cls("construct.operations.operation.Operation")

    def tracked(name, cls=point_cls):
        o = Obj(name, cls=cls)
        o.set("log", [])
        return o

    def mk_angle(name):
        e = Obj(name, cls=angle_cls)
        e.set("angle", 1)
        e.set("axis", tracked(f"{name}.axis", repo.cls("construct.point.Vector")))
        return e

    spline_cls = repo.cls("construct.edges.Spline")
    array_cls = repo.cls("construct.array.Array")
    dcurve_cls = repo.cls("construct.curves.discrete.DiscreteCurve")

    def mk_spline(name):
        """a spline whose points run q0, q1, q2 from the edge's first to its second end point"""
        e = Obj(name, cls=spline_cls)
        arr = Obj(f"{name}.array", cls=array_cls)
        arr.set("points", [Sym(f"{name}.q{i}") for i in range(3)])
        arr.set("log", [])
        curve = Obj(f"{name}.curve", cls=dcurve_cls)
        curve.set("array", arr)
        e.set("curve", curve)
        return e

    def mk_face(name):
        face = Obj(name, cls=face_cls)
        face.set("points", [tracked(f"{name}.p{i}") for i in range(4)])
        face.set("edges", [mk_angle(f"{name}.e0"), mk_spline(f"{name}.e1")] + [Obj(f"{name}.e{i}", cls=line_cls) for i in range(2, 4)])
        face.set("projected_to", None)
        face.set("patch_name", None)
        return face

    def hook(ev, call, name):
        if isinstance(call.func, ast.Attribute) and call.func.attr in ("rotate", "mirror", "scale", "translate"):
            recv = ev.eval(call.func.value)
            if isinstance(recv, Obj) and recv._cls is not None and (point_cls in repo.mro(recv._cls) or recv._cls is array_cls) and recv.has("log"):
                args = [ev.eval(a) for a in call.args] + [ev.eval(k.value) for k in call.keywords]
                recv.get("log").append((call.func.attr, args))
                return recv
        if name in ("np.flip", "numpy.flip", "np.flipud", "numpy.flipud") and call.args:
            v = ev.eval(call.args[0])
            if isinstance(v, list):
                axis = None
                for kw in call.keywords:
                    if kw.arg == "axis":
                        axis = ev.eval(kw.value)
                if axis is None and len(call.args) > 1:
                    axis = ev.eval(call.args[1])
                if name.endswith("flipud") or axis == 0:
                    return list(reversed(v))
                if axis is None:
                    # numpy: 'The default, axis=None, will flip over all of the axes' - the order of the points AND of the coordinates of each
                    return [Sym(f"coordinates-reversed:{x!r}") for x in reversed(v)]
        return NO_MATCH

    def spline_order(edge, kind):
        """+1 / -1: the points are listed in the original / the reversed order afterwards; the array itself transformed once"""
        arr = edge.get("curve").get("array")
        names = [repr(x) for x in arr.get("points")]
        base = [f"{edge._name}.q{i}" for i in range(3)]
        applied = [w for w, _ in arr.get("log")]
        if applied != [kind]:
            return None, f"the point array of the spline is subjected to {applied} (expected exactly one {kind})"
        if names == base:
            return 1, ""
        if names == list(reversed(base)):
            return -1, ""
        if any("coordinates-reversed" in nm for nm in names):
            return 0, "the point array is flipped over ALL its axes (np.flip without axis=0): the points are listed backwards and every point (x, y, z) becomes (z, y, x)"
        return None, f"the spline's points become {names}"

    def axis_sign(edge, kind):
        """+1 / -1: the axis is Q(axis) / -Q(axis) afterwards; None with a reason otherwise"""
        sign, applied = 1, 0
        for what, args in edge.get("axis").get("log"):
            if what == kind:
                applied += 1
            elif what == "scale" and args and isinstance(args[0], (int, float)) and not isinstance(args[0], bool) and abs(args[0]) == 1:
                sign *= int(args[0])
            else:
                return None, f"the axis is additionally subjected to {what}({', '.join(map(repr, args))[:60]})"
        if applied == 0:
            return 0, f"the axis of the arc is not {kind.rstrip('e')}ed at all"
        if applied != 1:
            return None, f"the axis is {kind}d {applied} times"
        ang = edge.get("angle")
        if ang not in (1, -1):
            return None, f"the angle becomes {ang!r}"
        return sign * ang, ""

    for kind, det, targs in (("mirror", -1, [Sym("normal"), Sym("origin")]), ("rotate", 1, [Sym("angle"), Sym("axis"), Sym("origin")])):
        # (1) a face on its own
        face = mk_face("face")
        p0, p1, edge = face.get("points")[0], face.get("points")[1], face.get("edges")[0]
        m = repo.find_method(face_cls, kind)
        _run_sense(Evaluator(repo=repo, module=m.module, call_hook=hook), m, [face, *targs])
        where = [(j, e) for j, e in enumerate(face.get("edges")) if e is edge]
        r.require(len(where) == 1, f"Face.{kind}: the angle edge is in {len(where)} slots afterwards")
        j = where[0][0]
        ends = (face.get("points")[j], face.get("points")[(j + 1) % 4])
        direction = 1 if ends == (p0, p1) else -1 if ends == (p1, p0) else 0
        _judge_sense(r, m, f"Face.{kind}: edge of the face", kind, det, direction, *axis_sign(edge, kind))
        sp = [e for e in face.get("edges") if isinstance(e, Obj) and e._cls is spline_cls]
        r.require(len(sp) == 1, f"Face.{kind}: the spline edge vanished from the face")
        j = face.get("edges").index(sp[0])
        q0, q1 = face.get("points")[j]._name, face.get("points")[(j + 1) % 4]._name
        direction = 1 if (q0, q1) == ("face.p1", "face.p2") else -1 if (q0, q1) == ("face.p2", "face.p1") else 0
        _judge_order(r, m, f"Face.{kind}: spline edge of the face", kind, direction, *spline_order(sp[0], kind))
        # (2) an operation: edges of its faces and of its sides
        op = Obj("op", cls=op_cls)
        bottom, top = mk_face("bottom"), mk_face("top")
        op.set("bottom_face", bottom)
        op.set("top_face", top)
        side = mk_angle("side.e0")
        side_spline = mk_spline("side.e1")
        # straight edges first and in between: every side edge is reversed, whatever precedes it
        op.set("side_edges", [Obj("side.e0-line", cls=line_cls), side, Obj("side.e2-line", cls=line_cls), side_spline])
        op.set("side_projects", [None] * 4)
        op.set("side_patches", [None] * 4)
        b0, t0 = bottom.get("points")[1], top.get("points")[1]
        fedge, f0, f1 = bottom.get("edges")[0], bottom.get("points")[0], bottom.get("points")[1]
        m = repo.find_method(op_cls, kind)
        _run_sense(Evaluator(repo=repo, module=m.module, call_hook=hook), m, [op, *targs])
        where = [j for j, e in enumerate(op.get("side_edges")) if e is side]
        r.require(len(where) == 1, f"Operation.{kind}: the side edge is in {len(where)} slots afterwards")
        j = where[0]
        ends = (op.get("bottom_face").get("points")[j], op.get("top_face").get("points")[j])
        direction = 1 if ends == (b0, t0) else -1 if ends == (t0, b0) else 0
        _judge_sense(r, m, f"Operation.{kind}: side edge", kind, det, direction, *axis_sign(side, kind))
        direction = 0
        for fc in (op.get("bottom_face"), op.get("top_face")):
            for j, e in enumerate(fc.get("edges")):
                if e is fedge:
                    ends = (fc.get("points")[j], fc.get("points")[(j + 1) % 4])
                    direction = 1 if ends == (f0, f1) else -1 if ends == (f1, f0) else 0
        _judge_sense(r, m, f"Operation.{kind}: edge of a face of the operation", kind, det, direction, *axis_sign(fedge, kind))
        where = [j for j, e in enumerate(op.get("side_edges")) if e is side_spline]
        r.require(len(where) == 1, f"Operation.{kind}: the spline side edge is in {len(where)} slots afterwards")
        j = where[0]
        ends = (op.get("bottom_face").get("points")[j]._name, op.get("top_face").get("points")[j]._name)
        direction = 1 if ends == ("bottom.p3", "top.p3") else -1 if ends == ("top.p3", "bottom.p3") else 0
        _judge_order(r, m, f"Operation.{kind}: spline side edge", kind, direction, *spline_order(side_spline, kind))
    return r


def _run_sense(ev, m, args):
    try:
        ev.call_funcinfo(m, args)
    except Raised as err:
        raise AnalysisError(f"{m.qualname}: raised {err.exc_name} on the arc-sense model") from err
    except NotEvaluable as err:
        raise AnalysisError(f"{m.qualname} not evaluable on the arc-sense model: {err}") from err


def _judge_order(r, m, label, kind, direction, order, why):
    key = label.split(":")[0].strip() + ":" + label.split(":")[1].strip().replace(" ", "-")
    if order is None:
        raise AnalysisError(f"{label}: {why}")
    if order == 0:
        r.bad(m, f"{label}: after {kind}() {why}: the spline / polyLine of the transformed entity runs through points that are not the images of the original ones", m.node, key=key)
        return
    r.require(direction != 0, f"{label}: the edge does not connect its two original end points afterwards")
    r.check(
        order * direction == 1,
        m,
        f"{label}: points listed {'forwards' if order > 0 else 'backwards'}, edge traversed {'forwards' if direction > 0 else 'backwards'}",
        f"{label}: after {kind}() the edge runs {'from its original first to its second' if direction > 0 else 'from its original SECOND to its FIRST'} end point while its points are listed in the "
        f"{'original' if order > 0 else 'reversed'} order: a spline / polyLine lists its points from the first to the second vertex of the edge, so it is written tangled (running to the far end and back)",
        m.node,
        key=key,
    )


def _judge_sense(r, m, label, kind, det, direction, sign, why):
    key = label.split(":")[0].strip() + ":" + label.split(":")[1].strip().replace(" ", "-")
    if sign is None:
        raise AnalysisError(f"{label}: {why}")
    if sign == 0:
        r.bad(
            m,
            f"{label}: after {kind}() {why} (only its angle / nothing changes): the axis of an angle-and-axis arc is a direction of the entity and must be mapped with it - negating the angle equals reflecting "
            "the axis only when the mirror plane contains it; for any other plane the arc is written about a wrong axis, through a point off its circle",
            m.node,
            key=key,
        )
        return
    r.require(direction != 0, f"{label}: the edge does not connect its two original end points afterwards")
    got = sign * direction
    r.check(
        got == det,
        m,
        f"{label}: axis/angle sign {sign:+d} x traversal {direction:+d} = {got:+d} = det",
        f"{label}: after {kind}() the axis is {'+' if sign > 0 else '-'}Q(axis) (angle sign included) and the edge is traversed in the {'same' if direction > 0 else 'opposite'} direction, so the sense of rotation "
        f"is {got:+d} times the original one, but the image of an arc under a map of determinant {det:+d} turns {det:+d} times it: the arc of the transformed entity bulges to the other side of its chord than the "
        "transformed arc of the original entity",
        m.node,
        key=key,
    )


arc_sense.rule_id = "C09.ARC-SENSE"

def live_lengths(repo: Repo) -> RuleRun:
    """'edge lengths (scaled by the ratio)': lengths follow the points through scale(); none is remembered from construction."""
    from ..transforms import length_snapshot_rule

    return length_snapshot_rule(repo, PROP, "C09.LIVE-LENGTHS")


live_lengths.rule_id = "C09.LIVE-LENGTHS"

def private_coordinates(repo: Repo) -> RuleRun:
    """'transformation helpers do not modify the arrays passed to them' - nor keep them: coordinates handed to an entity are stored as private copies. Same rule as C12.BACKPORT-OWNS-POINTS."""
    from ..report import rebrand
    from . import c12

    return rebrand(c12.backport_owns_points(repo), PROP, "C09.PRIVATE-COORDINATES")


private_coordinates.rule_id = "C09.PRIVATE-COORDINATES"

def live_arrays(repo: Repo) -> RuleRun:
    """'transforming an entity equals transforming its output': a curve reads its points through the array object that transformations re-bind, never through a snapshot of its storage. Same rule as C16.STALE-ALIAS."""
    from ..report import rebrand
    from . import c16

    return rebrand(c16.stale_alias(repo), PROP, "C09.LIVE-ARRAYS")


live_arrays.rule_id = "C09.LIVE-ARRAYS"

def displacement_copied(repo: Repo) -> RuleRun:
    """'translating ... any entity ... gives the same vertices as applying that map to the geometry': also when the vector is one of the entity's own positions."""
    from ..transforms import loop_alias_rule

    return loop_alias_rule(repo, PROP, "C09.DISPLACEMENT-COPIED")


displacement_copied.rule_id = "C09.DISPLACEMENT-COPIED"


def average_axis(repo: Repo) -> RuleRun:
    """'center' of composite entities (the default origin of rotate / scale) is a point: an average over a collection of points keeps
    the coordinate axis. np.average / np.mean without ``axis`` collapses a list of vectors to ONE number, and an origin given
    as a number is broadcast to (c, c, c). Every average over point collections in the package is examined (siblings agree)."""
    r = RuleRun(PROP, "C09.AVERAGE-AXIS", floor=12, what="every np.average / np.mean over a collection of points or vectors keeps the coordinate axis (axis=...), so centres are points, not single numbers")
    nth = {}
    for fn in sorted(repo.all_functions(), key=lambda f: f.qualname):
        for c in ast.walk(fn.node):
            if isinstance(c, ast.Call) and (attr_chain(c.func) or "") in ("np.average", "np.mean", "numpy.average", "numpy.mean", "np.median", "numpy.median") and c.args:
                has_axis = any(k.arg == "axis" for k in c.keywords) or len(c.args) >= 2
                k = nth.get(fn.qualname, 0)
                nth[fn.qualname] = k + 1
                r.check(
                    has_axis,
                    fn,
                    f"'{ast.unparse(c)[:60]}' keeps the coordinate axis",
                    f"{fn.qualname}: '{ast.unparse(c)[:80]}' averages a collection of points without an axis argument: the result is one number (the mean of all coordinates), not a point - used as an origin it is broadcast to (c, c, c), "
                    "so rotate() / scale() without an explicit origin turn about a meaningless point",
                    c,
                    key=f"average#{k}",
                )
    return r


average_axis.rule_id = "C09.AVERAGE-AXIS"

def unit_axis(repo: Repo) -> RuleRun:
    """'scaling ... gives the same ... edge shapes (scaled by the ratio)': a scaled circle is a circle."""
    from ..affine import unit_axis_rule

    return unit_axis_rule(repo, PROP, "C09.UNIT-AXIS")


unit_axis.rule_id = "C09.UNIT-AXIS"

def mirror_sense(repo: Repo) -> RuleRun:
    """A circle curve is parametrised by an angle about its normal, so it has a sense of rotation, and a reflection reverses it: the
    mirror image of get_point(t) is the point at the SAME parameter only if the mirrored curve turns about -M(normal). CircleCurve
    keeps its normal as the difference of two points; its mirror() is run over exact rational points and a rational plane, then
    origin and rim must be the reflected points and the normal must be the reflected normal with the opposite sign (C09.ARC-SENSE
    for curves: otherwise a clipped circle - an arc - is mirrored to the arc on the other side of its rim point)."""
    from fractions import Fraction

    from .. import exact
    from ..peval import NotEvaluable, Obj, Raised

    r = RuleRun(PROP, "C09.MIRROR-SENSE", floor=4, what="CircleCurve.mirror reflects origin and rim and turns the normal into -M(normal), so that equal parameters give mirrored points (exact rational evaluation)")
    cls = repo.cls("construct.curves.analytic.CircleCurve")
    mir = repo.find_method(cls, "mirror")
    point_cls = repo.cls("construct.point.Point")
    r.require(mir is not None, "CircleCurve.mirror vanished")

    def reflect(p, n, o):
        nn = sum(x * x for x in n)
        d = sum((Fraction(a) - Fraction(b)) * c_ for a, b, c_ in zip(p, o, n))
        return tuple(Fraction(p[i]) - 2 * d * n[i] / nn for i in range(3))

    for n_, o_ in (((2, 3, 6), (0, 0, 0)), ((1, 4, 8), (Fraction(1, 5), 0, -2)), ((0, 0, 5), (0, 0, 1)), ((-4, 4, 7), (3, 1, 0))):
        origin, rim, normal = (1, 1, Fraction(3, 10)), (2, 1, Fraction(3, 10)), (0, 0, 1)
        curve = Obj("curve", cls=cls)
        for nm, pos in (("origin", origin), ("rim", rim), ("atop", tuple(Fraction(a) + b for a, b in zip(origin, normal)))):
            pt = Obj(nm, cls=point_cls)
            pt.set("position", exact.vec(*pos))
            pt.set("projected_to", [])
            curve.set(nm, pt)
        curve.set("bounds", (0, 1))
        try:
            exact.evaluator(repo, mir.module).call_funcinfo(mir, [curve, exact.vec(*n_), exact.vec(*o_)])
        except Raised as err:
            r.bad(mir, f"CircleCurve.mirror raises {err.exc_name} on the exact model", mir.node, key=f"plane:{n_}")
            continue
        except NotEvaluable as err:
            raise AnalysisError(f"CircleCurve.mirror not evaluable over exact rational vectors (normal {n_}): {err}") from err
        o2, r2, a2 = (curve.get(k).get("position") for k in ("origin", "rim", "atop"))
        want_o, want_r = exact.vec(*reflect(origin, n_, o_)), exact.vec(*reflect(rim, n_, o_))
        mn = tuple(a - b for a, b in zip(reflect(tuple(Fraction(a) + b for a, b in zip(origin, normal)), n_, o_), reflect(origin, n_, o_)))  # M(normal)
        problems = []
        if not exact.same(o2, want_o) or not exact.same(r2, want_r):
            problems.append("origin / rim are not the reflected points")
        got_n = a2 - o2 if isinstance(a2, exact.Vec) and isinstance(o2, exact.Vec) else None
        if got_n is None or not exact.same(got_n, exact.vec(*[-x for x in mn])):
            same_sign = got_n is not None and exact.same(got_n, exact.vec(*mn))
            problems.append("the normal is +M(normal): the reflected curve is traversed the other way round, equal parameters give points on opposite sides of the rim point" if same_sign else "the normal is not -M(normal)")
        r.check(not problems, mir, f"plane normal {n_}: origin, rim reflected, normal -> -M(normal)", f"CircleCurve.mirror, plane normal {n_} through {tuple(str(x) for x in o_)}: " + "; ".join(problems), mir.node, key=f"plane:{n_}")
    return r


mirror_sense.rule_id = "C09.MIRROR-SENSE"

def angle_axis_exact(repo: Repo, prop: str = PROP, rule: str = "C09.ANGLE-AXIS-EXACT") -> RuleRun:
    """The axis of an angle-and-axis arc is a direction with a sense of rotation (an axial vector): under a reflection in a plane
    with normal n - of ANY length - it becomes -M(axis), M the reflection; under a scaling by any ratio, negative ones included
    (a point reflection: det = -1, Q(axis) = -axis, so det * Q(axis) = axis), it stays as it is; its length is never changed.
    Angle.mirror and Angle.scale are run over exact rational axes and normals (unit and non-unit) and compared with that."""
    from fractions import Fraction

    from .. import exact
    from ..peval import NotEvaluable, Obj, Raised

    r = RuleRun(prop, rule, floor=8, what="Angle.mirror turns the axis into -M(axis) for unit and non-unit plane normals; Angle.scale leaves it alone for positive and negative ratios (exact rational evaluation)")
    cls = repo.cls("construct.edges.Angle")
    vec_cls = repo.cls("construct.point.Vector")

    def fresh(axis):
        e = Obj("angle-edge", cls=cls)
        e.set("angle", 1)
        v = Obj("axis", cls=vec_cls)
        v.set("position", exact.vec(*axis))
        v.set("projected_to", [])
        e.set("axis", v)
        return e

    def run(method, edge, args):
        fn = repo.find_method(cls, method)
        if fn is None:
            raise AnalysisError(f"Angle.{method} vanished")
        try:
            exact.evaluator(repo, fn.module).call_funcinfo(fn, [edge, *args])
        except Raised as err:
            return f"raises {err.exc_name}"
        except NotEvaluable as err:
            raise AnalysisError(f"Angle.{method} not evaluable over exact rational vectors: {err}") from err
        return None

    def _show(v):
        try:
            return tuple(str(exact.value(x)) for x in v.c)
        except Exception:  # noqa: BLE001
            return repr(v)

    axis = (Fraction(2, 7), Fraction(3, 7), Fraction(6, 7))
    for n_ in ((0, 0, 1), (3, 4, 0), (0, 2, 0), (2, 3, 6), (Fraction(1, 9), Fraction(4, 9), Fraction(8, 9))):
        e = fresh(axis)
        err = run("mirror", e, [exact.vec(*n_), exact.vec(5, -1, 2)])
        nn = sum(Fraction(x) * x for x in n_)
        d = sum(Fraction(a) * b for a, b in zip(axis, n_))
        want = tuple(-(Fraction(a) - 2 * d * Fraction(b) / nn) for a, b in zip(axis, n_))
        got = e.get("axis").get("position")
        r.check(
            err is None and isinstance(got, exact.Vec) and exact.same(got, exact.vec(*want)),
            repo.find_method(cls, "mirror"),
            f"mirror, plane normal {tuple(str(x) for x in n_)}: axis -> -M(axis)",
            f"Angle.mirror with plane normal {tuple(str(x) for x in n_)} (length {'1' if nn == 1 else 'not 1'}) " + (err or f"turns the axis {tuple(str(x) for x in axis)} into {_show(got)}; -M(axis) is {tuple(str(x) for x in want)}")
            + ": a mirror plane given by a normal that is not of unit length - [1,1,0], the cross product of two edges - leaves an axis that is neither the reflected one nor of unit length, and the arc is written on the wrong circle",
            repo.find_method(cls, "mirror").node,
            key=f"mirror:{tuple(str(x) for x in n_)}",
        )
    for ratio in (2, Fraction(1, 3), -1, -2, Fraction(-1, 2)):
        e = fresh(axis)
        err = run("scale", e, [exact.c(ratio), exact.vec(1, 2, 3)])
        got = e.get("axis").get("position")
        r.check(
            err is None and isinstance(got, exact.Vec) and exact.same(got, exact.vec(*axis)),
            repo.find_method(cls, "scale"),
            f"scale by {ratio}: axis unchanged",
            f"Angle.scale by {ratio} " + (err or f"turns the axis {tuple(str(x) for x in axis)} into {_show(got)}") + ": a scaling - also by a negative ratio, a point reflection, which maps the arc's end points through the origin AND "
            "reverses nothing about its sense of rotation as seen along the axis - leaves the axis of an angle edge as it is",
            repo.find_method(cls, "scale").node,
            key=f"scale:{ratio}",
        )
    return r


angle_axis_exact.rule_id = "C09.ANGLE-AXIS-EXACT"


def geometry_role_free(repo: Repo) -> RuleRun:
    """'mirroring any entity ... gives the same ... as applying that map to the geometry produced by the untransformed entity' - the declared searchable surface included. Same rule as C06.GEOMETRY-ROLE-FREE."""
    from . import c06

    return c06.geometry_role_free(repo, PROP, "C09.GEOMETRY-ROLE-FREE")


geometry_role_free.rule_id = "C09.GEOMETRY-ROLE-FREE"

def applied_once(repo: Repo) -> RuleRun:
    """'transforming an entity ... maps every dependent quantity consistently': a number the entity carries (side lengths, widths) is scaled once."""
    from ..initchain import applied_once_rule

    return applied_once_rule(repo, PROP, "C09.APPLIED-ONCE", floor=2)


applied_once.rule_id = "C09.APPLIED-ONCE"


def shear_unit_direction(repo: Repo, prop: str = PROP, rule: str = "C09.SHEAR-UNIT-DIRECTION") -> RuleRun:
    """'shearing an entity maps every dependent quantity consistently': a shear moves a point along `direction` by distance /
    tan(angle) - a LENGTH, so the direction it is multiplied with is the unit vector of the argument. Corners (Point.shear) and the
    points of spline / polyLine edges (Array.shear) are siblings: with a non-unit direction they must move by the same amount, or
    the edge leaves its face. In every shear method that itself moves coordinates along its `direction` parameter, the value
    multiplied with the amount is a unit_vector(...) on every path (flow-sensitive over the statements of the method)."""
    r = RuleRun(prop, rule, floor=2, what="every shear() that moves coordinates along its direction argument normalises that direction first (Point and Array agree for non-unit directions)")
    n = 0
    for fn in sorted(repo.all_functions(), key=lambda f_: f_.qualname):
        if fn.name != "shear" or fn.cls is None or "direction" not in fn.params:
            continue
        uses = [b for b in ast.walk(fn.node) if isinstance(b, ast.BinOp) and isinstance(b.op, ast.Mult) and any(isinstance(x, ast.Name) and x.id == "direction" for x in (b.left, b.right))]
        if not uses:
            continue  # delegates to its parts
        n += 1
        unit = set()
        verdict = {}

        def visit(body):
            for st in body:
                for b in uses:
                    if any(b is x for x in ast.walk(st)) and not isinstance(st, (ast.For, ast.While, ast.If, ast.With, ast.Try)):
                        verdict[id(b)] = "direction" in unit
                if isinstance(st, ast.Assign) and len(st.targets) == 1 and isinstance(st.targets[0], ast.Name):
                    v = st.value
                    is_unit = isinstance(v, ast.Call) and (attr_chain(v.func) or "").split(".")[-1] == "unit_vector"
                    is_unit = is_unit or (isinstance(v, ast.BinOp) and isinstance(v.op, ast.Div) and isinstance(v.right, ast.Call) and (attr_chain(v.right.func) or "").split(".")[-1] == "norm")
                    if is_unit:
                        unit.add(st.targets[0].id)
                    else:
                        unit.discard(st.targets[0].id)
                for sub in ("body", "orelse", "finalbody"):
                    inner = getattr(st, sub, None)
                    if isinstance(inner, list) and inner and isinstance(inner[0], ast.stmt) and not isinstance(st, (ast.FunctionDef, ast.ClassDef)):
                        visit(inner)

        visit(fn.node.body)
        bad = [b for b in uses if not verdict.get(id(b), False)]
        r.check(
            not bad,
            fn,
            f"{fn.qualname}: moves along unit_vector(direction)",
            f"{fn.qualname} moves coordinates by '{ast.unparse(bad[0])[:60] if bad else ''}' with the direction as it was passed in: a non-unit direction scales the shear by its length - the points of spline / polyLine edges "
            "and the corners of the same face (its sibling normalises) move by different amounts and the edge no longer lies on its face",
            bad[0] if bad else fn.node,
            key="unit-direction",
        )
    r.require(n >= 2, f"only {n} shear methods that move coordinates found")
    return r


shear_unit_direction.rule_id = "C09.SHEAR-UNIT-DIRECTION"


def length_direction(repo: Repo) -> RuleRun:
    """'edge lengths (scaled by the ratio)' - also of an edge that runs against its curve after a mirror / invert: the length between two parameters does not depend on their order. Same rule as C07.LENGTH-DIRECTION."""
    from ..report import rebrand
    from . import c07

    return rebrand(c07.length_direction(repo), PROP, "C09.LENGTH-DIRECTION")


length_direction.rule_id = "C09.LENGTH-DIRECTION"


def remembered_points_current(repo: Repo, prop: str = PROP, rule: str = "C09.REMEMBERED-POINTS-CURRENT") -> RuleRun:
    """'... gives the same vertex positions, arc points ... (and declared geometry) as applying that map to the untransformed
    entity': a shape that remembers the points defining its searchable surface (so that a mirror cannot swap them away) must
    remember points of the lofts it ENDS UP with - a constructor that replaces self.lofts after the inherited constructor
    remembered the points of the first set keeps points that are never transformed: centre and radius of the declared sphere stay
    where the shape was created. On every path of every constructor, an assignment to self.lofts is followed by _remember_points."""
    from ..cfg import CFG

    r = RuleRun(prop, rule, floor=2, what="every constructor that (re)assigns self.lofts of a shape with remembered defining points calls _remember_points afterwards on every path")
    n = 0
    for cls in sorted(repo.classes.values(), key=lambda c: c.qualname):
        if repo.find_method(cls, "_remember_points") is None:
            continue
        fn = cls.methods.get("__init__")
        if fn is None:
            continue
        g = CFG(fn.node)
        me = fn.params[0]
        stores = [n_ for n_ in g.stmt_nodes() if isinstance(n_.stmt, ast.Assign) and any(isinstance(t, ast.Attribute) and t.attr == "lofts" and attr_chain(t.value) == me for t in n_.stmt.targets)]
        for k, node in enumerate(stores):
            n += 1
            ok, path = g.must_pass(node, g.exit_return, lambda x: x is not node and x.kind == "stmt" and any(isinstance(c, ast.Call) and isinstance(c.func, ast.Attribute) and c.func.attr == "_remember_points" for c in ast.walk(x.stmt)))
            r.check(
                ok,
                fn,
                f"{cls.name}.__init__: lofts assigned at line {node.stmt.lineno}, points remembered afterwards",
                f"{cls.name}.__init__ replaces self.lofts (line {node.stmt.lineno}) and can return without calling _remember_points again: the remembered centre / surface point belong to lofts that were thrown away and are "
                "never transformed - after translate / rotate / scale / mirror the shape's geometry (searchableSphere), center and radius still describe the place where it was created",
                node.stmt,
                key=f"{cls.name}:lofts#{k}",
            )
    r.require(n >= 2, f"only {n} assignments of self.lofts in constructors of shapes with remembered points")
    return r


remembered_points_current.rule_id = "C09.REMEMBERED-POINTS-CURRENT"


def shear_sign(repo: Repo, prop: str = PROP, rule: str = "C09.SHEAR-SIGN") -> RuleRun:
    """A shear by an angle beyond a right angle (or a negative one) slants the other way: the SIGN of tan(angle) must reach the
    displacement. If every use of `angle` in a shear method that moves coordinates sits under an even function (abs, a square,
    cos), shear(angle) == shear(pi - angle): the outer mitre of an L joint is cut like the inner one and the two branches no
    longer share their vertices (parity as an information-flow fact, same device as C08.SIGN-FLOWS)."""
    from ..model import parent as _parent
    from .c08 import EVEN

    r = RuleRun(prop, rule, floor=2, what="in every shear() that moves coordinates the sign of tan(angle) reaches the displacement (not every use of `angle` is under an even function)")
    n = 0
    for fn in sorted(repo.all_functions(), key=lambda f_: f_.qualname):
        if fn.name != "shear" or fn.cls is None or "angle" not in fn.params or "direction" not in fn.params:
            continue
        if not any(isinstance(b, ast.BinOp) and isinstance(b.op, ast.Mult) and any(isinstance(x, ast.Name) and x.id == "direction" for x in (b.left, b.right)) for b in ast.walk(fn.node)):
            continue
        n += 1
        uses = []
        for x in ast.walk(fn.node):
            if isinstance(x, ast.Name) and x.id == "angle" and isinstance(x.ctx, ast.Load):
                even = False
                p_ = x
                while p_ is not None and p_ is not fn.node:
                    q = _parent(p_)
                    if isinstance(q, ast.Call) and any(p_ is a for a in q.args) and (attr_chain(q.func) or "").split(".")[-1] in EVEN:
                        even = True
                    if isinstance(q, ast.BinOp) and isinstance(q.op, ast.Pow) and p_ is q.left and isinstance(q.right, ast.Constant) and q.right.value in (2, 4):
                        even = True
                    p_ = q
                uses.append((x, even))
        r.require(bool(uses), f"{fn.qualname} does not use its angle")
        odd = [u for u in uses if not u[1]]
        r.check(
            bool(odd),
            fn,
            f"{fn.qualname}: {len(odd)} use(s) of `angle` keep its sign",
            f"{fn.qualname}: every use of `angle` is under an even function ({', '.join(sorted({ast.unparse(_parent(_parent(u[0])))[:40] for u in uses}))}): the displacement cannot depend on the sign of tan(angle), "
            "so a shear by an angle beyond 90 degrees (the outer mitre of an L joint: half-angles 3pi/4 and -pi/4) slants the face like the inner one and the branches of the joint do not share their common vertices",
            uses[0][0],
            key="angle-sign",
        )
    r.require(n >= 2, f"only {n} shear methods that move coordinates found")
    return r


shear_sign.rule_id = "C09.SHEAR-SIGN"



def no_memo(repo: Repo) -> RuleRun:
    """'transforming an entity ... about its default origin': the default origin is the entity's centre as it is NOW - nothing in the construct package memoises a view of state that a later transformation changes. Same rule body as C03.NO-MEMO."""
    from ..memo import memo_rule

    return memo_rule(repo, PROP, "C09.NO-MEMO", ("construct.", "base."), floor=0)


no_memo.rule_id = "C09.NO-MEMO"



def direction_length(repo: Repo) -> RuleRun:
    """'linked vertices keep their ... mirror relation to their leader' / 'mirroring any entity ...': a mirror plane is given by a direction - its normal at any length. Shared rule (affine.direction_length_rule)."""
    from ..affine import direction_length_rule

    return direction_length_rule(repo, PROP, "C09.DIRECTION-LENGTH")


direction_length.rule_id = "C09.DIRECTION-LENGTH"


RULES = [arc_sense, purity, no_alias_store, affine_balance, unit_normal, direction_parts, transform_equals_methods, transform_routing, linear_parts, deep_copy, mirror_matrix, no_shared_parts, arguments_untouched, super_forwarding, inplace_then_read, invalidate_last, live_lengths, private_coordinates, live_arrays, displacement_copied, average_axis, unit_axis, mirror_sense, geometry_role_free, applied_once, shear_unit_direction, length_direction, remembered_points_current, shear_sign, angle_axis_exact, no_memo, direction_length]

"""C11 - predefined shapes give right-handed, conformal, fully choppable blockings."""

from __future__ import annotations

import ast
import re
from typing import Any, Dict, List, Optional, Set, Tuple

from .. import hexa, quads, sketches
from ..model import AnalysisError, ClassInfo, FuncInfo, Repo, attr_chain, parent, walk_shallow
from ..peval import NO_MATCH, Evaluator, NotEvaluable, Obj, Raised, Sym
from ..report import RuleRun

PROP = "C11"
TITLE = "Predefined shapes give right-handed, conformal, fully choppable blockings"
DECIDES = (
    "every literal quad_map (8 sketches) is a manifold, consistently oriented quad complex - interior edges traversed in opposite "
    "directions by their two quads, so all lofts have the same handedness - using all points, and its grid tiers partition the "
    "faces (C11.QUAD-MAP); for every such sketch the (face, axis) families induced by shared edges are each hit by the chop list "
    "that LoftedShape.chop applies to operations in grid order, and no family is hit from both the axis-0 and the axis-1 list "
    "(C11.CHOP-COVERAGE, exhaustive union-find); merged spline sketches address, in grid order, only faces whose quarter-local "
    "role is chopped by the base quarter sketch for that axis (C11.CHOP-ROLE); shell quads are laid out inner,outer,outer,inner "
    "along the fan so that axis 0 is radial, axis 1 tangential and the outer arc/outer patch sit on face edge 1 "
    "(C11.RADIAL-CONVENTION); chain/expand/contract/fill take centre, radius point and normal from one and the same sketch, "
    "negate the length only when starting from the start face and reject negative lengths (C11.CHAIN-SOURCE)."
    ' the angle between quarter normals is computed with a clipped cosine (C11.TRIG-DOMAIN); Cylinder.fill accepts a ring iff it has as many segments as the filling sketch has outer faces (C11.FILL-CONFORMAL); the sign of a sector angle reaches the arc centre (C11.ARC-SIDE = C08.SIGN-FLOWS).'
    ' Axes and directions handed to constructors are vectors, not positions (C11.AFFINE-KINDS); TransformedStack tiers are chained start/mid/end from their own start sketch (C11.STACK-CHAIN); one Angle record per side edge (C11.NO-SHARED-PARTS).'
    " Origin arcs of the round sketches join two neighbouring points of one generated ring, are centred at that ring's pattern centre, and a ring that is round is round on every segment (C11.ARC-RINGS); every face is moved once (C11.MOVED-ONCE); transform() scales all parts about one origin fixed beforehand (C11.TRANSFORM-ROUTING)."
    ' Every chain() reverses exactly one direction quantity in its start-face branch (part of C11.CHAIN-SOURCE); product terms of the spline-round constructors combine quantities of one axis (C11.AXIS-TERMS); the reflection matrix (C11.MIRROR-MATRIX); constructors do not transform the entities they are handed (C11.ARGUMENTS-UNTOUCHED).'
)
NOT_DECIDED = (
    "Jacobians/handedness in space and arcs on the circle (geometry); the merged topology of Half/Spline Disk/Ring sketches "
    "(arises from geometric coincidence in MappedSketch.merge at run time) beyond the role rule; which cusp cylinders of the joints touch."
)
ASSUMPTIONS = [
    "LoftedShape.chop applies sketch_1.chops[axis] to self.operations, which follow sketch.grid order (checked by C19.GRID-ROLES)",
    "face edges 0,2 run along axis 0 and edges 1,3 along axis 1 of the lofted block (Operation.edges / AXIS_PAIRS, checked under C01/C07)",
]


def quad_map_rule(repo: Repo) -> RuleRun:
    r = RuleRun(PROP, "C11.QUAD-MAP", floor=24, what="orientation, manifoldness, point usage and grid partition of every literal quad_map")
    r.exhaustive = True
    classes = sketches.sketch_classes_with_quad_map(repo)
    r.require(len(classes) >= 8, f"expected at least 8 sketches with a literal quad_map, found {[c.name for c in classes]}")
    total = 0
    for cls in classes:
        qm = sketches.literal_quad_map(repo, cls)
        total += len(qm)
        problems, stats = quads.orientation_report(qm)
        r.check(not problems, cls, f"{stats}", f"{cls.name}.quad_map: " + "; ".join(problems), cls.methods["__init__"].node, key="orientation")
        # every position handed to MappedSketch is used by a quad and no quad points beyond them
        n_pos = None
        if repo.cls("construct.flat.sketches.disk.DiskBase") in repo.mro(cls):
            n_pos = len(_positions_layout(repo, cls)[0])
        else:
            n_pos = sketches.positions_literal_len(cls.methods["__init__"])
        r.require(n_pos is not None, f"{cls.name}: number of positions not derivable")
        used = {i for q in qm for i in q}
        r.check(used == set(range(n_pos)), cls, f"{n_pos} positions, all used", f"{cls.name}.quad_map uses point indexes {sorted(used - set(range(n_pos)))} beyond the {n_pos} positions / never uses {sorted(set(range(n_pos)) - used)}", cls.methods["__init__"].node, key="positions")
        faces = [Sym(f"f{i}") for i in range(len(qm))]
        grid = sketches.eval_grid(repo, cls, faces)
        flat = [repr(f) for tier in grid for f in tier]
        r.check(sorted(flat) == sorted(repr(f) for f in faces), cls, f"grid tiers {[len(t) for t in grid]} partition the {len(qm)} faces", f"{cls.name}.grid does not contain every face exactly once: {flat}", key="grid-partition")
    r.note(f"{len(classes)} quad maps / {total} quads")
    return r


quad_map_rule.rule_id = "C11.QUAD-MAP"


def grid_order(repo: Repo, cls: ClassInfo, n: int) -> List[int]:
    faces = [Sym(f"f{i}") for i in range(n)]
    grid = sketches.eval_grid(repo, cls, faces)
    return [int(repr(f)[1:]) for tier in grid for f in tier]


def chop_coverage(repo: Repo) -> RuleRun:
    r = RuleRun(PROP, "C11.CHOP-COVERAGE", floor=8, what="every (face, axis) family of a literal sketch is chopped by the list LoftedShape.chop applies; no family from two lists")
    r.exhaustive = True
    for cls in sketches.sketch_classes_with_quad_map(repo):
        qm = sketches.literal_quad_map(repo, cls)
        chops = sketches.chops_of(repo, cls)
        order = grid_order(repo, cls, len(qm))
        uncovered, multiple, bad = quads.chop_coverage(qm, chops, order)
        conflicts = [(fam, hits) for fam, hits in multiple if len({a for a, _ in hits}) > 1]
        problems = []
        if bad:
            problems.append(f"chop indexes out of range: {bad}")
        for fam in uncovered:
            problems.append(f"no chop reaches the edge family of (face, axis) {fam}: writing a shape lofted from this sketch chopped on axes 0,1,2 fails with UndefinedGradingsError")
        for fam, hits in conflicts:
            problems.append(f"family {fam} is chopped from both lists {hits}: chop(0, ...) and chop(1, ...) with different counts conflict")
        r.check(not problems, cls, f"chops {chops}: {len(quads.families(qm))} families covered", f"{cls.name}.chops = {chops}: " + "; ".join(problems), key="chops")
    return r


chop_coverage.rule_id = "C11.CHOP-COVERAGE"


def chop_role(repo: Repo) -> RuleRun:
    r = RuleRun(PROP, "C11.CHOP-ROLE", floor=4, what="merged sketches: chop indexes (grid order) address faces whose quarter-local index the base sketch chops for that axis")
    r.require(sketches.merge_appends_in_order(repo), "MappedSketch.merge no longer appends the other sketch's faces after its own in order")
    for cls in sketches.merged_sketch_classes(repo):
        roles = sketches.face_roles(repo, cls)
        n = len(roles)
        order = grid_order(repo, cls, n)
        chops = sketches.chops_of(repo, cls)
        base = repo.cls(roles[0][0])
        base_chops = sketches.chops_of(repo, base)
        problems = []
        for axis in (0, 1):
            for i in chops[axis] if axis < len(chops) else []:
                if not (0 <= i < n):
                    problems.append(f"axis {axis}: index {i} out of range ({n} operations)")
                    continue
                bname, local, role = roles[order[i]]
                if local not in base_chops[axis]:
                    problems.append(
                        f"axis {axis}: index {i} addresses operation {i} = face {order[i]} (face {local} of its {bname}, a {role} face), "
                        f"but {bname} chops faces {base_chops[axis]} for this axis - the list is written against sketch.faces order, not grid order"
                    )
        r.check(not problems, cls, f"chops {chops} address quarter-local faces chopped by {base.name}", f"{cls.name}.chops = {chops}: " + "; ".join(problems), key="chops")
    return r


chop_role.rule_id = "C11.CHOP-ROLE"


# --------------------------------------------------------------------------------------------
def _positions_layout(repo: Repo, cls: ClassInfo):
    """Abstractly evaluates the sketch constructor up to super().__init__(positions, quad_map);
    returns the list of point tags (group, angular index)."""
    init = cls.methods["__init__"]
    captured: Dict[str, Any] = {}

    class Done(Exception):
        pass

    counter = {"n": 0}

    def hook(ev: Evaluator, call: ast.Call, name):
        nm = (name or "").split(".")[-1]
        if name in ("np.linspace", "numpy.linspace"):
            num = None
            for kw in call.keywords:
                if kw.arg == "num":
                    num = ev.eval(kw.value)
            if num is None and len(call.args) >= 3:
                num = ev.eval(call.args[2])
            if not isinstance(num, int):
                raise NotEvaluable("linspace without literal num")
            return [Sym(f"angle{i}") for i in range(num)]
        if nm == "FanPattern":
            counter["n"] += 1
            pat_obj = Obj(f"pattern{counter['n']}")
            pat_obj.set("center_arg", ev.eval(call.args[0]) if call.args else None)
            captured.setdefault("patterns", {})[pat_obj._name] = pat_obj
            return pat_obj
        if isinstance(call.func, ast.Attribute) and call.func.attr in ("get_inner_points", "get_outer_points"):
            pat = ev.eval(call.func.value)
            angles = ev.eval(call.args[0])
            counter["n"] += 1
            kind = "inner" if call.func.attr == "get_inner_points" else "outer"
            return [(f"{kind}#{counter['n']}", pat._name, i) for i in range(len(angles))]
        if isinstance(call.func, ast.Attribute) and call.func.attr == "__init__" and isinstance(call.func.value, ast.Call) and attr_chain(call.func.value.func) == "super":
            captured["positions"] = ev.eval(call.args[0])
            captured["quad_map"] = ev.eval(call.args[1])
            raise Done()
        if name in ("np.array", "np.asarray", "numpy.array", "numpy.asarray") and call.args:
            return ev.eval(call.args[0])
        if name and name.split(".")[0] in ("np", "numpy", "f"):
            return Sym(f"geom:{nm}")
        return NO_MATCH

    this = Obj("sketch", cls=cls)
    ev = Evaluator(repo=repo, module=init.module, call_hook=hook)
    ev.opaque_arith = True
    # geometry-valued attributes of the class are irrelevant for the layout
    for attr in ("diagonal_ratio", "core_ratio"):
        this.set(attr, Sym(attr))
    args = {p: Sym(p) for p in init.params[1:]}
    try:
        ev.run_function(init.node, {"self": this, **args}, module=init.module, closure=False)
    except Done:
        pass
    except (NotEvaluable, Raised) as err:
        raise AnalysisError(f"{cls.qualname}.__init__: positions layout not evaluable: {err}") from err
    if "positions" not in captured:
        raise AnalysisError(f"{cls.qualname}.__init__: super().__init__(positions, quad_map) not reached")
    _LAYOUT_PATTERNS[cls.qualname] = captured.get("patterns", {})
    return captured["positions"], captured["quad_map"]


def radial_convention(repo: Repo) -> RuleRun:
    r = RuleRun(PROP, "C11.RADIAL-CONVENTION", floor=30, what="shell quads are inner,outer,outer,inner along the fan; arc and outer patch on face edge 1")
    r.exhaustive = True
    disk_base = repo.cls("construct.flat.sketches.disk.DiskBase")
    n_shell = 0
    for cls in sketches.sketch_classes_with_quad_map(repo):
        if disk_base not in repo.mro(cls):
            continue
        positions, qm = _positions_layout(repo, cls)
        # layer rank of a point: centre 0; the k-th get_inner_points call on a pattern k+1; outer points 100
        # (points generated for different patterns - the two fans of an Oval - share ranks)
        per_pattern: Dict[Tuple[str, str], List[str]] = {}
        for p in positions:
            if isinstance(p, tuple):
                kind = p[0].split("#")[0]
                calls_ = per_pattern.setdefault((kind, p[1]), [])
                if p[0] not in calls_:
                    calls_.append(p[0])
        tag = []
        for p in positions:
            if not isinstance(p, tuple):
                tag.append((0, None, None))
                continue
            kind = p[0].split("#")[0]
            k = per_pattern[(kind, p[1])].index(p[0])
            tag.append(((1 + k) if kind == "inner" else 100 + k, p[1], p[2]))
        faces = [Sym(f"f{i}") for i in range(len(qm))]
        grid = sketches.eval_grid(repo, cls, faces)
        for t, tier in enumerate(grid):
            if t == 0:
                continue
            for f in tier:
                qi = int(repr(f)[1:])
                q = qm[qi]
                n_shell += 1
                g = [tag[i][0] for i in q]
                ang = [tag[i][2] for i in q]
                pat = [tag[i][1] for i in q]
                lay_ok = g[0] == g[3] and g[1] == g[2] and g[1] > g[0]
                fan_ok = ang[0] == ang[1] and ang[3] == ang[2] and pat[0] == pat[1] and pat[2] == pat[3]
                step_ok = True
                if pat[1] == pat[2] and ang[1] is not None:
                    count = max(a for (gg, pp, a) in tag if pp == pat[1] and gg == g[1] and a is not None) + 1
                    step_ok = ang[2] in ((ang[1] + 1) % count, ang[1] + 1)
                r.check(
                    lay_ok and fan_ok and step_ok,
                    cls,
                    f"quad {qi} {q}: inner,outer,outer,inner",
                    f"{cls.name} shell quad {qi} = {q}: point layers {g}, fan indexes {ang}; a shell quad must be (inner_i, outer_i, outer_i+1, inner_i+1) "
                    "so that block axis 0 is radial, axis 1 tangential and face edge 1 is the outer arc",
                    key=f"quad{qi}",
                )
    r.require(n_shell >= 30, f"only {n_shell} shell quads examined")
    # the arcs and the outer patch sit on face edge 1
    add_edges = repo.func("construct.flat.sketches.disk.DiskBase.add_edges")
    idx = [ast.literal_eval(c.args[0]) for c in ast.walk(add_edges.node) if isinstance(c, ast.Call) and isinstance(c.func, ast.Attribute) and c.func.attr == "add_edge" and c.args and isinstance(c.args[1], ast.Call) and attr_chain(c.args[1].func) == "Origin"]
    r.check(idx == [1], add_edges, "Origin arc on face edge 1 of the outermost tier", f"DiskBase.add_edges puts the outer arc on face edge(s) {idx}; the outer points of a shell quad are 1 and 2 (edge 1)", add_edges.node, key="arc-edge")
    rss = repo.cls("construct.shapes.round.RoundSolidShape")

    def cv(name):
        v = repo.class_var(rss, name)
        return ast.literal_eval(v[0]) if v is not None else None

    r.check(cv("outer_patch") == hexa.face_edge_side(1), rss, "outer_patch = side over face edge 1", f"RoundSolidShape.outer_patch = {cv('outer_patch')!r}; the side above face edge 1 (outer arc) is '{hexa.face_edge_side(1)}'", key="outer_patch")
    r.check((cv("radial_axis"), cv("tangential_axis"), cv("axial_axis")) == (0, 1, 2), rss, "radial=0 tangential=1 axial=2", f"RoundSolidShape axes are radial={cv('radial_axis')} tangential={cv('tangential_axis')} axial={cv('axial_axis')}", key="axes")
    return r


radial_convention.rule_id = "C11.RADIAL-CONVENTION"


def arc_rings(repo: Repo) -> RuleRun:
    """The round sketches generate their points ring by ring (FanPattern.get_inner_points / get_outer_points: equal distance
    from the pattern's centre). add_edges() is evaluated on the laid-out faces: an Origin arc must join two neighbouring points
    of ONE ring, be centred where that ring's pattern is, and a ring is round as a whole - if one of its segments carries the
    arc, every segment that is a face edge does (an index tuple shifted by one puts an arc about centre 2 between the two
    half-circles of an Oval and leaves the last segment of the second half-circle straight)."""
    r = RuleRun(PROP, "C11.ARC-RINGS", floor=30, what="Origin arcs of the round sketches: both ends on one generated ring, centred at that ring's pattern centre, and every segment of a round ring carries the arc")
    r.exhaustive = True
    disk_base = repo.cls("construct.flat.sketches.disk.DiskBase")
    face_cls = repo.cls("construct.flat.face.Face")
    n_cls = 0
    for cls in sketches.sketch_classes_with_quad_map(repo):
        if disk_base not in repo.mro(cls):
            continue
        n_cls += 1
        positions, qm = _positions_layout(repo, cls)
        add_edges = repo.find_method(cls, "add_edges")
        r.require(add_edges is not None, f"{cls.qualname}: add_edges vanished")
        faces = []
        for i, q in enumerate(qm):
            fc = Obj(f"face{i}", cls=face_cls)
            pts = []
            for k in q:
                pt = Obj(f"p{k}")
                pt.set("position", ("pos", k))
                pts.append(pt)
            fc.set("points", pts)
            fc.set("center", ("face-centre", i))
            fc.set("index", i)
            faces.append(fc)
        arcs: Dict[Tuple[int, int], Any] = {}

        def hook(ev: Evaluator, call: ast.Call, name, arcs=arcs):
            nm = call.func.attr if isinstance(call.func, ast.Attribute) else (name or "").split(".")[-1]
            if nm == "Origin":
                return ("Origin", ev.eval(call.args[0]))
            if nm == "add_edge" and isinstance(call.func, ast.Attribute):
                fc = ev.eval(call.func.value)
                corner, data = ev.eval(call.args[0]), ev.eval(call.args[1])
                if isinstance(fc, Obj) and fc.has("index") and isinstance(corner, int):
                    if isinstance(data, tuple) and data and data[0] == "Origin":
                        arcs[(fc.get("index"), corner)] = data[1]
                    return None
            if nm == "add_spline_edges":
                return None
            return NO_MATCH

        this = Obj("sketch", cls=cls)
        this.set("_faces", faces)
        ev = Evaluator(repo=repo, module=add_edges.module, call_hook=hook)
        ev.opaque_arith = True
        try:
            ev.call_funcinfo(add_edges, [this])
        except (NotEvaluable, Raised) as err:
            raise AnalysisError(f"{cls.qualname}.add_edges not evaluable on the laid-out faces: {err}") from err
        r.require(bool(arcs), f"{cls.qualname}.add_edges attaches no Origin arc on the model")

        def ring(k):
            p = positions[k]
            return (p[0], p[1]) if isinstance(p, tuple) else None

        def centre_of(value):
            """index of the position / pattern a centre expression denotes"""
            if isinstance(value, tuple) and value and value[0] == "pos":
                return positions[value[1]]
            if isinstance(value, tuple) and value and value[0] == "face-centre":
                rings_ = {ring(k) for k in qm[value[1]]}
                if len(rings_) == 1 and None not in rings_:
                    return ("centre-of-ring", next(iter(rings_))[1])
            return value

        # pattern name -> the constructor argument it is centred at
        pattern_centre = _pattern_centres(repo, cls)
        round_rings: Dict[Any, Any] = {}
        for (fi, corner), centre in sorted(arcs.items()):
            a, b = qm[fi][corner], qm[fi][(corner + 1) % 4]
            ra, rb = ring(a), ring(b)
            c = centre_of(centre)
            ok_ring = ra is not None and ra == rb
            want = pattern_centre.get(ra[1]) if ok_ring else None
            ok_centre = ok_ring and (c == want or c == ("centre-of-ring", ra[1]))
            r.check(
                ok_ring and ok_centre,
                add_edges,
                f"{cls.name} face {fi} edge {corner}: arc between points {a},{b} of ring {ra} about its pattern's centre",
                f"{cls.name}.add_edges puts an Origin arc on face {fi} edge {corner}, between points {a} ({ra}) and {b} ({rb}), centred at {c!r}: "
                + ("the two ends are not neighbouring points of one generated ring - they are not equally far from any one centre, so the arc is not the circle the points were laid on" if not ok_ring else f"that ring is centred at {want!r}"),
                add_edges.node,
                key=f"{cls.name}:arc:{fi}.{corner}",
            )
            if ok_ring:
                round_rings.setdefault(ra, set()).add(frozenset((a, b)))
        # completeness: every face-edge segment of a round ring carries the arc
        for rg, have in sorted(round_rings.items(), key=repr):
            segs = {}
            for fi, q in enumerate(qm):
                for corner in range(4):
                    a, b = q[corner], q[(corner + 1) % 4]
                    if ring(a) == rg and ring(b) == rg and abs(positions[a][2] - positions[b][2]) in (1, _ring_count(positions, rg) - 1):
                        segs.setdefault(frozenset((a, b)), []).append((fi, corner))
            missing = {s: where for s, where in segs.items() if not any(w in arcs for w in where)}
            r.check(
                not missing,
                add_edges,
                f"{cls.name} ring {rg}: all {len(segs)} segments round",
                f"{cls.name}.add_edges makes ring {rg} round on {len(segs) - len(missing)} of its {len(segs)} segments; straight: " + ", ".join(f"points {sorted(s)} (face {w[0][0]} edge {w[0][1]})" for s, w in sorted(missing.items(), key=lambda kv: sorted(kv[0]))[:4]) + " - the outline is a circle with a chord cut off",
                add_edges.node,
                key=f"{cls.name}:ring:{rg[0]}",
            )
    r.require(n_cls >= 5, f"only {n_cls} disk sketches examined")
    return r


def _ring_count(positions, rg) -> int:
    return sum(1 for p in positions if isinstance(p, tuple) and (p[0], p[1]) == rg)


def _pattern_centres(repo: Repo, cls: ClassInfo) -> Dict[str, Any]:
    out = {}
    for name, pat in _LAYOUT_PATTERNS.get(cls.qualname, {}).items():
        out[name] = pat.get("center_arg")
    return out


_LAYOUT_PATTERNS: Dict[str, Dict[str, Any]] = {}

arc_rings.rule_id = "C11.ARC-RINGS"


# --------------------------------------------------------------------------------------------
CHAINERS = [
    "construct.shapes.cylinder.Cylinder.chain",
    "construct.shapes.frustum.Frustum.chain",
    "construct.shapes.elbow.Elbow.chain",
    "construct.shapes.rings.ExtrudedRing.chain",
    "construct.shapes.sphere.Hemisphere.chain",
]
SAME_SOURCE = [
    "construct.shapes.rings.ExtrudedRing.expand",
    "construct.shapes.rings.ExtrudedRing.contract",
    "construct.shapes.cylinder.Cylinder.fill",
]
GEOM_ATTRS = {"center", "radius_point", "normal", "outer_radius_point", "inner_radius", "inner_radius_point", "n_segments", "radius"}


def _sketch_refs(node: ast.AST, source: str) -> Set[str]:
    out = set()
    for n in ast.walk(node):
        if isinstance(n, ast.Attribute) and n.attr in ("sketch_1", "sketch_2") and isinstance(n.value, ast.Name) and n.value.id == source:
            out.add(n.attr)
    return out


def chain_source(repo: Repo) -> RuleRun:
    r = RuleRun(PROP, "C11.CHAIN-SOURCE", floor=8, what="chain/expand/contract/fill use one sketch consistently; length negated only from the start face; negative length rejected")
    for qn in CHAINERS:
        fn = repo.func(qn)
        params = fn.params
        r.require("source" in params and "start_face" in params, f"{qn}: (source, ..., start_face) parameters expected")
        def _polarity(t):
            neg = False
            while isinstance(t, ast.UnaryOp) and isinstance(t.op, ast.Not):
                t, neg = t.operand, not neg
            return (not neg) if isinstance(t, ast.Name) and t.id == "start_face" else None

        ifs = [n for n in walk_shallow(fn.node) if isinstance(n, ast.If) and _polarity(n.test) is not None]
        r.require(len(ifs) == 1 and ifs[0].orelse, f"{qn}: 'if start_face: ... else: ...' not found")
        br = ifs[0]
        br_true, br_false = (br.body, br.orelse) if _polarity(br.test) else (br.orelse, br.body)
        refs_t = set().union(*[_sketch_refs(s, "source") for s in br_true])
        refs_f = set().union(*[_sketch_refs(s, "source") for s in br_false])
        r.check(refs_t == {"sketch_1"} and refs_f == {"sketch_2"}, fn, "start_face -> sketch_1, else sketch_2", f"{fn.qualname}: the start_face branch uses {sorted(refs_t)} and the other branch {sorted(refs_f)}; centre, radius point and normal must all come from sketch_1 resp. sketch_2", br, key="branch-sketch")
        # outside the branch nothing may reach into source.sketch_x directly for geometry
        outside = set()
        for st in fn.node.body:
            if st is br:
                continue
            for n in ast.walk(st):
                if isinstance(n, ast.Attribute) and n.attr in GEOM_ATTRS and isinstance(n.value, ast.Attribute) and n.value.attr in ("sketch_1", "sketch_2") and isinstance(n.value.value, ast.Name) and n.value.value.id == "source":
                    outside.add(ast.unparse(n))
        r.check(not outside, fn, "geometry read through the selected sketch only", f"{fn.qualname} reads {sorted(outside)} outside the start_face selection: mixes the two end sketches", fn.node, key="outside-refs")
        if "length" in params:
            neg_t = any(isinstance(s, ast.Assign) and ast.unparse(s) == "length = -length" for s in br_true)
            neg_f = any(isinstance(s, ast.Assign) and "-length" in ast.unparse(s) for s in br_false)
            r.check(neg_t and not neg_f, fn, "length negated only when chaining from the start face", f"{fn.qualname}: length negated in start branch={neg_t}, in end branch={neg_f}", br, key="negate")
            # abstract evaluation: a negative length is rejected before the source is even looked at
            rejected = True
            for start in (False, True):
                extra = [1] if "radius_2" in params and params.index("radius_2") == 3 else []
                try:
                    Evaluator(repo=repo, module=fn.module).call_funcinfo(fn, [Sym("cls"), Sym("source"), -1, *extra], {"start_face": start})
                    rejected = False
                except Raised:
                    pass
                except NotEvaluable:
                    rejected = False  # the guard let the negative length through to the geometry
            r.check(rejected, fn, "negative length rejected before use (either face)", f"{fn.qualname} does not reject a negative length for start_face=True and start_face=False alike", fn.node, key="negative-length")
        # every chain() leaves the source through the selected face: from the START face that is against the source's own
        # direction, so exactly the start branch reverses the direction quantity it hands on (the length or the normal)
        def reversals(stmts):
            out = []
            for st_ in stmts:
                for n_ in ast.walk(st_):
                    if isinstance(n_, ast.UnaryOp) and isinstance(n_.op, ast.USub) and isinstance(n_.operand, (ast.Name, ast.Attribute)):
                        nm_ = n_.operand.id if isinstance(n_.operand, ast.Name) else n_.operand.attr
                        if nm_ in ("length", "normal"):
                            out.append(nm_)
            return out

        rev_t, rev_f = reversals(br_true), reversals(br_false)
        r.check(
            len(rev_t) == 1 and not rev_f,
            fn,
            f"direction reversed ({rev_t[0] if rev_t else '-'}) only when chaining from the start face",
            f"{fn.qualname}: the start_face branch reverses {rev_t or 'nothing'}, the other branch {rev_f or 'nothing'}: a shape chained to the START face runs against the source's direction, so the length or the normal "
            "handed to the constructor must be reversed there (and only there) - otherwise the new blocks are inside-out (negative corner Jacobians)",
            br,
            key="direction-reversal",
        )
        if qn.endswith("Hemisphere.chain"):
            neg_t = any("-source.sketch_1.normal" in ast.unparse(s).replace(" ", "") or "normal=-" in ast.unparse(s).replace(" ", "") for s in br_true)
            neg_f = any("=-" in ast.unparse(s).replace(" ", "") for s in br_false)
            r.check(neg_t and not neg_f, fn, "normal flipped only on the start face", f"Hemisphere.chain: normal negated in start branch={neg_t}, in end branch={neg_f}", br, key="normal-flip")
    for qn in SAME_SOURCE:
        fn = repo.func(qn)
        # every geometric attribute must come in pairs: the start quantities from sketch_1, the end centre from sketch_2
        alias: Dict[str, str] = {}
        for n in walk_shallow(fn.node):
            if isinstance(n, ast.Assign) and isinstance(n.targets[0], ast.Name) and isinstance(n.value, ast.Attribute) and n.value.attr in ("sketch_1", "sketch_2"):
                alias[n.targets[0].id] = n.value.attr
        calls = [c for c in ast.walk(fn.node) if isinstance(c, ast.Call) and attr_chain(c.func) == "cls"]
        r.require(len(calls) == 1 and len(calls[0].args) >= 3, f"{qn}: 'cls(axis_point_1, axis_point_2, radius_point, ...)' not found")
        args = calls[0].args

        local_defs: Dict[str, ast.expr] = {}
        for n in walk_shallow(fn.node):
            if isinstance(n, ast.Assign) and isinstance(n.targets[0], ast.Name) and n.targets[0].id not in alias:
                local_defs[n.targets[0].id] = n.value

        def sk(expr, depth: int = 0) -> Set[str]:
            out = set()
            for n in ast.walk(expr):
                if isinstance(n, ast.Attribute) and n.attr in ("sketch_1", "sketch_2"):
                    out.add(n.attr)
                if isinstance(n, ast.Name) and n.id in alias:
                    out.add(alias[n.id])
                if isinstance(n, ast.Name) and n.id in local_defs and depth < 4:
                    out |= sk(local_defs[n.id], depth + 1)
            return out

        ok = sk(args[0]) == {"sketch_1"} and sk(args[1]) == {"sketch_2"} and sk(args[2]) == {"sketch_1"}
        r.check(ok, fn, "axis from sketch_1.center to sketch_2.center, radius point from sketch_1", f"{fn.qualname} builds the new shape from {[sorted(sk(a)) for a in args[:3]]}; expected (sketch_1, sketch_2, sketch_1)", calls[0], key="ctor-args")
    return r


chain_source.rule_id = "C11.CHAIN-SOURCE"

def mirror_pairing(repo: Repo) -> RuleRun:
    """Spline-round sketches are assembled from quarters built with permuted corners; corner, side and
    width arguments of one slot must carry the same index (sibling agreement Disk vs Ring)."""
    import re

    r = RuleRun(PROP, "C11.MIRROR-PAIRING", floor=2, what="quarter sketches built for merging: corner_k, side_k, width_k permuted together")
    base = repo.cls("construct.flat.sketches.spline_round.SplineRound")
    n = 0
    for cls in sorted(repo.subclasses(base), key=lambda c: c.qualname):
        init = cls.methods.get("__init__")
        if init is None:
            continue
        for c in walk_shallow(init.node):
            if not (isinstance(c, ast.Call) and isinstance(c.func, ast.Name)):
                continue
            tgt = repo.resolve_name(cls.module, c.func.id)
            if not (isinstance(tgt, ClassInfo) and base in repo.mro(tgt)):
                continue
            tparams = repo.find_method(tgt, "__init__").params[1:]
            slots: Dict[str, Dict[str, str]] = {}
            for pname, a in zip(tparams, c.args):
                m = re.fullmatch(r"(corner|side|width)_(\d)(?:_point)?", pname)
                if not m:
                    continue
                kind, slot = m.group(1), m.group(2)
                idx = sorted(set(re.findall(r"(?:corner|side|width)_(\d)", ast.unparse(a))))
                if kind == "corner":
                    # the corner actually taken (the last one mentioned: '2 * self.center - self.corner_1' mirrors corner 1)
                    idx = idx[-1:] if idx else []
                slots.setdefault(slot, {})[kind] = idx[0] if len(idx) == 1 else "?"
            if not slots:
                continue
            n += 1
            problems = []
            for slot, kinds in sorted(slots.items()):
                if len(set(kinds.values())) > 1:
                    problems.append(f"slot {slot} receives {kinds}")
            r.check(not problems, init, f"{c.func.id}(...): corner/side/width indexes agree per slot {slots}", f"{cls.name}.__init__ builds {c.func.id} with mismatched arguments: " + "; ".join(problems) + " - the mirrored quarter gets the straight lengths of the other direction, so for side_1 != side_2 its seam points do not coincide with the first quarter (extra vertices, degenerate blocks)", c, key=f"{c.func.id}")
    r.require(n >= 2, "fewer than two quarter constructions found in the spline-round sketches")
    return r


mirror_pairing.rule_id = "C11.MIRROR-PAIRING"

def trig_domain(repo: Repo) -> RuleRun:
    """Merged spline sketches compare the normals of their quarters with functions.angle_between: for equal normals in a general orientation an unclipped cosine gives NaN and the sketch cannot be built."""
    from ..domain import inverse_trig_rule

    return inverse_trig_rule(repo, PROP, "C11.TRIG-DOMAIN", ('util.functions',), floor=2)


trig_domain.rule_id = "C11.TRIG-DOMAIN"

def fill_conformal(repo: Repo) -> RuleRun:
    """'conformal': Cylinder.fill shares every interface vertex with the ring only when the ring has as many segments as the
    filling disk has outer faces; the guard must accept exactly that count (abstract run of the guard for 1..32 segments)."""
    from . import c20

    r = RuleRun(PROP, "C11.FILL-CONFORMAL", floor=1, what="Cylinder.fill accepts a ring iff its segment count equals the number of outer faces of the filling sketch")
    c20.fill_conformal(repo, r)
    return r


fill_conformal.rule_id = "C11.FILL-CONFORMAL"


def arc_side(repo: Repo) -> RuleRun:
    """Revolved shapes with a negative angle are right-handed only if the side arcs bend the right way: the sign of the sector
    angle must reach the arc centre. Same rule as C08.SIGN-FLOWS."""
    from ..report import rebrand
    from . import c08

    return rebrand(c08.sign_flows(repo), PROP, "C11.ARC-SIDE")


arc_side.rule_id = "C11.ARC-SIDE"

def affine_kinds(repo: Repo) -> RuleRun:
    """Axes and directions of the predefined shapes are differences of points: a position used as an axis builds the shape
    correctly only when its axis line passes through the global origin."""
    from ..affine import kinds_rule

    return kinds_rule(repo, PROP, "C11.AFFINE-KINDS", ("construct.",), floor=10)


affine_kinds.rule_id = "C11.AFFINE-KINDS"

def stack_chain(repo: Repo) -> RuleRun:
    """TransformedStack: tier k starts at the end sketch of tier k-1, ends at that sketch transformed once more, and its arc
    points (the mid sketch) are derived from the tier's OWN start sketch - not from the base sketch of the stack. Abstract run of
    the constructor on a symbolic sketch whose copies / transforms only record their history."""
    from ..peval import NO_MATCH, Evaluator, NotEvaluable, Obj, Raised, Sym

    r = RuleRun(PROP, "C11.STACK-CHAIN", floor=3, what="TransformedStack tier k = (E^k base, M E^k base, E^(k+1) base): start, mid and end sketch of every tier")
    init = repo.func("construct.stack.TransformedStack.__init__")
    tiers = []

    def hook(ev, call: ast.Call, name):
        f_ = call.func
        if isinstance(f_, ast.Attribute) and f_.attr in ("copy", "transform"):
            recv = ev.eval(f_.value)
            if isinstance(recv, Obj) and recv.has("hist"):
                if f_.attr == "copy":
                    return Obj("sketch", hist=recv.get("hist"))
                t = ev.eval(call.args[0])
                steps = tuple(x.name if isinstance(x, Sym) else repr(x) for x in (t if isinstance(t, (list, tuple)) else [t]))
                recv.set("hist", recv.get("hist") + steps)  # transform() works in place, applies the list in order and returns self
                return recv
        if name == "LoftedShape":
            args = [ev.eval(a) for a in call.args]
            tiers.append(tuple(a.get("hist") if isinstance(a, Obj) else a for a in args))
            return Obj("shape")
        return NO_MATCH

    for with_mid in (True, False):
        del tiers[:]
        this = Obj("stack", cls=repo.cls("construct.stack.TransformedStack"))
        base = Obj("base", hist=())
        try:
            # E = [T, R]: two transformations that need not commute (a translation and a rotation); M = [m]
            Evaluator(repo=repo, module=init.module, call_hook=hook).call_funcinfo(init, [this, base, [Sym("T"), Sym("R")], 3, [Sym("m")] if with_mid else None])
        except (NotEvaluable, Raised) as err:
            raise AnalysisError(f"TransformedStack.__init__ not evaluable on the symbolic sketch: {err}") from err
        E = ("T", "R")
        want = [(E * k, E * (k + 1), (E * k + ("m",)) if with_mid else None) for k in range(3)]
        r.check(
            tiers == want,
            init,
            f"{'with' if with_mid else 'without'} mid transforms: 3 tiers chained as E^k / M E^k / E^(k+1)",
            f"TransformedStack(base, E=[T, R], repeats=3{', mid=[m]' if with_mid else ''}) builds its tiers from (start, end, mid) = {tiers}; expected {want}: every tier must start where the previous one "
            "ended - the WHOLE list E applied once more, in its order (T^k then R^k is another place unless T and R commute) - and its arc points must be derived from its OWN start sketch (a mid sketch "
            "taken from the base sketch puts the arcs of tier 2, 3, ... where tier 1's are)",
            init.node,
            key=f"tiers:{'mid' if with_mid else 'no-mid'}",
        )
    r.check(base.get("hist") == (), init, "the base sketch itself is not transformed", f"the caller's base sketch was transformed in place: {base.get('hist')}", init.node, key="base-untouched")
    return r


stack_chain.rule_id = "C11.STACK-CHAIN"

def no_shared_parts(repo: Repo) -> RuleRun:
    """A revolved shape stays on its circle when it is rotated afterwards: every side edge has its own Angle record. Same rule as C09.NO-SHARED-PARTS."""
    from ..report import rebrand
    from . import c09

    return rebrand(c09.no_shared_parts(repo), PROP, "C11.NO-SHARED-PARTS")


no_shared_parts.rule_id = "C11.NO-SHARED-PARTS"

def moved_once(repo: Repo) -> RuleRun:
    """'adjacent blocks share the vertices along their common faces' after the shape is placed: the lofts of the hemisphere (and every other composite) hand each face to the transformation exactly once. Same rule as C09.LINEAR-PARTS."""
    from ..report import rebrand
    from . import c09

    return rebrand(c09.linear_parts(repo), PROP, "C11.MOVED-ONCE")


moved_once.rule_id = "C11.MOVED-ONCE"


def transform_routing(repo: Repo) -> RuleRun:
    """Transformed stacks and tapered shapes (Frustum, Elbow: Scaling without origin) stay conformal: transform() scales every part of one entity about ONE origin, fixed before the first part moves. Same rule as C09.TRANSFORM-ROUTING."""
    from ..report import rebrand
    from . import c09

    return rebrand(c09.transform_routing(repo), PROP, "C11.TRANSFORM-ROUTING")


transform_routing.rule_id = "C11.TRANSFORM-ROUTING"

def axis_terms(repo: Repo) -> RuleRun:
    """'adjacent blocks share the vertices along their common faces' for elliptic outlines too: the spline-round sketches place their
    points by adding one term per local axis - (side_k + ratio * r_k) * u_k - and a quarter meets its mirrored neighbours only if
    every term is built from the quantities of ONE axis. Every product in the constructors of the spline-round module is examined:
    the names it multiplies carry one axis suffix (_1 or _2), never both."""
    r = RuleRun(PROP, "C11.AXIS-TERMS", floor=8, what="every product term in the spline-round constructors combines quantities of one local axis only (side_k, r_k, u_k, width_k with the same k)")
    mod = repo.module("construct.flat.sketches.spline_round")
    n = 0
    for fn in sorted(repo.all_functions(), key=lambda f: f.qualname):
        if fn.module is not mod or fn.name != "__init__":
            continue
        k = 0
        for node in ast.walk(fn.node):
            if not (isinstance(node, ast.BinOp) and isinstance(node.op, ast.Mult)):
                continue
            par = parent(node)
            if isinstance(par, ast.BinOp) and isinstance(par.op, ast.Mult):
                continue  # examined as part of the enclosing product
            sufs = {}
            for x in ast.walk(node):
                nm = x.id if isinstance(x, ast.Name) else x.attr if isinstance(x, ast.Attribute) else None
                mm = re.fullmatch(r"(side|r|u|width|corner)_([12])", nm or "")
                if mm:
                    sufs.setdefault(mm.group(2), []).append(nm)
            if not sufs:
                continue
            n += 1
            r.check(
                len(sufs) == 1,
                fn,
                f"'{ast.unparse(node)[:60]}': one axis",
                f"{fn.qualname}: the term '{ast.unparse(node)[:90]}' mixes quantities of both local axes ({sorted(sum(sufs.values(), []))}): for an outline with different radii / sides along the two axes the point is misplaced, "
                "and the quarters of the half and full disks no longer share it",
                node,
                key=f"term#{k}",
            )
            k += 1
    r.require(n >= 8, f"only {n} axis terms found in the spline-round constructors")
    return r


axis_terms.rule_id = "C11.AXIS-TERMS"


def mirror_matrix(repo: Repo) -> RuleRun:
    """'any valid placement': a shape mirrored about a plane in general position is a reflection of the original, so its blocks stay conformal. Same rule as C09.MIRROR-MATRIX."""
    from ..report import rebrand
    from . import c09

    return rebrand(c09.mirror_matrix(repo), PROP, "C11.MIRROR-MATRIX")


mirror_matrix.rule_id = "C11.MIRROR-MATRIX"

def arguments_untouched(repo: Repo) -> RuleRun:
    """'adjacent blocks share the vertices along their common faces' when several operations are built from one face: constructors work on copies of the entities they are handed. Same rule as C09.ARGUMENTS-UNTOUCHED."""
    from ..alias import argument_mutation_rule

    return argument_mutation_rule(repo, PROP, "C11.ARGUMENTS-UNTOUCHED")


arguments_untouched.rule_id = "C11.ARGUMENTS-UNTOUCHED"

def arc_midpoint(repo: Repo) -> RuleRun:
    """'... outer arcs lie on the intended circle': the side arcs of every revolved shape are angle-and-axis arcs; their written
    three-point form passes through the exact half-way point of the sector, for either sense of rotation, more than half a turn
    and exactly half a turn. Same rule as C08.REFLEX-MIDPOINT."""
    from ..report import rebrand
    from . import c08

    return rebrand(c08.reflex_midpoint(repo), PROP, "C11.ARC-MIDPOINT")


arc_midpoint.rule_id = "C11.ARC-MIDPOINT"


def scalar_amount(repo: Repo) -> RuleRun:
    """'for ... any valid placement, size': an amount given as a numpy scalar is a valid size: the number-or-vector test of Extrude / ExtrudedShape / ExtrudedStack accepts every scalar."""
    from ..params import scalar_dispatch_rule

    return scalar_dispatch_rule(repo, PROP, "C11.SCALAR-AMOUNT")


scalar_amount.rule_id = "C11.SCALAR-AMOUNT"


def joint_cusps(repo: Repo) -> RuleRun:
    """'... adjacent blocks share the vertices along their common faces' for the pipe joints: neighbouring branches meet in the
    plane that bisects the gap between them, so the slanted end of branch i towards branch i+1 and the slanted end of branch
    i+1 towards branch i are sheared by the same amount - their cusp angles agree modulo pi (the shear is the tangent), whatever
    the size of the gap (an L joint has one gap of 270 degrees). Abstract run of JointBase.__init__ for every joint class with
    its own _get_angles (floating-point arithmetic on the angles only), observing the two angles handed to every CuspCylinder."""
    import math
    import operator

    r = RuleRun(PROP, "C11.JOINT-CUSPS", floor=3, what="every pair of neighbouring joint branches is cut by the same bisecting plane: right cusp angle of branch i = left cusp angle of branch i+1 (mod pi), and that angle is half the gap between them")
    base = repo.cls("construct.assemblies.joints.JointBase")
    init = base.methods["__init__"]
    classes = [c for c in repo.subclasses(base) if c is not base]
    r.require(len(classes) >= 3, f"only {len(classes)} joint classes found")
    OPS = {ast.Add: operator.add, ast.Sub: operator.sub, ast.Mult: operator.mul, ast.Div: operator.truediv, ast.Mod: operator.mod}

    def arith(op, a, b):
        if type(op) in OPS and all(isinstance(x, (int, float)) and not isinstance(x, bool) for x in (a, b)):
            if isinstance(op, (ast.Div, ast.Mod)) and b == 0:
                raise Raised("ZeroDivisionError")
            return OPS[type(op)](a, b)
        return NO_MATCH

    for cls in sorted(classes, key=lambda c: c.qualname):
        for branches in ((3, 4, 5, 6) if cls.name == "NJoint" else (None,)):
            seen = []

            def hook(ev, call: ast.Call, name, seen=seen):
                nm = (name or "").split(".")[-1]
                if nm == "CuspCylinder":
                    args = [ev.eval(a) for a in call.args]
                    seen.append((args[3], args[4]))
                    return Obj("cusp", shapes=[Obj("right"), Obj("left")])
                if nm == "rotate" and isinstance(call.func, ast.Attribute):
                    return None
                if nm == "linspace":
                    a, b = ev.eval(call.args[0]), ev.eval(call.args[1])
                    num = next((ev.eval(k.value) for k in call.keywords if k.arg == "num"), ev.eval(call.args[2]) if len(call.args) > 2 else 50)
                    endpoint = next((ev.eval(k.value) for k in call.keywords if k.arg == "endpoint"), True)
                    step = (b - a) / (num - 1 if endpoint else num)
                    return [a + i * step for i in range(num)]
                if nm in ("asarray", "array") and call.args:
                    return ev.eval(call.args[0])
                if isinstance(call.func, ast.Attribute) and call.func.attr == "__init__" and isinstance(call.func.value, ast.Call) and attr_chain(call.func.value.func) == "super":
                    # the constructor chain up to JointBase runs; Assembly.__init__ only stores the shapes
                    stack = getattr(ev, "_cls_stack", [])
                    if stack and stack[-1][0] is base:
                        return None
                return NO_MATCH

            this = Obj("joint", cls=cls)
            ctor = repo.find_method(cls, "__init__")
            ev = Evaluator(repo=repo, module=ctor.module, call_hook=hook, bind={"np.pi": math.pi, "numpy.pi": math.pi, "math.pi": math.pi})
            ev.float_arith = True
            ev.binop_hook = arith
            ev.opaque_arith = False
            args = [this, Sym("start"), Sym("center"), Sym("radius_point")] + ([branches] if branches is not None and len(ctor.params) > 4 else [])
            sub_hook = ev.binop_hook

            def arith2(op, a, b, sub_hook=sub_hook):
                res = sub_hook(op, a, b)
                if res is NO_MATCH and (isinstance(a, Sym) or isinstance(b, Sym)):
                    return Sym("vector")
                return res

            ev.binop_hook = arith2
            try:
                ev.call_funcinfo(ctor, args)
            except (Raised, NotEvaluable) as err:
                raise AnalysisError(f"{cls.name}.__init__ not evaluable on the joint model: {err}") from err
            n = len(seen)
            r.require(n >= 2 and all(isinstance(x, (int, float)) for pair in seen for x in pair), f"{cls.name}: no cusp angles observed on the model ({seen})")
            angles = ev.call_funcinfo(repo.find_method(cls, "_get_angles"), [this, branches if branches is not None else 4])
            problems = []
            for i in range(n):
                right_i, left_next = seen[i][1], seen[(i + 1) % n][0]
                gap = (angles[(i + 1) % n] - angles[i]) % (2 * math.pi)
                for what, val in (("right cusp angle of branch %d" % i, right_i), ("left cusp angle of branch %d" % ((i + 1) % n), left_next)):
                    k = (val - gap / 2) / math.pi
                    if abs(k - round(k)) > 1e-9:
                        problems.append(f"{what} is {math.degrees(val):.1f} deg, the gap between branches {i} and {(i + 1) % n} is {math.degrees(gap):.1f} deg (half: {math.degrees(gap / 2):.1f} deg, modulo 180)")
            label = cls.name + (f"({branches})" if branches is not None else "")
            r.check(
                not problems,
                init,
                f"{label}: {n} branches cut by their bisecting planes",
                f"{label}: " + "; ".join(problems[:2]) + " - the two branches are sheared by different amounts, their end faces do not coincide: the joint is not face-connected (vertices are not shared along the cut)",
                init.node,
                key=f"cusps:{label}",
            )
    return r


joint_cusps.rule_id = "C11.JOINT-CUSPS"


def no_exact_coordinates(repo: Repo) -> RuleRun:
    """'adjacent blocks share the vertices along their common faces': shared points of a Shell (and of every other construct) are recognised by distance, not bit for bit."""
    from ..tolerance import exact_coordinate_equality_rule

    return exact_coordinate_equality_rule(repo, PROP, "C11.NO-EXACT-COORDINATES", ('construct.',))


no_exact_coordinates.rule_id = "C11.NO-EXACT-COORDINATES"


def grid_roles(repo: Repo) -> RuleRun:
    """'adjacent blocks share the vertices along their common faces': every loft of a shape joins the faces at the SAME grid place of its start and end sketch. Same rule as C19.GRID-ROLES."""
    from ..report import rebrand
    from . import c19

    return rebrand(c19.grid_roles(repo), PROP, "C11.GRID-ROLES")


grid_roles.rule_id = "C11.GRID-ROLES"


def collapsed_edge(repo: Repo) -> RuleRun:
    """'... chop calls ... are sufficient for writing to succeed' - also for the shapes with collapsed edges (a Wedge on its axis). Same rule as C02.COLLAPSED-EDGE."""
    from . import c02

    return c02.collapsed_edge(repo, PROP, "C11.COLLAPSED-EDGE")


collapsed_edge.rule_id = "C11.COLLAPSED-EDGE"


def circle_test_symmetric(repo: Repo) -> RuleRun:
    """'outer arcs lie on the intended circle' - and an ellipse keeps its splines: whether a spline-round quarter is a circle (and may
    be written with arcs) is a symmetric closeness test of its two radii, |r_1 - r_2| < TOL - not a signed difference, which
    declares every quarter with r_1 < r_2 a circle. In the sketch modules, a DIFFERENCE of two quantities compared with the
    tolerance outside a raising guard (where one-sidedness is the point: 'outer must be larger than inner') is wrapped in abs / norm."""
    r = RuleRun(PROP, "C11.CIRCLE-TEST-SYMMETRIC", floor=1, what="closeness of two quantities in the sketch modules is tested on the magnitude of their difference (abs / norm), not on the signed difference")
    n = 0
    for fn in sorted(repo.all_functions(), key=lambda f_: f_.qualname):
        short = fn.module.name.split("classy_blocks.")[-1]
        if not short.startswith("construct.flat.sketches"):
            continue
        for node in ast.walk(fn.node):
            if not (isinstance(node, ast.Compare) and len(node.ops) == 1 and isinstance(node.ops[0], (ast.Lt, ast.LtE, ast.Gt, ast.GtE))):
                continue
            sides = [node.left, node.comparators[0]]
            tol = [x for x in sides if (attr_chain(x) or "").split(".")[-1] in ("TOL", "VSMALL")]
            if len(tol) != 1:
                continue
            other = sides[1] if tol[0] is sides[0] else sides[0]
            n += 1
            guard = False
            p_ = parent(node)
            while p_ is not None and p_ is not fn.node:
                if isinstance(p_, ast.If) and any(isinstance(b, ast.Raise) for b in p_.body) and any(node is x for x in ast.walk(p_.test)):
                    guard = True
                p_ = parent(p_)
            signed_difference = isinstance(other, ast.BinOp) and isinstance(other.op, ast.Sub)
            r.check(
                not signed_difference or guard,
                fn,
                f"'{ast.unparse(node)[:60]}'",
                f"{fn.qualname}: '{ast.unparse(node)[:80]}' tests whether two quantities are equal on their SIGNED difference: it also holds whenever the first is smaller than the second by any amount - "
                "an elliptical quarter with r_1 < r_2 is taken for a circle and its outer splines are replaced by arcs about a silently adjusted centre (the outline leaves the ellipse)",
                node,
                key=f"signed:{ast.unparse(other)[:40]}",
            )
    r.require(n >= 1, "no tolerance comparisons found in the sketch modules")
    return r


circle_test_symmetric.rule_id = "C11.CIRCLE-TEST-SYMMETRIC"


def shear_sign(repo: Repo) -> RuleRun:
    """'adjacent blocks share the vertices along their common faces' in the pipe joints, whose slanted ends are made by shearing. Same rule as C09.SHEAR-SIGN."""
    from . import c09

    return c09.shear_sign(repo, PROP, "C11.SHEAR-SIGN")


shear_sign.rule_id = "C11.SHEAR-SIGN"


def coplanar_scale_free(repo: Repo) -> RuleRun:
    """'for every valid placement and size': the ring sketches build their faces with the coplanarity check on; a check that compares a
    volume with the plain tolerance refuses a large ring in a general orientation for rounding noise. Same rule as
    C20.COPLANAR-SCALE-FREE."""
    from ..dims import perpendicular_guards_rule

    return perpendicular_guards_rule(
        repo, PROP, "C11.COPLANAR-SCALE-FREE", floor=1, words=("coplanar",),
        example="and ExtrudedRing([0,0,0], a*r, b*r, 0.5*r) with a = (1,2,3)/sqrt(14), r = 1e4 refused",
    )


coplanar_scale_free.rule_id = "C11.COPLANAR-SCALE-FREE"



def revolved_sides(repo: Repo) -> RuleRun:
    """'adjacent blocks share the vertices AND edges along their common faces' for revolved shapes: each of the four corners of every
    face of the sketch sweeps an arc about the axis - every operation of a RevolvedShape (and RevolvedStack tier) receives an
    angle-and-axis edge on ALL four side edges. Abstract run of the constructor's own loop (lofting and Angle() modelled): a corner
    left out stays a straight chord - seen only where a sketch vertex is the last corner of every face it belongs to."""
    from ..peval import NO_MATCH, Evaluator, NotEvaluable, Obj, Raised, Sym

    r = RuleRun(PROP, "C11.REVOLVED-SIDES", floor=1, what="RevolvedShape gives every operation an angle edge on each of its four side edges (0, 1, 2, 3)")
    cls = repo.cls("construct.shape.RevolvedShape")
    fn = cls.methods.get("__init__")
    r.require(fn is not None, "RevolvedShape.__init__ vanished")
    shape = Obj("shape", cls=cls)
    ops = [Obj(f"op{k}") for k in range(3)]
    got = {o._name: [] for o in ops}

    def hook(ev, call: ast.Call, name):
        if isinstance(call.func, ast.Attribute) and call.func.attr == "__init__":
            shape.set("operations", list(ops))
            return None
        if isinstance(call.func, ast.Attribute) and call.func.attr == "add_side_edge":
            o = ev.eval(call.func.value)
            args = [ev.eval(a) for a in call.args]
            got[o._name].append((args[0], repr(args[1])))
            return None
        if isinstance(call.func, ast.Attribute) and call.func.attr in ("copy", "rotate"):
            return Sym("top-sketch")
        if (name or "").split(".")[-1] == "Angle":
            return Sym("Angle(" + ", ".join(repr(ev.eval(a)) for a in call.args) + ")")
        return NO_MATCH

    try:
        Evaluator(repo=repo, module=fn.module, call_hook=hook).call_funcinfo(fn, [shape, Sym("sketch"), Sym("angle"), Sym("axis"), Sym("origin")])
    except (Raised, NotEvaluable) as err:
        raise AnalysisError(f"RevolvedShape.__init__ not evaluable on the symbolic model: {err}") from err
    for o in ops:
        corners = sorted(c for c, _ in got[o._name] if isinstance(c, int))
        datas = {d for _, d in got[o._name]}
        r.check(
            corners == [0, 1, 2, 3] and datas == {"Angle(angle, axis)"},
            fn,
            f"{o._name}: side edges {corners}",
            f"RevolvedShape gives operation {o._name} angle edges on side edges {corners} with data {sorted(datas)} (expected 0, 1, 2, 3, each Angle(angle, axis)): the corner left out is joined to its "
            "revolved image by a straight chord - the last corner of a Grid, the inner point of a QuarterDisk - and neighbouring blocks do not share that edge",
            fn.node,
            key=f"sides:{o._name}",
        )
    return r


revolved_sides.rule_id = "C11.REVOLVED-SIDES"



def vertex_tolerance(repo: Repo) -> RuleRun:
    """'adjacent blocks share the vertices ... and only those': corners are merged by an absolute distance test, wherever the shape sits - a closeness test with a relative part (numpy's allclose default) merges the distinct corners of a small shape far from the origin. Same rule as C06.VERTEX-TOLERANCE."""
    from ..report import rebrand
    from . import c06

    return rebrand(c06.vertex_tolerance(repo), PROP, "C11.VERTEX-TOLERANCE")


vertex_tolerance.rule_id = "C11.VERTEX-TOLERANCE"


RULES = [quad_map_rule, chop_coverage, chop_role, radial_convention, arc_rings, chain_source, mirror_pairing, trig_domain, fill_conformal, arc_side, affine_kinds, stack_chain, no_shared_parts, moved_once, transform_routing, axis_terms, mirror_matrix, arguments_untouched, arc_midpoint, scalar_amount, joint_cusps, no_exact_coordinates, grid_roles, collapsed_edge, circle_test_symmetric, shear_sign, coplanar_scale_free, revolved_sides, vertex_tolerance]

"""C06 - the written blockMeshDict is a faithful, well-formed rendering of the model."""

from __future__ import annotations

import ast
import math
from typing import Dict, List, Optional, Set

from .. import hexa, tables
from ..cfg import CFG
from ..model import AnalysisError, FuncInfo, Repo, attr_chain, parent, walk_shallow
from ..peval import NO_MATCH, Evaluator, NotEvaluable, Obj, Raised, Sym, empty_defaults
from ..report import RuleRun
from ..util import fmt_path, is_open_for_write, node_calls
from .c10 import LATERAL, _run, real_operation

PROP = "C06"
TITLE = "The written blockMeshDict is a faithful, well-formed rendering of the model"
DECIDES = (
    "Mesh.write writes header, settings, the description of every *_list of the mesh and the footer exactly once on every "
    "normal path, and write_vtk receives the mesh's own vertex/block lists (C06.SECTIONS); FACE_MAP / SIDES_MAP / "
    "HexCell side tables equal the hexahedron convention, cyclic along block edges, and the writers (set_patch, "
    "project_side) and readers (PatchList.add, FaceList.add) of per-side state use the same side (C06.SIDE-TABLES); "
    "assemble builds the 8 vertices in the operation's own corner order and hands the same list to block, edges, "
    "patches and faces (C06.VERTEX-OWNERSHIP); projection labels must not derive from object identity "
    "(C06.GEOMETRY-LABEL); vector_format prints at least -log10(TOL) decimals (C06.PRECISION)."
    ' clear()/backport() empty what assemble() fills and nothing the user declared (C06.USER-STATE-SURVIVES = C12.CLEAR-COMPLETE); simpleGrading only when all wires agree (C06.GRADING-FORM = C04.SIMPLE-ONLY-IF-EQUAL).'
    ' A re-declared geometry takes the new definition (C06.GEOMETRY-REDECLARED); vertex coincidence tests are absolute (C06.VERTEX-TOLERANCE); writing twice writes the same counts (C06.GRADE-IDEMPOTENT).'
    ' Mesh.delete records the operation whether or not its entity has been added yet (part of C06.ASSEMBLE-WALK); edgeGrading slot order (C06.AXIS-TABLE = C01.AXIS-TABLE); corner/side lookup (C06.CORNER-PATCHES = C05.CORNER-PATCHES); no measured length is stored as a snapshot on a transformable entity (C06.LIVE-LENGTHS).'
    ' The debug VTK is written whenever a debug path is given (part of C06.SECTIONS); patches without faces are not written (C06.EMPTY-PATCH); set_patch with a list assigns every listed side (C06.SIDE-ADDRESSING); no class-level mutable state (C06.NO-CLASS-STATE).'
)
NOT_DECIDED = "parse-and-compare equivalence of a complete written file with the model for arbitrary user scripts."
ASSUMPTIONS = ["a section is 'written' by output.write(<expr reading self.<list>.description>) inside the with-open block of Mesh.write"]


def _lists_of_mesh(repo: Repo) -> Dict[str, str]:
    """attr name -> class qualname for every Mesh attribute whose class defines `description`."""
    init = repo.func("mesh.Mesh.__init__")
    out = {}
    for n in walk_shallow(init.node):
        if isinstance(n, (ast.Assign, ast.AnnAssign)):
            tgt = n.targets[0] if isinstance(n, ast.Assign) else n.target
            if isinstance(tgt, ast.Attribute) and isinstance(tgt.value, ast.Name) and tgt.value.id == "self" and isinstance(n.value, ast.Call):
                obj = repo.resolve_expr(init.module, n.value.func)
                from ..model import ClassInfo

                if isinstance(obj, ClassInfo):
                    d = repo.find_method(obj, "description")
                    if d is not None and d.is_property:
                        out[tgt.attr] = obj.qualname
    return out


def sections(repo: Repo) -> RuleRun:
    r = RuleRun(PROP, "C06.SECTIONS", floor=9, what="every section is written exactly once on every normal path of Mesh.write")
    write = repo.func("mesh.Mesh.write")
    lists = _lists_of_mesh(repo)
    r.require(len(lists) >= 6, f"expected at least 6 list attributes with a description on Mesh, found {sorted(lists)}")
    g = CFG(write.node)
    opens = [n for n in g.stmt_nodes() if any(is_open_for_write(c) for c in node_calls(n))]
    r.require(len(opens) == 1 and isinstance(opens[0].stmt, ast.With), "Mesh.write: 'with open(output_path, \"w\")' not found exactly once")
    wnode = opens[0]
    item = wnode.stmt.items[0]
    r.require(item.optional_vars is not None and isinstance(item.optional_vars, ast.Name), "with open(...) as <name> expected")
    fh = item.optional_vars.id

    def written_exprs(n) -> List[ast.expr]:
        out = []
        for c in node_calls(n):
            if isinstance(c.func, ast.Attribute) and c.func.attr in ("write", "writelines") and isinstance(c.func.value, ast.Name) and c.func.value.id == fh:
                out.extend(c.args)
        return out

    def writes(n, pred) -> bool:
        return any(pred(e) for e in written_exprs(n))

    wanted = {}
    for attr in lists:
        wanted[f"{attr}.description"] = lambda e, a=attr: any(attr_chain(x) == f"self.{a}.description" for x in ast.walk(e))
    wanted["MESH_HEADER"] = lambda e: any((attr_chain(x) or "").split(".")[-1] == "MESH_HEADER" for x in ast.walk(e))
    wanted["MESH_FOOTER"] = lambda e: any((attr_chain(x) or "").split(".")[-1] == "MESH_FOOTER" for x in ast.walk(e))
    wanted["settings"] = lambda e: any(isinstance(x, ast.Call) and attr_chain(x.func) == "self.format_settings" for x in ast.walk(e))

    for name, pred in wanted.items():
        nodes = [n for n in g.stmt_nodes() if writes(n, pred)]
        holds, path = g.must_pass(wnode, g.exit_return, lambda n, p=pred: writes(n, p))
        if not nodes:
            r.bad(write, f"section '{name}' is never written to the output file", wnode.stmt, key=name)
            continue
        twice = any(m.id in g.reach([n]) and m.id != n.id or (n.id in g.reach([n])) for n in nodes for m in nodes)
        multi_in_one = any(sum(1 for e in written_exprs(n) if pred(e)) > 1 for n in nodes)
        if not holds:
            r.bad(write, f"a normal path through Mesh.write skips section '{name}': {fmt_path(path)}", nodes[0].stmt, key=name)
        elif twice or multi_in_one:
            r.bad(write, f"section '{name}' can be written more than once", nodes[0].stmt, key=name)
        else:
            r.ok(write, f"'{name}' written exactly once on every normal path", key=name)
    # header first, footer last
    wn = [n for n in g.stmt_nodes() if written_exprs(n)]
    order_ok = True
    hdr = [n for n in wn if writes(n, wanted["MESH_HEADER"])]
    ftr = [n for n in wn if writes(n, wanted["MESH_FOOTER"])]
    for n in wn:
        if hdr and n not in hdr and hdr[0].id not in g.reach([n], backwards=True):
            order_ok = False
        if ftr and n not in ftr and ftr[0].id not in g.reach([n]):
            order_ok = False
    r.check(order_ok, write, "header first, footer last", "Mesh.write does not write the header first and the footer last", wnode.stmt, key="order")

    # debug VTK gets the mesh's own lists
    vtk_calls = [c for c in ast.walk(write.node) if isinstance(c, ast.Call) and (attr_chain(c.func) or "").split(".")[-1] == "write_vtk"]
    r.require(len(vtk_calls) == 1 and len(vtk_calls[0].args) == 3, "write_vtk(path, vertices, blocks) call not found in Mesh.write")
    a_v, a_b = attr_chain(vtk_calls[0].args[1]), attr_chain(vtk_calls[0].args[2])
    r.check(a_v in ("self.vertex_list.vertices", "self.vertices"), write, "VTK gets the vertex list", f"write_vtk receives {a_v} instead of the mesh's vertex list", vtk_calls[0], key="vtk:vertices")
    r.check(a_b in ("self.block_list.blocks", "self.blocks"), write, "VTK gets the block list", f"write_vtk receives {a_b} instead of the mesh's block list", vtk_calls[0], key="vtk:blocks")
    # 'the optional debug VTK lists the same points and hexahedra': whenever a debug path is given - whether write() had to
    # assemble the mesh itself or found it assembled (assemble() / backport() / an earlier write()) - so the call may depend on
    # the debug path only
    conds = []
    node_ = vtk_calls[0]
    while node_ is not None and node_ is not write.node:
        par_ = parent(node_)
        if isinstance(par_, (ast.If, ast.While)) and node_ is not par_.test:
            conds.append(par_.test)
        elif isinstance(par_, (ast.For, ast.Try, ast.With)):
            conds.append(par_)
        node_ = par_
    foreign = [c_ for c_ in conds if not isinstance(c_, ast.expr) or {x.id for x in ast.walk(c_) if isinstance(x, ast.Name)} - {"debug_path", "self"} or any(isinstance(x, ast.Attribute) for x in ast.walk(c_))]
    r.check(
        not foreign,
        write,
        "the debug VTK is written whenever a debug path is given",
        f"Mesh.write writes the debug VTK only under '{ast.unparse(foreign[0])[:60] if foreign and isinstance(foreign[0], ast.expr) else 'a loop / try'}': a mesh that is assembled already when write(path, debug_path) is called gets "
        "no VTK - or keeps a stale one whose points no longer match the dictionary",
        vtk_calls[0],
        key="vtk:unconditional",
    )
    return r


sections.rule_id = "C06.SECTIONS"


# --------------------------------------------------------------------------------------------
def side_tables(repo: Repo) -> RuleRun:
    r = RuleRun(PROP, "C06.SIDE-TABLES", floor=30, what="FACE_MAP, SIDES_MAP, HexCell side tables and writer/reader agreement of per-side slots")
    r.exhaustive = True
    c = tables.constants(repo)
    mod = repo.module("util.constants")
    fm = c["FACE_MAP"]
    r.check(set(fm) == set(hexa.SIDE_PLANE), mod, "FACE_MAP has the six sides", f"FACE_MAP keys are {sorted(fm)}", key="FACE_MAP:keys")
    for side, quad in fm.items():
        if side not in hexa.SIDE_CORNERS:
            continue
        r.check(set(quad) == set(hexa.SIDE_CORNERS[side]) and len(quad) == 4, mod, f"{side}: corners {quad}", f"FACE_MAP['{side}'] = {quad}; in the blockMesh convention side '{side}' has corners {sorted(hexa.SIDE_CORNERS[side])}", key=f"FACE_MAP[{side}]:set")
        r.check(hexa.cyclic_walks_edges(quad), mod, f"{side}: cyclic along block edges", f"FACE_MAP['{side}'] = {quad} is not a cycle along block edges (bow-tie quad)", key=f"FACE_MAP[{side}]:cycle")
    sm = c["SIDES_MAP"]
    r.check(len(sm) == 4, mod, "SIDES_MAP has 4 entries", f"SIDES_MAP has {len(sm)} entries", key="SIDES_MAP:len")
    for i, side in enumerate(sm[:4]):
        r.check(side == hexa.face_edge_side(i), mod, f"SIDES_MAP[{i}] = {side}", f"SIDES_MAP[{i}] = '{side}' but face edge {i}->{(i + 1) % 4} lies on side '{hexa.face_edge_side(i)}'", key=f"SIDES_MAP[{i}]")

    hexcell = repo.cls("optimize.cell.HexCell")
    names = tables.class_table(repo, hexcell, "side_names")
    idx = tables.class_table(repo, hexcell, "side_indexes")
    r.check(len(names) == len(idx) == 6 and set(names) == set(hexa.SIDE_PLANE), hexcell, "six named sides", f"HexCell.side_names/side_indexes: {names} / {idx}", key="HexCell:len")
    for nm, quad in zip(names, idx):
        if nm in hexa.SIDE_CORNERS:
            r.check(set(quad) == set(hexa.SIDE_CORNERS[nm]) and hexa.cyclic_walks_edges(quad), hexcell, f"{nm}: {quad}", f"HexCell side '{nm}' is given corners {quad}; the side has corners {sorted(hexa.SIDE_CORNERS[nm])} (positional name/index agreement broken)", key=f"HexCell[{nm}]")

    # readers of per-side state
    fl_add = repo.func("lists.face_list.FaceList.add")
    pl_add = repo.func("lists.patch_list.PatchList.add")
    side_cls = repo.cls("items.side.Side")

    def reader_hook(record):
        def hook(ev, call: ast.Call, name):
            if name == "Side":
                return Obj("side", orient=ev.eval(call.args[0]), vertices=ev.eval(call.args[1]))
            if isinstance(call.func, ast.Attribute) and call.func.attr == "add_side" and attr_chain(call.func.value) == "self":
                args = [ev.eval(a) for a in call.args]
                record.append(args)
                return None
            return NO_MATCH

        return hook

    for i in range(4):
        op = real_operation(repo)
        op.get("side_projects")[i] = "GEO"
        rec: List = []
        fl = Obj("facelist", cls=repo.cls("lists.face_list.FaceList"))
        fl.set("faces", [])
        _run(Evaluator(repo=repo, module=fl_add.module, call_hook=reader_hook(rec)), fl_add, [fl, Sym("vertices"), op])
        got = [(a[0].get("orient"), a[1]) for a in rec if isinstance(a[0], Obj)]
        r.check(got == [(hexa.face_edge_side(i), "GEO")], fl_add, f"side_projects[{i}] read as {got}", f"FaceList.add reads side_projects[{i}] as {got}; slot {i} belongs to side '{hexa.face_edge_side(i)}'", fl_add.node, key=f"FaceList.add:{i}")
    for nm in ("bottom", "top"):
        op = real_operation(repo)
        op.get(f"{nm}_face").set("projected_to", "GEO")
        rec = []
        fl = Obj("facelist", cls=repo.cls("lists.face_list.FaceList"))
        fl.set("faces", [])
        _run(Evaluator(repo=repo, module=fl_add.module, call_hook=reader_hook(rec)), fl_add, [fl, Sym("vertices"), op])
        got = [(a[0].get("orient"), a[1]) for a in rec if isinstance(a[0], Obj)]
        r.check(got == [(nm, "GEO")], fl_add, f"{nm}_face projection read as {got}", f"FaceList.add reports the projection of {nm}_face as {got}", fl_add.node, key=f"FaceList.add:{nm}")

    for side in hexa.SIDE_PLANE:
        op = real_operation(repo)
        if side in LATERAL:
            op.get("side_patches")[[hexa.face_edge_side(i) for i in range(4)].index(side)] = "P"
        else:
            op.get(f"{side}_face").set("patch_name", "P")
        rec = []
        pl = Obj("patchlist", cls=repo.cls("lists.patch_list.PatchList"))
        pl.set("patches", {})
        _run(Evaluator(repo=repo, module=pl_add.module, call_hook=reader_hook(rec)), pl_add, [pl, Sym("vertices"), op])
        got = [(a[0], a[1]) for a in rec]
        r.check(got == [("P", side)], pl_add, f"{side}: {got}", f"PatchList.add registers the patch of side '{side}' as {got}", pl_add.node, key=f"PatchList.add:{side}")
    return r


side_tables.rule_id = "C06.SIDE-TABLES"


# --------------------------------------------------------------------------------------------
def eval_add_vertices(repo: Repo, slave: Set[str], patches_by_side: Dict[str, str], merged=None):
    """Abstract run of Mesh._add_vertices; returns (vertex list, [(point, patches handed to VertexList.add)]). The patch list is a
    symbolic PatchList whose own slave_patches / master_patches / is_slave code is evaluated from the merged pairs."""
    fn = repo.func("mesh.Mesh._add_vertices")
    op = real_operation(repo)
    for side, name in patches_by_side.items():
        if side in LATERAL:
            op.get("side_patches")[[hexa.face_edge_side(i) for i in range(4)].index(side)] = name
        else:
            op.get(f"{side}_face").set("patch_name", name)
    mesh = Obj("mesh", cls=repo.cls("mesh.Mesh"))
    empty_defaults(repo, repo.cls("mesh.Mesh"), mesh)
    pl = Obj("patch_list", cls=repo.cls("lists.patch_list.PatchList"))
    pl.set("merged", [list(m_) for m_ in merged] if merged is not None else [["<master>", sp] for sp in sorted(slave)])
    pl.set("patches", {})
    pl.set("default", {})
    mesh.set("patch_list", pl)
    mesh.set("vertex_list", Obj("vertex_list"))
    calls = []

    def hook(ev, call: ast.Call, name):
        if isinstance(call.func, ast.Attribute) and call.func.attr == "add" and attr_chain(call.func.value) == "self.vertex_list":
            args = [ev.eval(a) for a in call.args]
            calls.append(args)
            return Sym(f"V({args[0]!r})")
        return NO_MATCH

    res = _run(Evaluator(repo=repo, module=fn.module, call_hook=hook), fn, [mesh, op])
    return op, res, calls


def vertex_ownership(repo: Repo) -> RuleRun:
    r = RuleRun(PROP, "C06.VERTEX-OWNERSHIP", floor=6, what="assemble builds 8 vertices in corner order and shares the list between block, edges, patches, faces")
    fn = repo.func("mesh.Mesh._add_vertices")
    op, res, calls = eval_add_vertices(repo, set(), {})
    from .c10 import corner_point

    want = [f"V({corner_point(op, k)!r})" for k in range(8)]
    r.check(isinstance(res, list) and [repr(x) for x in res] == want, fn, "vertices created for corners 0..7 in order", f"Mesh._add_vertices returns {res}; expected the vertices of corners 0..7 in the operation's own order", fn.node, key="order")

    from ..util import assemble_loop

    asm = assemble_loop(repo)
    assigns = [n for n in walk_shallow(asm.node) if isinstance(n, ast.Assign) and isinstance(n.value, ast.Call) and attr_chain(n.value.func) == "self._add_vertices"]
    r.require(len(assigns) == 1 and isinstance(assigns[0].targets[0], ast.Name), "Mesh.assemble: 'vertices = self._add_vertices(operation)' not found")
    vname = assigns[0].targets[0].id
    opname = ast.unparse(assigns[0].value.args[0])
    consumers = {
        "Block": lambda c: attr_chain(c.func) == "Block" and len(c.args) >= 2 and ast.unparse(c.args[1]) == vname,
        "edge_list.add_from_operation": lambda c: attr_chain(c.func) == "self.edge_list.add_from_operation" and [ast.unparse(a) for a in c.args] == [vname, opname],
        "patch_list.add": lambda c: attr_chain(c.func) == "self.patch_list.add" and [ast.unparse(a) for a in c.args] == [vname, opname],
        "face_list.add": lambda c: attr_chain(c.func) == "self.face_list.add" and [ast.unparse(a) for a in c.args] == [vname, opname],
    }
    calls_ = [n for n in walk_shallow(asm.node) if isinstance(n, ast.Call)]
    for name, pred in consumers.items():
        hits = [c for c in calls_ if pred(c)]
        r.check(len(hits) == 1, asm, f"{name} receives the vertex list of this operation", f"Mesh.assemble does not pass the operation's own vertex list to {name} exactly once", asm.node, key=name)
    # block index = position in the block list
    blk = [c for c in calls_ if attr_chain(c.func) == "Block"]
    if blk:
        r.check(ast.unparse(blk[0].args[0]) == "len(self.block_list.blocks)", asm, "block index = len(block list)", f"Block index is {ast.unparse(blk[0].args[0])}, not the position in the block list", blk[0], key="block-index")
    return r


vertex_ownership.rule_id = "C06.VERTEX-OWNERSHIP"


# --------------------------------------------------------------------------------------------
NONDET_CALLS = {"id", "hash"}
NONDET_PREFIXES = ("time.", "random.", "np.random.", "numpy.random.", "uuid.", "secrets.", "os.getpid", "os.urandom", "datetime.")


def nondet_sources(fn: FuncInfo) -> List[ast.AST]:
    out = []
    for n in ast.walk(fn.node):
        if isinstance(n, ast.Call):
            nm = attr_chain(n.func) or ""
            if nm in NONDET_CALLS or nm.startswith(NONDET_PREFIXES):
                out.append(n)
        elif isinstance(n, ast.Attribute) and attr_chain(n) == "os.environ":
            out.append(n)
    return out


def write_closure(repo: Repo) -> Set[FuncInfo]:
    roots = [repo.func("mesh.Mesh.write"), repo.func("mesh.Mesh.assemble")]
    return repo.reachable(roots)


def identity_labels(repo: Repo, prop: str, rule: str) -> RuleRun:
    r = RuleRun(prop, rule, floor=3, what="no value derived from id()/hash()/time/random/environment reaches a written string or a stored label")
    closure = write_closure(repo)
    # entity constructors feed the write closure through stored state
    elem = repo.cls("base.element.ElementBase")
    # every method of an entity can store state that assemble() later reads (patch names, labels, zones)
    entity_methods = [f for c in [elem, *repo.subclasses(elem)] for f in c.methods.values()]
    mesh_methods = list(repo.cls("mesh.Mesh").methods.values())
    ctor_closure = repo.reachable([*entity_methods, *mesh_methods])
    relevant = closure | ctor_closure
    scanned = 0
    for fn in sorted(repo.all_functions(), key=lambda f: f.qualname):
        scanned += 1
        for s in nondet_sources(fn):
            nm = attr_chain(s.func) if isinstance(s, ast.Call) else attr_chain(s)
            if fn not in relevant:
                r.ok(fn, f"{nm}: outside the closure of Mesh.* and of the entity classes (cannot reach the written file)", key=nm)
                continue
            # flows into a string / return value / stored value?
            p = parent(s)
            into_str = False
            while p is not None and not isinstance(p, ast.stmt):
                if isinstance(p, (ast.JoinedStr, ast.FormattedValue)) or (isinstance(p, ast.Call) and attr_chain(p.func) in ("str", "repr", "format")):
                    into_str = True
                p = parent(p)
            st = p
            stored = isinstance(st, (ast.Return, ast.Assign, ast.AnnAssign, ast.AugAssign))
            if into_str or stored:
                r.bad(
                    fn,
                    f"{nm}() flows into a {'string' if into_str else 'stored value'} in a function on the path to the written dictionary: the same script "
                    "writes a different file on every run, and a copy() (deepcopy changes the identity) refers to a label that is never defined",
                    st,
                    key=nm,
                )
            else:
                r.ok(fn, f"{nm} used in a comparison only", key=nm)
    r.note(f"{scanned} functions scanned; {len(relevant)} of them lie in the closure of the Mesh methods or of the entity (ElementBase) classes")
    return r


def geometry_label(repo: Repo) -> RuleRun:
    return identity_labels(repo, PROP, "C06.GEOMETRY-LABEL")


geometry_label.rule_id = "C06.GEOMETRY-LABEL"


# --------------------------------------------------------------------------------------------
def precision(repo: Repo) -> RuleRun:
    r = RuleRun(PROP, "C06.PRECISION", floor=3, what="decimals printed by vector_format >= -log10(TOL)")
    mod = repo.module("util.constants")
    vf = repo.func("util.constants.vector_format")
    tol = mod.assigns.get("TOL")
    r.require(tol is not None, "constants.TOL vanished")
    try:
        tolv = float(ast.literal_eval(tol))
    except Exception as err:  # noqa: BLE001
        raise AnalysisError("constants.TOL is not a literal") from err
    specs = []
    for n in ast.walk(vf.node):
        if isinstance(n, ast.FormattedValue) and n.format_spec is not None:
            spec = "".join(v.value for v in n.format_spec.values if isinstance(v, ast.Constant))
            specs.append(spec)
    r.require(len(specs) >= 3, "vector_format: three formatted components expected")
    for i, spec in enumerate(specs):
        ok = False
        dec = None
        if spec.startswith(".") and spec[-1] in "fFeE" and spec[1:-1].isdigit():
            dec = int(spec[1:-1])
            ok = 10.0 ** (-dec) <= tolv * 1.0000001 if spec[-1] in "fF" else dec >= 7
        r.check(ok, vf, f"component {i}: '{spec}' resolves TOL={tolv}", f"vector_format prints component {i} with format '{spec}': distinct vertices closer than the print resolution (but farther than TOL={tolv}) would be written identically", vf.node, key=f"component{i}")
    return r


precision.rule_id = "C06.PRECISION"

def patch_state(repo: Repo) -> RuleRun:
    """Abstract run of the PatchList mutators the mesh exposes: what the user declared is what is stored."""
    r = RuleRun(PROP, "C06.PATCH-STATE", floor=8, what="PatchList.modify / set_default / merge / get store exactly what was declared")
    pl_cls = repo.cls("lists.patch_list.PatchList")
    modify = repo.func("lists.patch_list.PatchList.modify")

    def fresh():
        pl = Obj("patch_list", cls=pl_cls)
        pl.set("patches", {})
        pl.set("default", {})
        pl.set("merged", [])
        return pl

    def ev():
        return Evaluator(repo=repo, module=modify.module)

    pl = fresh()
    _run(ev(), modify, [pl, "inlet", "wall", ["a 1"]])
    p1 = pl.get("patches").get("inlet")
    ok = isinstance(p1, Obj) and p1.get("kind") == "wall" and p1.get("settings") == ["a 1"] and p1.get("name") == "inlet"
    r.check(ok, modify, "modify creates the patch with type and settings", f"modify('inlet','wall',['a 1']) stores {p1._attrs if isinstance(p1, Obj) else p1}", modify.node, key="modify:new")
    _run(ev(), modify, [pl, "inlet", "cyclic", None])
    r.check(p1.get("kind") == "cyclic" and p1.get("settings") == ["a 1"], modify, "settings=None keeps the settings, type changes", f"modify(..., settings=None) leaves kind={p1.get('kind')!r}, settings={p1.get('settings')!r}", modify.node, key="modify:none")
    _run(ev(), modify, [pl, "inlet", "wall", []])
    r.check(p1.get("settings") == [], modify, "an empty settings list clears the settings", f"modify('inlet','wall',[]) leaves the old settings {p1.get('settings')!r} in place: settings once given can never be removed and are still written", modify.node, key="modify:empty")
    _run(ev(), modify, [pl, "inlet", "patch", ["b 2", "c 3"]])
    r.check(p1.get("settings") == ["b 2", "c 3"] and pl.get("patches").get("inlet") is p1 and len(pl.get("patches")) == 1, modify, "modify replaces settings on the same patch object", f"repeated modify gives {p1.get('settings')!r} / {list(pl.get('patches'))}", modify.node, key="modify:replace")
    sd = repo.func("lists.patch_list.PatchList.set_default")
    _run(ev(), sd, [pl, "walls", "wall"])
    r.check(pl.get("default") == {"name": "walls", "kind": "wall"}, sd, "default patch stored as name/kind", f"set_default('walls','wall') stores {pl.get('default')}", sd.node, key="set_default")
    desc = repo.func("lists.patch_list.PatchList.description")
    src = ast.unparse(desc.node)
    r.check("self.default['name']" in src and "self.default['kind']" in src and "name {" in src.replace("\\t", "") and "type {" in src.replace("\\t", ""), desc, "defaultPatch writes name and type", "PatchList.description does not write defaultPatch name/type from the stored default", desc.node, key="default:writer")
    # Patch.description: type, settings, faces
    pd = repo.func("items.patch.Patch.description")
    patch = Obj("patch", cls=repo.cls("items.patch.Patch"))
    patch.set("name", "NAME")
    patch.set("kind", "KIND")
    patch.set("settings", ["S1", "S2"])
    patch.set("sides", [Obj("q0", description="(0 1 2 3)"), Obj("q1", description="(4 5 6 7)")])
    text = _run(Evaluator(repo=repo, module=pd.module), pd, [patch])
    want_order = ["NAME", "type KIND;", "S1;", "S2;", "faces", "(0 1 2 3)", "(4 5 6 7)"]
    pos = [text.find(w) if isinstance(text, str) else -1 for w in want_order]
    r.check(isinstance(text, str) and all(x >= 0 for x in pos) and pos == sorted(pos), pd, "patch entry: name, type, settings, every quad", f"Patch.description renders {text!r}; expected name, 'type KIND;', each setting and every assigned quad once", pd.node, key="patch:description")
    # Patch.add_side refuses the same quad twice (Side equality by vertex set)
    pa = repo.func("items.patch.Patch.add_side")
    patch.set("sides", [])
    s1 = Obj("side1")
    _run(Evaluator(repo=repo, module=pa.module), pa, [patch, s1])
    _run(Evaluator(repo=repo, module=pa.module), pa, [patch, s1])
    r.check(patch.get("sides") == [s1], pa, "a quad is listed once per patch", f"Patch.add_side lists the same quad {len(patch.get('sides'))} times", pa.node, key="patch:add_side")
    return r


patch_state.rule_id = "C06.PATCH-STATE"


def delete_skip(repo: Repo) -> RuleRun:
    from . import c12

    res = c12.delete_skip(repo)
    res.prop, res.rule = PROP, "C06.DELETE-SKIP"
    for f in res.findings:
        f.property, f.rule = PROP, "C06.DELETE-SKIP"
    return res


delete_skip.rule_id = "C06.DELETE-SKIP"

def assemble_walk(repo: Repo, prop: str = PROP, rule: str = "C06.ASSEMBLE-WALK") -> RuleRun:
    """Abstract run of Mesh.assemble over a symbolic depot (a lone operation, a 4-operation shape, a lone
    operation) with every single operation deleted in turn: each non-deleted operation yields exactly one
    block, in depot order, with its chops, cell zone, patches and faces; nothing else is skipped."""
    r = RuleRun(prop, rule, floor=10, what="assemble() turns every non-deleted operation, and only those, into one block in depot order")
    fn = repo.func("mesh.Mesh.assemble")
    op_cls = repo.cls("construct.operations.operation.Operation")

    def mk_op(name):
        o = Obj(name, cls=op_cls)
        o.set("chops", {0: [f"{name}.c0"], 1: [], 2: [f"{name}.c2a", f"{name}.c2b"]})
        o.set("cell_zone", f"zone-{name}")
        o.set("geometry", None)
        return o

    for deleted in (None, 0, 1, 2, 3, 4, 5, "assembled"):
        ops = [mk_op(f"op{i}") for i in range(6)]
        shape = Obj("shape", cls=repo.cls("construct.shape.Shape"))
        shape.set("operations", ops[1:5])
        shape.set("geometry", {"geo": ["x"]})
        depot = [ops[0], shape, ops[5]]
        mesh = Obj("mesh", cls=repo.cls("mesh.Mesh"))
        mesh.set("depot", depot)
        mesh.set("deleted", {ops[deleted]} if isinstance(deleted, int) else set())
        empty_defaults(repo, repo.cls("mesh.Mesh"), mesh)
        bl = Obj("block_list")
        bl.set("blocks", [])
        mesh.set("block_list", bl)
        for nm in ("edge_list", "patch_list", "face_list", "geometry_list", "vertex_list"):
            mesh.set(nm, Obj(nm))
        mesh.get("vertex_list").set("vertices", [Sym("V:old")] if deleted == "assembled" else [])
        if deleted == "assembled":
            bl.get("blocks").append(Obj("block-of-the-first-assembly"))
        ev_log = []

        def hook(ev, call: ast.Call, name, ev_log=ev_log, bl=bl):
            ch = attr_chain(call.func) or ""
            if ch == "self._add_vertices":
                o = ev.eval(call.args[0])
                return [Sym(f"V:{o._name}:{k}") for k in range(8)]
            if ch == "Block":
                args = [ev.eval(a) for a in call.args]
                b = Obj("block")
                b.set("index", args[0])
                b.set("vertices", args[1])
                b.set("chops", [])
                b.set("edges", [])
                return b
            if ch == "self.edge_list.add_from_operation":
                return []
            if isinstance(call.func, ast.Attribute) and call.func.attr == "chop" and isinstance(ev.eval(call.func.value), Obj) and ev.eval(call.func.value)._name == "block":
                b = ev.eval(call.func.value)
                b.get("chops").append((ev.eval(call.args[0]), ev.eval(call.args[1])))
                return None
            if ch == "self.block_list.add":
                b = ev.eval(call.args[0])
                bl.get("blocks").append(b)
                ev_log.append(("block", b))
                return None
            if ch in ("self.patch_list.add", "self.face_list.add"):
                args = [ev.eval(a) for a in call.args]
                ev_log.append((ch.split(".")[1], args))
                return None
            if ch in ("self.add_geometry", "self.geometry_list.add"):
                ev_log.append(("geometry", ev.eval(call.args[0])))
                return None
            if ch == "get_args":
                return (0, 1, 2)
            return NO_MATCH

        try:
            Evaluator(repo=repo, module=fn.module, call_hook=hook).call_funcinfo(fn, [mesh])
        except Raised as err:
            r.bad(fn, f"Mesh.assemble raises {err.exc_name} on the symbolic depot (deleted: {deleted})", fn.node, key=f"deleted={deleted}")
            continue
        except NotEvaluable as err:
            raise AnalysisError(f"Mesh.assemble not evaluable on the symbolic depot: {err}") from err
        if deleted == "assembled":
            # a mesh that is assembled already: a second assemble() must not add every block (vertex, patch, face) a second time
            r.check(
                len(bl.get("blocks")) == 1 and not ev_log,
                fn,
                "assemble() on an assembled mesh adds nothing",
                f"Mesh.assemble on a mesh that is assembled already appends {len(bl.get('blocks')) - 1} more block(s) for the same operations: assemble(); assemble(); write() writes every block twice, "
                "a history the single assembly does not reproduce",
                fn.node,
                key="assembled-twice",
            )
            continue
        live = [o for i, o in enumerate(ops) if i != deleted]
        blocks = bl.get("blocks")
        problems = []
        got_ops = [repr(b.get("vertices")[0]).split(":")[1] for b in blocks]
        if got_ops != [o._name for o in live]:
            problems.append(f"blocks were created for operations {got_ops}; the non-deleted operations are {[o._name for o in live]}")
        else:
            for i, (b, o) in enumerate(zip(blocks, live)):
                if b.get("index") != i:
                    problems.append(f"block of {o._name} gets index {b.get('index')} instead of {i}")
                want_chops = [(a, c) for a in (0, 1, 2) for c in o.get("chops")[a]]
                if b.get("chops") != want_chops:
                    problems.append(f"block of {o._name} receives chops {b.get('chops')} instead of {want_chops}")
                if not b.has("cell_zone") or b.get("cell_zone") != o.get("cell_zone"):
                    problems.append(f"block of {o._name} has no / the wrong cell zone")
            for kind in ("patch_list", "face_list"):
                seen = [a[1]._name for k, a in ev_log if k == kind]
                if seen != [o._name for o in live]:
                    problems.append(f"{kind}.add called for {seen}")
                for k, a in ev_log:
                    if k == kind and [repr(x) for x in a[0]] != [f"V:{a[1]._name}:{j}" for j in range(8)]:
                        problems.append(f"{kind}.add for {a[1]._name} receives the vertices of another operation")
        # assemble() reads the model: the entity's own list of operations is as it was (what was deleted stays addressable and
        # the core / shell slices of a shape keep their meaning)
        if shape.get("operations") != ops[1:5] or any(a is not b for a, b in zip(shape.get("operations"), ops[1:5])):
            problems.append(f"assemble() changed the shape's own operations list to {[o._name for o in shape.get('operations')]}")
        if mesh.get("depot") != depot:
            problems.append("assemble() changed the mesh's depot")
        geos = [g for k, g in ev_log if k == "geometry"]
        if geos != [{"geo": ["x"]}]:
            problems.append(f"geometries added: {geos}; expected the shape's geometry once")
        r.check(not problems, fn, f"deleted={deleted}: {len(blocks)} blocks", f"Mesh.assemble with operation {deleted} of [op0, shape(op1..op4), op5] deleted: " + "; ".join(problems[:4]), fn.node, key=f"deleted={deleted}")
    # Mesh.delete records the operation unconditionally - also when its entity is added to the mesh later, or was deleted before
    dl = repo.func("mesh.Mesh.delete")
    for label, depot_has_it, already in (("operation not (yet) in the depot", False, False), ("operation in the depot", True, False), ("operation deleted twice", True, True)):
        target = mk_op("target")
        mesh_ = Obj("mesh", cls=repo.cls("mesh.Mesh"))
        mesh_.set("depot", [target] if depot_has_it else [])
        mesh_.set("deleted", {target} if already else set())
        empty_defaults(repo, repo.cls("mesh.Mesh"), mesh_)
        try:
            Evaluator(repo=repo, module=dl.module).call_funcinfo(dl, [mesh_, target])
        except Raised as err:
            r.bad(dl, f"Mesh.delete raises {err.exc_name} ({label})", dl.node, key=f"delete:{label}")
            continue
        except NotEvaluable as err:
            raise AnalysisError(f"Mesh.delete not evaluable: {err}") from err
        r.check(target in mesh_.get("deleted"), dl, f"{label}: recorded as deleted", f"Mesh.delete, {label}: the operation is not in mesh.deleted afterwards - deleting an operation addressed through stack.grid / shape.grid before the stack is added to the mesh is silently ignored and the block is written", dl.node, key=f"delete:{label}")
    return r


assemble_walk.rule_id = "C06.ASSEMBLE-WALK"

def user_state_survives(repo: Repo) -> RuleRun:
    """'exactly the patches, merges ... the user declared': clear() and backport() empty what assemble() fills and nothing else (merged pairs, patch settings, the deleted set). Same rule as C12.CLEAR-COMPLETE."""
    from ..report import rebrand
    from . import c12

    return rebrand(c12.clear_complete(repo), PROP, "C06.USER-STATE-SURVIVES")


user_state_survives.rule_id = "C06.USER-STATE-SURVIVES"

def grading_form(repo: Repo) -> RuleRun:
    """'hex entries ... with counts and gradings': simpleGrading is written only when all four wires of every axis carry the same grading. Same rule as C04.SIMPLE-ONLY-IF-EQUAL."""
    from ..report import rebrand
    from . import c04

    return rebrand(c04.simple_only_if_equal(repo), PROP, "C06.GRADING-FORM")


grading_form.rule_id = "C06.GRADING-FORM"

def geometry_redeclared(repo: Repo) -> RuleRun:
    """'every geometry a built-in shape projects to is defined' - as the model is NOW: GeometryList.add keeps all names and a
    geometry declared again (a sphere re-assembled after it was moved) replaces the older definition. Abstract run of add()."""
    r = RuleRun(PROP, "C06.GEOMETRY-REDECLARED", floor=2, what="GeometryList.add keeps every name; a re-declared name takes the NEW definition")
    add = repo.func("lists.geometry_list.GeometryList.add")
    gl = Obj("geometry_list", cls=repo.cls("lists.geometry_list.GeometryList"))
    gl.set("geometry", {})
    ev = Evaluator(repo=repo, module=add.module)
    _run(ev, add, [gl, {"sphere_a": Sym("old_a"), "plane": Sym("plane_def")}])
    _run(ev, add, [gl, {"sphere_a": Sym("new_a"), "sphere_b": Sym("b_def")}])
    got = gl.get("geometry")
    r.check(isinstance(got, dict) and set(got) == {"sphere_a", "plane", "sphere_b"}, add, "all three names kept", f"after adding {{sphere_a, plane}} and {{sphere_a, sphere_b}} the geometry list holds {sorted(got) if isinstance(got, dict) else got}", add.node, key="names")
    r.check(
        isinstance(got, dict) and got.get("sphere_a") == Sym("new_a") and got.get("plane") == Sym("plane_def"),
        add,
        "re-declared sphere_a has the new definition",
        f"a geometry declared twice keeps the definition {got.get('sphere_a') if isinstance(got, dict) else got!r}; the later declaration must win (assemble() re-adds a moved sphere's geometry under the same "
        "name - the file would describe the sphere where it used to be)",
        add.node,
        key="latest-wins",
    )
    return r


geometry_redeclared.rule_id = "C06.GEOMETRY-REDECLARED"

def vertex_tolerance(repo: Repo) -> RuleRun:
    """'vertices are the model's points': two model points further apart than the merge tolerance are never written as one vertex - the coincidence tests are purely absolute. Same rule as C05.TOLERANCE-SIBLINGS."""
    from ..report import rebrand
    from . import c05

    return rebrand(c05.tolerance_siblings(repo), PROP, "C06.VERTEX-TOLERANCE")


vertex_tolerance.rule_id = "C06.VERTEX-TOLERANCE"

def grade_idempotent(repo: Repo) -> RuleRun:
    """'hex entries ... with counts': writing the same mesh twice writes the same counts. Same rule as C12.GRADE-IDEMPOTENT."""
    from ..report import rebrand
    from . import c12

    return rebrand(c12.grade_idempotent(repo), PROP, "C06.GRADE-IDEMPOTENT")


grade_idempotent.rule_id = "C06.GRADE-IDEMPOTENT"

def live_lengths(repo: Repo) -> RuleRun:
    """'every geometry a built-in shape projects to is defined' with the size the shape has NOW: the sphere's radius is measured from its live points, not remembered from construction."""
    from ..transforms import length_snapshot_rule

    return length_snapshot_rule(repo, PROP, "C06.LIVE-LENGTHS")


live_lengths.rule_id = "C06.LIVE-LENGTHS"

def axis_table(repo: Repo) -> RuleRun:
    """'hex entries ... with counts and gradings': the twelve edgeGrading numbers are written in blockMesh's edge order, each from the wire of that edge. Same rule as C01.AXIS-TABLE."""
    from ..report import rebrand
    from . import c01

    return rebrand(c01.axis_table(repo), PROP, "C06.AXIS-TABLE")


axis_table.rule_id = "C06.AXIS-TABLE"

def corner_patches(repo: Repo) -> RuleRun:
    """'exactly the patches the user declared': a side name addresses the four corners of that side and no fifth. Same rule as C05.CORNER-PATCHES."""
    from ..report import rebrand
    from . import c05

    return rebrand(c05.corner_patches(repo), PROP, "C06.CORNER-PATCHES")


corner_patches.rule_id = "C06.CORNER-PATCHES"

def empty_patch(repo: Repo) -> RuleRun:
    """'exactly the patches ... the user declared': the boundary section lists the patches that have faces. Same rule as C12.EMPTY-PATCH."""
    from . import c12

    return c12.empty_patch(repo, PROP, "C06.EMPTY-PATCH")


empty_patch.rule_id = "C06.EMPTY-PATCH"

def side_addressing(repo: Repo) -> RuleRun:
    """'quads of the assigned sides': set_patch with one side or a list of sides assigns exactly those sides. Same rule as C10.SIDE-ADDRESSING."""
    from ..report import rebrand
    from . import c10

    return rebrand(c10.side_addressing(repo), PROP, "C06.SIDE-ADDRESSING")


side_addressing.rule_id = "C06.SIDE-ADDRESSING"


def no_class_state(repo: Repo) -> RuleRun:
    """'each non-deleted operation': what was deleted belongs to one mesh. Same rule as C12.NO-CLASS-STATE."""
    from ..alias import class_state_rule

    return class_state_rule(repo, PROP, "C06.NO-CLASS-STATE")


no_class_state.rule_id = "C06.NO-CLASS-STATE"

def geometry_role_free(repo: Repo, prop: str = PROP, rule: str = "C06.GEOMETRY-ROLE-FREE") -> RuleRun:
    """'every geometry a built-in shape projects to is defined' - where the shape is NOW: Operation.mirror() swaps the bottom and
    the top face of every operation, so a searchable surface whose centre / radius is looked up through ``<operation>.bottom_face``
    (or top_face) describes another place once the shape was mirrored. The call closure of every ``geometry`` property is examined:
    it must reach the defining points without going through a face ROLE."""
    r = RuleRun(prop, rule, floor=1, what="the geometry (searchable surface) a shape declares is computed from remembered points, not looked up through bottom_face / top_face of its operations (which a mirror swaps)")
    elem = repo.cls("base.element.ElementBase")
    n = 0
    for cls in sorted(repo.subclasses(elem), key=lambda c: c.qualname):
        g = cls.methods.get("geometry")
        if g is None or not g.is_property:
            continue
        rets = [x.value for x in ast.walk(g.node) if isinstance(x, ast.Return) and x.value is not None]
        if all(isinstance(v, ast.Constant) and v.value is None for v in rets):
            continue
        n += 1
        hits = []
        seen, todo = set(), [g]
        while todo:
            f_ = todo.pop()
            if f_ in seen or not f_.params:
                continue
            seen.add(f_)
            sn = f_.params[0]
            for x in ast.walk(f_.node):
                if isinstance(x, ast.Attribute) and x.attr in ("bottom_face", "top_face"):
                    hits.append((f_, x))
                if isinstance(x, ast.Attribute) and isinstance(x.value, ast.Name) and x.value.id == sn:
                    m_ = repo.find_method(cls, x.attr)
                    if m_ is not None and m_.is_property:
                        todo.append(m_)
        r.check(
            not hits,
            g,
            f"{cls.name}.geometry: defining points reached without a face role",
            f"{cls.name}.geometry depends on '{ast.unparse(parent(hits[0][1]) if hits else g.node)[:70]}' (in {hits[0][0].qualname if hits else ''}): after mirror() the operation's bottom and top faces are swapped, "
            "so the declared searchable surface has another centre / radius than the mirrored shape (e.g. centre (0.443, -1.514, 0.529), radius 0.713 for a unit hemisphere) and the projected faces snap to the wrong surface",
            hits[0][1] if hits else g.node,
            key=f"geometry:{cls.name}",
        )
    r.require(n >= 1, "no shape with a geometry of its own found (EighthSphere restructured?)")
    return r


geometry_role_free.rule_id = "C06.GEOMETRY-ROLE-FREE"

def labels_private(repo: Repo) -> RuleRun:
    """'... exactly the ... projected sides ... the user declared': what one operation declares does not leak into another operation's points. Same rule as C05.LABELS-PRIVATE."""
    from . import c05

    return c05.labels_private(repo, PROP, "C06.LABELS-PRIVATE")


labels_private.rule_id = "C06.LABELS-PRIVATE"


def projected_once(repo: Repo) -> RuleRun:
    """'... the faces section contains exactly the ... projected sides ... the user declared': a side shared by two blocks and
    projected from both is written once - wherever in the list its first entry sits. Abstract run of FaceList.add_side on
    sequences of sides with repetitions at the first, a middle and the last position."""
    r = RuleRun(PROP, "C06.PROJECTED-ONCE", floor=4, what="FaceList.add_side keeps one entry per side, whatever the position of the earlier entry in the list; distinct sides are all kept, in order")
    fn = repo.func("lists.face_list.FaceList.add_side")
    cls = repo.cls("lists.face_list.FaceList")
    for label, seq in (
        ("repeat of the first entry", ["A", "B", "C", "A"]),
        ("repeat of a middle entry", ["A", "B", "C", "B"]),
        ("repeat of the last entry", ["A", "B", "C", "C"]),
        ("every side from both blocks", ["A", "A", "B", "B", "C", "C"]),
        ("no repetition", ["A", "B", "C", "D"]),
    ):
        fl = Obj("facelist", cls=cls)
        fl.set("faces", [])

        def hook(ev, call: ast.Call, name):
            if (name or "").split(".")[-1] == "ProjectedFace":
                args = [ev.eval(a) for a in call.args]
                return Obj(f"entry:{args[0]}", side=args[0], label=args[1])
            return NO_MATCH

        try:
            for sd in seq:
                Evaluator(repo=repo, module=fn.module, call_hook=hook).call_funcinfo(fn, [fl, sd, f"geo-{sd}"])
        except (Raised, NotEvaluable) as err:
            raise AnalysisError(f"FaceList.add_side not evaluable on symbolic sides: {err}") from err
        got = [e.get("side") for e in fl.get("faces")]
        want = list(dict.fromkeys(seq))
        r.check(got == want, fn, f"{label}: {got}", f"FaceList.add_side, sides added in the order {seq} ({label}): the list holds {got}, expected {want} - a side shared by two blocks and projected from both is written twice into the faces section (or a declared one is lost)", fn.node, key=f"seq:{label}")
    return r


projected_once.rule_id = "C06.PROJECTED-ONCE"


def side_identity(repo: Repo) -> RuleRun:
    """'every patch quad ... is a side of some block' - once: two blocks name their common face with the same four vertices in
    different orders, so a side is identified by the SET of its vertices. Abstract run of Side.__eq__."""
    r = RuleRun(PROP, "C06.SIDE-IDENTITY", floor=4, what="Side.__eq__ compares the sets of vertex indexes: equal for every order of the same four vertices, unequal otherwise")
    cls = repo.cls("items.side.Side")
    fn = repo.find_method(cls, "__eq__")
    r.require(fn is not None, "Side.__eq__ vanished")

    def side(name, idx):
        s_ = Obj(name, cls=cls)
        s_.set("vertices", [Obj(f"v{i}", index=i) for i in idx])
        return s_

    for label, a, b, want in (
        ("same order", [4, 5, 6, 7], [4, 5, 6, 7], True),
        ("the neighbour's numbering: rotated start", [4, 5, 6, 7], [5, 6, 7, 4], True),
        ("the neighbour's numbering: opposite sense", [4, 5, 6, 7], [7, 6, 5, 4], True),
        ("arbitrary permutation", [4, 5, 6, 7], [6, 4, 7, 5], True),
        ("another face sharing an edge", [4, 5, 6, 7], [4, 5, 1, 0], False),
        ("disjoint", [0, 1, 2, 3], [4, 5, 6, 7], False),
    ):
        try:
            got = Evaluator(repo=repo, module=fn.module).call_funcinfo(fn, [side("s1", a), side("s2", b)])
        except (Raised, NotEvaluable) as err:
            raise AnalysisError(f"Side.__eq__ not evaluable: {err}") from err
        r.check(got is want, fn, f"{label}: {got}", f"Side.__eq__ for vertex lists {a} and {b} ({label}) gives {got!r}; expected {want}: an internal face that both neighbours assign to a patch / project is written twice (or two different faces are taken for one)", fn.node, key=f"eq:{label}")
    return r


side_identity.rule_id = "C06.SIDE-IDENTITY"


RULES = [sections, side_tables, vertex_ownership, assemble_walk, patch_state, delete_skip, geometry_label, precision, user_state_survives, grading_form, geometry_redeclared, vertex_tolerance, grade_idempotent, live_lengths, axis_table, corner_patches, empty_patch, side_addressing, no_class_state, geometry_role_free, labels_private, projected_once, side_identity]

"""C10 - face re-indexing and side/edge/corner addressing hit the intended geometry."""

from __future__ import annotations

import ast
from typing import Any, Dict, List, Optional

from .. import hexa, tables
from ..model import AnalysisError, FuncInfo, Repo, attr_chain
from ..peval import NO_MATCH, Evaluator, NotEvaluable, Obj, Raised, Sym
from ..report import RuleRun

PROP = "C10"
TITLE = "Face re-indexing and side/edge/corner addressing hit the intended geometry"
DECIDES = (
    "Face.shift/invert/reorient evaluated abstractly on symbolic points p0..p3 / edges e0..e3: same four points, every edge "
    "stays between its two points, invert reverses the sense, reorient brings the nearest corner to position 0 for all four "
    "corners (C10.FACE-PERMUTATIONS); tools.edge_map + EdgeLocation.start_corner + Operation.project_edge address the slot whose "
    "end corners are the given pair for all 24 ordered block-edge pairs and refuse the 32 non-edges (C10.EDGE-MAP); "
    "get_index_from_side, set_patch, patch_names, project_side (edges and points), project_corner, get_face and Side select exactly "
    "the corners/edges of that side in the blockMesh hexahedron convention (C10.SIDE-ADDRESSING); the polarity of the three "
    "nearest/most-aligned selections (C10.SELECT-POLARITY)."
    ' face permutations are history-independent: the same calls on a second face in the same abstract process give the result of a fresh one (class-level state rotated in place is reported); set_patch with lists of several sides in different orders sets exactly the listed sides.'
    ' No function keeps and modifies a label list or other object it was handed (C10.ARGUMENTS-UNTOUCHED); FaceList writes the quad of the projected side (C10.WRITTEN-SIDES = C06.SIDE-TABLES).'
    ' Every projected edge slot holds its own Project record (C10.NO-SHARED-PARTS); corner/side lookup (C10.CORNER-PATCHES).'
    ' What belongs to a corner - position and projections - moves with it under shift (part of C10.FACE-PERMUTATIONS); every occupied corner pair is listed once also for shared payload objects (C10.BEAM-LIST).'
)
NOT_DECIDED = "which corner is geometrically 'closest' for degenerate distances; face normals (geometry)."
ASSUMPTIONS = ["corner k of an operation is bottom_face.points[k] for k<4 and top_face.points[k-4] otherwise (checked against Operation.points)"]


def _run(ev: Evaluator, fi: FuncInfo, args, kwargs=None):
    try:
        return ev.call_funcinfo(fi, args, kwargs)
    except Raised as err:
        return ("raised", err.exc_name)
    except NotEvaluable as err:
        raise AnalysisError(f"{fi.qualname} not evaluable on the symbolic model: {err}") from err


def sym_face(repo: Repo, name: str = "face", line_cls=None) -> Obj:
    face = Obj(name, cls=repo.cls("construct.flat.face.Face"))
    # corner points: objects of class Point that carry their own position and projections - what belongs to a corner must move
    # with it when the face is re-indexed
    pcls = repo.cls("construct.point.Point")
    pts = []
    for i in range(4):
        pt = Obj(f"{name}.p{i}", cls=pcls)
        pt.set("position", Sym(f"{name}.x{i}"))
        pt.set("projected_to", [f"surface-of-{name}.p{i}"])
        pts.append(pt)
    face.set("points", pts)
    # edge-data records: objects of class Line (or the class asked for), so that methods the repository calls on them
    # (EdgeData.reverse() from Face.invert, ...) are dispatched through the repository's own MRO
    ecls = line_cls if line_cls is not None else repo.cls("construct.edges.Line")
    face.set("edges", [Obj(f"{name}.e{i}", cls=ecls) for i in range(4)])
    face.set("projected_to", None)
    face.set("patch_name", None)
    return face


def _edge_ends_ok(points0, edges0, points1, edges1) -> Optional[str]:
    """Invariant: edge originally between p_i,p_{i+1} must sit in a slot j with {P'[j],P'[j+1]} = {p_i,p_{i+1}}."""
    if sorted(map(repr, points1)) != sorted(map(repr, points0)):
        return f"points changed: {points1}"
    if sorted(map(repr, edges1)) != sorted(map(repr, edges0)):
        return f"edges changed: {edges1}"
    for j, e in enumerate(edges1):
        i = edges0.index(e)
        want = {points0[i], points0[(i + 1) % 4]}
        got = {points1[j], points1[(j + 1) % 4]}
        if want != got:
            return f"edge {e} (between {sorted(map(repr, want))}) ends up in slot {j} between {sorted(map(repr, got))}"
    return None


def _cyclic_sense(points0, points1) -> int:
    """+1 if points1 is a rotation of points0, -1 if a rotation of its reverse, 0 otherwise."""
    n = len(points0)
    for s in range(n):
        if [points0[(s + i) % n] for i in range(n)] == list(points1):
            return 1
    rev = list(reversed(points0))
    for s in range(n):
        if [rev[(s + i) % n] for i in range(n)] == list(points1):
            return -1
    return 0


def nearest_hook(k: int, n: int = 4):
    """Emulates 'order candidates by distance to a target' for the case that candidate k is the
    nearest: recognises list.sort(key=...), sorted(..., key=...), min(..., key=...), np.argmin,
    np.argsort where the key/argument is a distance (norm of a difference)."""
    asc = [k, (k + 1) % n, (k + n - 1) % n] + [(k + i) % n for i in range(2, n - 1)]
    asc = list(dict.fromkeys(asc))

    def is_distance(expr: ast.AST) -> bool:
        for c in ast.walk(expr):
            if isinstance(c, ast.Call):
                nm = attr_chain(c.func) or ""
                if nm.split(".")[-1] == "norm" and c.args and any(isinstance(s, ast.BinOp) and isinstance(s.op, ast.Sub) for s in ast.walk(c.args[0])):
                    return True
        return False

    def hook(ev: Evaluator, call: ast.Call, name):
        kw = {k_.arg: k_.value for k_ in call.keywords}
        rev = False
        if "reverse" in kw:
            rev = bool(ev.eval(kw["reverse"]))
        if isinstance(call.func, ast.Attribute) and call.func.attr == "sort" and "key" in kw and is_distance(kw["key"]):
            lst = ev.eval(call.func.value)
            if not (isinstance(lst, list) and all(isinstance(x, int) and not isinstance(x, bool) and 0 <= x < n for x in lst) and len(set(lst)) == len(lst)):
                raise NotEvaluable("sort by distance over something else than candidate indexes")
            order = list(reversed(asc)) if rev else list(asc)
            lst[:] = [x for x in order if x in lst]  # the candidates that are offered, nearest first
            return None
        if name == "sorted" and "key" in kw and is_distance(kw["key"]):
            return list(reversed(asc)) if rev else list(asc)
        if name == "min" and "key" in kw and is_distance(kw["key"]):
            return k
        if name == "max" and "key" in kw and is_distance(kw["key"]):
            return asc[-1]
        if name in ("np.argmin", "numpy.argmin") and call.args and is_distance_var(ev, call.args[0]):
            return k
        if name in ("np.argmax", "numpy.argmax") and call.args and is_distance_var(ev, call.args[0]):
            return asc[-1]
        if name in ("np.array", "np.asarray", "numpy.array", "numpy.asarray"):
            return Sym("array")
        return NO_MATCH

    def is_distance_var(ev, expr):
        return is_distance(expr) or (isinstance(expr, ast.Name) and isinstance(ev.env.get(expr.id), Sym) and ev.env[expr.id].name == "distances")

    return hook


# --------------------------------------------------------------------------------------------
def face_permutations(repo: Repo) -> RuleRun:
    r = RuleRun(PROP, "C10.FACE-PERMUTATIONS", floor=14, what="shift / invert / reorient on symbolic points and edges")
    r.exhaustive = True
    shift = repo.func("construct.flat.face.Face.shift")
    invert = repo.func("construct.flat.face.Face.invert")
    reorient = repo.func("construct.flat.face.Face.reorient")

    def arr_hook(ev, call: ast.Call, name):
        if name in ("np.array", "np.asarray", "numpy.array", "numpy.asarray") and call.args:
            return ev.eval(call.args[0])
        return NO_MATCH

    def corner_sig(p):
        """what belongs to one corner: where it is and what it is projected to"""
        if isinstance(p, Obj) and p.has("position"):
            return (repr(p.get("position")), tuple(p.get("projected_to")) if p.has("projected_to") else ())
        return (repr(p), ())

    for c in range(-4, 5):
        face = sym_face(repo)
        p0, e0 = list(face.get("points")), list(face.get("edges"))
        sig0 = [corner_sig(p) for p in p0]
        ev = Evaluator(repo=repo, module=shift.module, call_hook=arr_hook)
        _run(ev, shift, [face, c])
        p1, e1 = face.get("points"), face.get("edges")
        sig1 = [corner_sig(p) for p in p1]
        err = None
        if sorted(sig1) != sorted(sig0):
            err = f"the corners' positions and projections no longer belong together: {sig1} (before: {sig0}) - a projection declared on one corner now sits on another"
        elif _cyclic_sense(sig0, sig1) != 1:
            err = f"shift({c}) is not a cyclic rotation: {sig1}"
        else:
            # edges: slot j of the result must hold the edge that originally ran between the corners now at j and j+1
            for j, e in enumerate(e1):
                i = e0.index(e) if e in e0 else None
                if i is None or {sig0[i], sig0[(i + 1) % 4]} != {sig1[j], sig1[(j + 1) % 4]}:
                    err = f"edge {e} does not connect its original corners any more (slot {j})"
                    break
        r.check(err is None, shift, f"shift({c}) -> {[x[0] for x in sig1]}", f"Face.shift({c}): {err}", shift.node, key=f"shift({c})")

    face = sym_face(repo)
    p0, e0 = list(face.get("points")), list(face.get("edges"))
    ev = Evaluator(repo=repo, module=invert.module)
    _run(ev, invert, [face])
    p1, e1 = face.get("points"), face.get("edges")
    err = _edge_ends_ok(p0, e0, p1, e1)
    r.check(err is None, invert, f"invert keeps edges between their points: {e1}", f"Face.invert: {err}", invert.node, key="invert:edges")
    r.check(_cyclic_sense(p0, p1) == -1, invert, "invert reverses the sense of rotation", f"Face.invert does not reverse the point order (normal not flipped): {p1}", invert.node, key="invert:sense")

    for k in range(4):
        face = sym_face(repo)
        p0, e0 = list(face.get("points")), list(face.get("edges"))
        for i, p in enumerate(p0):
            pass
        # points are Sym; reorient reads self.points[i].position -> bind through Obj points
        pts = [Obj(f"P{i}", position=Sym(f"pos{i}")) for i in range(4)]
        face.set("points", pts)
        ev = Evaluator(repo=repo, module=reorient.module, call_hook=nearest_hook(k))
        _run(ev, reorient, [face, Sym("target")])
        p1, e1 = face.get("points"), face.get("edges")
        err = _edge_ends_ok(pts, e0, p1, e1)
        first = p1[0] if p1 else None
        ok = err is None and first is pts[k] and _cyclic_sense(pts, p1) == 1
        detail = err or (
            f"re-orienting towards corner {k} makes corner {pts.index(first) if first in pts else '?'} the first point "
            f"(resulting order {p1}); the argument passed to shift() does not bring the nearest index to position 0"
        )
        r.check(ok, reorient, f"nearest corner {k} becomes first", f"Face.reorient: {detail}", reorient.node, key=f"reorient->{k}")
    # history independence: the same calls on a second face, in the same (abstract) process, give the same result as
    # on a fresh one - a permutation kept in class-level or module-level state and changed in place leaks between calls
    for label, calls in (("shift(1) twice", [(shift, [1]), (shift, [1])]), ("shift(-1) then invert then shift(2)", [(shift, [-1]), (invert, []), (shift, [2])]), ("invert twice", [(invert, []), (invert, [])])):
        ev = Evaluator(repo=repo, module=shift.module)
        warm = sym_face(repo)
        for fn_, args_ in calls:
            _run(ev, fn_, [warm, *args_])
        second = sym_face(repo)
        for fn_, args_ in calls:
            _run(ev, fn_, [second, *args_])
        fresh = sym_face(repo)
        for fn_, args_ in calls:
            _run(Evaluator(repo=repo, module=shift.module), fn_, [fresh, *args_])
        same = [repr(x) for x in second.get("points")] == [repr(x) for x in fresh.get("points")] and [repr(x) for x in second.get("edges")] == [repr(x) for x in fresh.get("edges")]
        r.check(
            same,
            shift,
            f"{label}: a second face behaves like a fresh one",
            f"Face permutations depend on earlier calls: after '{label}' on one face, the same calls on another face give points {second.get('points')} / edges {second.get('edges')} "
            f"instead of {fresh.get('points')} / {fresh.get('edges')} - state shared between calls or between faces (a class-level container rotated in place?)",
            shift.node,
            key=f"history:{label}",
        )
    return r


face_permutations.rule_id = "C10.FACE-PERMUTATIONS"


# --------------------------------------------------------------------------------------------
def build_edge_map(repo: Repo):
    tools = repo.module("util.tools")
    ev = Evaluator(repo=repo, module=tools)
    try:
        for st in tools.tree.body:
            if isinstance(st, (ast.Import, ast.ImportFrom, ast.FunctionDef, ast.ClassDef)):
                continue
            if isinstance(st, ast.Expr) and isinstance(st.value, ast.Constant):
                continue
            ev.run_stmt(st)
    except (NotEvaluable, Raised) as err:
        raise AnalysisError(f"module-level construction of util.tools.edge_map not evaluable: {err}") from err
    if "edge_map" not in ev.env:
        raise AnalysisError("anchor vanished: util.tools.edge_map")
    return ev, ev.env["edge_map"]


def slot_corners(where: str, i: int):
    if where == "bottom":
        return frozenset((i, (i + 1) % 4))
    if where == "top":
        return frozenset((i + 4, (i + 1) % 4 + 4))
    return frozenset((i, i + 4))


def sym_operation(repo: Repo, edge_factory=None) -> Obj:
    op = Obj("op", cls=repo.cls("construct.operations.operation.Operation"))
    bottom = sym_face(repo, "bottom")
    top = sym_face(repo, "top")
    op.set("bottom_face", bottom)
    op.set("top_face", top)
    op.set("side_edges", [Sym(f"side.e{i}") for i in range(4)])
    op.set("side_projects", [None, None, None, None])
    op.set("side_patches", [None, None, None, None])
    return op


def edge_map_rule(repo: Repo) -> RuleRun:
    r = RuleRun(PROP, "C10.EDGE-MAP", floor=80, what="corner pair -> (face|side, slot) for all 56 ordered pairs; project_edge writes that slot")
    r.exhaustive = True
    ev, emap = build_edge_map(repo)
    tools = repo.module("util.tools")
    proj = repo.func("construct.operations.operation.Operation.project_edge")

    def lookup(a, b):
        try:
            row = ev.call_method(emap, "__getitem__", [a])
            loc = row[b]
            return loc
        except KeyError:
            return ("raised", "KeyError")
        except Raised as err:
            return ("raised", err.exc_name)

    for a in range(8):
        for b in range(8):
            if a == b:
                continue
            loc = lookup(a, b)
            if hexa.is_edge(a, b):
                if not isinstance(loc, Obj):
                    r.bad(tools, f"block edge {a}-{b} has no entry in edge_map ({loc})", key=f"edge_map[{a}][{b}]")
                    continue
                try:
                    corner = ev.obj_attr(loc, "start_corner")
                    side = ev.obj_attr(loc, "side")
                except Raised as err:
                    r.bad(tools, f"EdgeLocation.start_corner raises {err.exc_name} for block edge {a}-{b}", key=f"edge_map[{a}][{b}]")
                    continue
                except NotEvaluable as err:
                    raise AnalysisError(f"EdgeLocation.start_corner not evaluable: {err}") from err
                where = side if side in ("bottom", "top") else "side"
                ok = isinstance(corner, int) and 0 <= corner < 4 and slot_corners(where, corner) == frozenset((a, b))
                if ok and where == "side":
                    ok = side in hexa.SIDE_CORNERS and {a, b} <= hexa.SIDE_CORNERS[side]
                r.check(
                    ok,
                    tools,
                    f"{a}-{b} -> {side}[{corner}]",
                    f"corner pair {a}-{b} is mapped to {side} slot {corner}, which lies between corners {sorted(slot_corners(where, corner)) if isinstance(corner, int) and 0 <= corner < 4 else '?'}",
                    key=f"edge_map[{a}][{b}]",
                )
            else:
                r.check(
                    isinstance(loc, tuple) and loc[0] == "raised",
                    tools,
                    f"non-edge {a}-{b} refused ({loc[1] if isinstance(loc, tuple) else loc})",
                    f"corner pair {a}-{b} is not a block edge but edge_map has an entry for it",
                    key=f"edge_map[{a}][{b}]",
                )

    # Operation.project_edge writes the addressed slot and only that
    def hook(ev_, call: ast.Call, name):
        if isinstance(call.func, ast.Attribute) and call.func.attr == "_project_update":
            old = ev_.eval(call.args[0])
            return Sym(f"P({old!r})")
        return NO_MATCH

    for a in range(8):
        for b in range(8):
            if not hexa.is_edge(a, b):
                continue
            op = sym_operation(repo)
            before = snapshot_slots(op)
            ev2 = Evaluator(repo=repo, module=proj.module, call_hook=hook)
            ev2.env["edge_map"] = emap
            ev2._const_cache.update(ev._const_cache)
            # edge_map is a module-level object of util.tools: reuse the evaluated instance
            _bind_module_object(ev2, repo, proj, "edge_map", emap)
            res = _run(ev2, proj, [op, a, b, "label"])
            after = snapshot_slots(op)
            changed = {k: v for k, v in after.items() if before[k] != v}
            want_slot = [k for k in before if slot_corners(k[0], k[1]) == frozenset((a, b))]
            ok = isinstance(res, (type(None),)) and list(changed) == want_slot and all(repr(changed[k]) == f"P({before[k]!r})" for k in changed)
            r.check(
                ok,
                proj,
                f"project_edge({a},{b}) updates {want_slot[0][0]}[{want_slot[0][1]}]",
                f"Operation.project_edge({a},{b}) changes {[(k, repr(v)) for k, v in changed.items()]} - expected only {want_slot[0][0]} slot {want_slot[0][1]} (between corners {a},{b}) updated from its own previous value",
                proj.node,
                key=f"project_edge({a},{b})",
            )
    return r


def _bind_module_object(ev: Evaluator, repo: Repo, fi: FuncInfo, name: str, value) -> None:
    """Makes a module-level object evaluated elsewhere visible under `name` in fi's module."""
    obj = repo.resolve_name(fi.module, name)
    if isinstance(obj, tuple) and obj[0] == "const":
        key = (obj[2].name, ast.dump(obj[1])[:200] + str(getattr(obj[1], "lineno", 0)))
        ev._const_cache[key] = value
    else:
        raise AnalysisError(f"{name} is not visible in {fi.module.name}")


def snapshot_slots(op: Obj) -> Dict[Any, Any]:
    out = {}
    for i, e in enumerate(op.get("bottom_face").get("edges")):
        out[("bottom", i)] = e
    for i, e in enumerate(op.get("top_face").get("edges")):
        out[("top", i)] = e
    for i, e in enumerate(op.get("side_edges")):
        out[("side", i)] = e
    return out


edge_map_rule.rule_id = "C10.EDGE-MAP"


# --------------------------------------------------------------------------------------------
LATERAL = ["front", "right", "back", "left"]


def real_operation(repo: Repo) -> Obj:
    """Operation model whose edges are Line objects and points are Point objects (so that
    Face.project / Point.project / Project.add_label can be evaluated)."""
    line = repo.cls("construct.edges.Line")
    point_cls = repo.cls("construct.point.Point")
    op = Obj("op", cls=repo.cls("construct.operations.operation.Operation"))
    for nm in ("bottom", "top"):
        face = Obj(nm, cls=repo.cls("construct.flat.face.Face"))
        pts = []
        for i in range(4):
            p = Obj(f"{nm}.p{i}", cls=point_cls)
            p.set("projected_to", [])
            pts.append(p)
        face.set("points", pts)
        face.set("edges", [Obj(f"{nm}.e{i}", cls=line) for i in range(4)])
        face.set("projected_to", None)
        face.set("patch_name", None)
        op.set(f"{nm}_face", face)
    op.set("side_edges", [Obj(f"side.e{i}", cls=line) for i in range(4)])
    op.set("side_projects", [None] * 4)
    op.set("side_patches", [None] * 4)
    return op


def corner_point(op: Obj, k: int):
    return op.get("bottom_face").get("points")[k] if k < 4 else op.get("top_face").get("points")[k - 4]


def projected_edges(repo: Repo, op: Obj, label: str):
    proj_cls = repo.cls("construct.edges.Project")
    out = set()
    for (where, i), e in snapshot_slots(op).items():
        if isinstance(e, Obj) and e._cls is not None and proj_cls in repo.mro(e._cls) and label in e.get("label"):
            out.add(slot_corners(where, i))
    return out


def project_two_sides(repo: Repo, r: RuleRun) -> int:
    """Two neighbouring lateral sides projected with edges=True to different surfaces, in both orders: every edge of each side
    carries that side's surface - the vertical edge the two sides share carries BOTH (a projection added to an edge that is
    projected already extends it, it does not replace it)."""
    ps = repo.func("construct.operations.operation.Operation.project_side")
    emap_ev, emap = build_edge_map(repo)
    n = 0
    for s1, s2 in (("front", "right"), ("right", "back"), ("back", "left"), ("left", "front")):
        for a, b in ((s1, s2), (s2, s1)):
            op = real_operation(repo)
            for side, label in ((a, "ALPHA"), (b, "BETA")):
                ev = Evaluator(repo=repo, module=ps.module)
                _bind_module_object(ev, repo, repo.func("construct.operations.operation.Operation.project_edge"), "edge_map", emap)
                _run(ev, ps, [op, side, label], {"edges": True})
            problems = []
            for side, label in ((a, "ALPHA"), (b, "BETA")):
                want = {e for e in hexa.EDGES if e <= hexa.SIDE_CORNERS[side]}
                got = projected_edges(repo, op, label)
                if got != want:
                    problems.append(f"surface of side '{side}' is on edges {sorted(map(sorted, got))}, the side's edges are {sorted(map(sorted, want))}")
            n += 1
            r.check(
                not problems,
                ps,
                f"project_side({a!r}) then project_side({b!r}): the shared vertical edge carries both surfaces",
                f"project_side({a!r}, 'ALPHA', edges=True); project_side({b!r}, 'BETA', edges=True): " + "; ".join(problems) + " - the edge the two sides share keeps only one of the two surfaces "
                "(written 'project 1 5 (beta)' instead of '(alpha beta)')",
                ps.node,
                key=f"two-sides:{a}-{b}",
            )
    return n


def side_addressing(repo: Repo) -> RuleRun:
    r = RuleRun(PROP, "C10.SIDE-ADDRESSING", floor=40, what="side name -> index / corners / edges / points for all 6 sides and 8 corners")
    r.exhaustive = True
    opcls = repo.cls("construct.operations.operation.Operation")
    gi = repo.func("construct.operations.operation.Operation.get_index_from_side")
    emap_ev, emap = build_edge_map(repo)

    def evaluator(fi: FuncInfo, hook=None) -> Evaluator:
        ev = Evaluator(repo=repo, module=fi.module, call_hook=hook)
        _bind_module_object(ev, repo, repo.func("construct.operations.operation.Operation.project_edge"), "edge_map", emap)
        return ev

    # get_index_from_side
    for side in hexa.SIDE_PLANE:
        res = _run(evaluator(gi), gi, [side])
        if side in LATERAL:
            ok = isinstance(res, int) and 0 <= res < 4 and {res, (res + 1) % 4} <= hexa.SIDE_CORNERS[side]
            r.check(ok, gi, f"{side} -> {res}", f"get_index_from_side('{side}') = {res!r}; face edge {res}->{(res + 1) % 4 if isinstance(res, int) else '?'} does not lie on side '{side}'", gi.node, key=f"index:{side}")
        else:
            r.check(isinstance(res, tuple) and res[0] == "raised", gi, f"{side} refused", f"get_index_from_side('{side}') returns {res!r} instead of raising", gi.node, key=f"index:{side}")

    # set_patch / patch_names / get_patches_at_corner
    sp = repo.func("construct.operations.operation.Operation.set_patch")
    pn = repo.func("construct.operations.operation.Operation.patch_names")
    for side in hexa.SIDE_PLANE:
        for as_list in (False, True):
            op = real_operation(repo)
            _run(evaluator(sp), sp, [op, [side] if as_list else side, "PATCH"])
            slots = {"bottom": op.get("bottom_face").get("patch_name"), "top": op.get("top_face").get("patch_name")}
            for i, v in enumerate(op.get("side_patches")):
                slots[hexa.face_edge_side(i)] = v
            setnames = sorted(k for k, v in slots.items() if v == "PATCH")
            r.check(setnames == [side], sp, f"set_patch({side!r}) sets the {side} slot", f"set_patch({side!r}{' as list' if as_list else ''}) writes the slot(s) of side(s) {setnames}", sp.node, key=f"set_patch:{side}:{'list' if as_list else 'str'}")
            names = _run(evaluator(pn), pn, [op])
            r.check(names == {side: "PATCH"}, pn, f"patch_names reports {names}", f"after set_patch({side!r}) patch_names reports {names!r}; writer and reader of the per-side slots disagree", pn.node, key=f"patch_names:{side}")

    # lists of several sides, in different orders: every listed side gets the patch, wherever it stands in the list
    all_sides = list(hexa.SIDE_PLANE)
    multi = [["top", "bottom"], ["bottom", "top"], ["left", "top", "front"], ["front", "bottom", "right", "back"], all_sides, list(reversed(all_sides))]
    for sides in multi:
        op = real_operation(repo)
        _run(evaluator(sp), sp, [op, list(sides), "PATCH"])
        slots = {"bottom": op.get("bottom_face").get("patch_name"), "top": op.get("top_face").get("patch_name")}
        for i, v in enumerate(op.get("side_patches")):
            slots[hexa.face_edge_side(i)] = v
        setnames = sorted(k for k, v in slots.items() if v == "PATCH")
        r.check(
            setnames == sorted(sides),
            sp,
            f"set_patch({sides}) sets exactly these sides",
            f"set_patch({sides}, name) writes the slot(s) of side(s) {setnames}: every side of the list must receive the patch, whatever its position in the list",
            sp.node,
            key=f"set_patch:list:{'-'.join(sides)}",
        )

    # project_side
    ps = repo.func("construct.operations.operation.Operation.project_side")
    for side in hexa.SIDE_PLANE:
        op = real_operation(repo)
        _run(evaluator(ps), ps, [op, side, "GEO"], {"edges": True, "points": True})
        # face-level projection slot
        slots = {"bottom": op.get("bottom_face").get("projected_to"), "top": op.get("top_face").get("projected_to")}
        for i, v in enumerate(op.get("side_projects")):
            slots[hexa.face_edge_side(i)] = v
        got = sorted(k for k, v in slots.items() if v == "GEO")
        r.check(got == [side], ps, f"project_side({side!r}) marks side {side}", f"project_side({side!r}) marks side(s) {got} as projected", ps.node, key=f"project_side:{side}:face")
        want_edges = {e for e in hexa.EDGES if e <= hexa.SIDE_CORNERS[side]}
        got_edges = projected_edges(repo, op, "GEO")
        r.check(got_edges == want_edges, ps, f"edges of {side} projected", f"project_side({side!r}, edges=True) projects edges {sorted(map(sorted, got_edges))}; the side's edges are {sorted(map(sorted, want_edges))}", ps.node, key=f"project_side:{side}:edges")
        got_pts = {k for k in range(8) if "GEO" in corner_point(op, k).get("projected_to")}
        r.check(got_pts == set(hexa.SIDE_CORNERS[side]), ps, f"points of {side} projected", f"project_side({side!r}, points=True) projects corners {sorted(got_pts)}; the side's corners are {sorted(hexa.SIDE_CORNERS[side])}", ps.node, key=f"project_side:{side}:points")
        # labels are added once
        dup = [e for (_, _), e in snapshot_slots(op).items() if isinstance(e, Obj) and e.has("label") and len(e.get("label")) != len(set(e.get("label")))]
        r.check(not dup, ps, "no duplicated labels", f"project_side({side!r}) leaves duplicated labels on an edge: {[d.get('label') for d in dup]}", ps.node, key=f"project_side:{side}:dupes")

    project_two_sides(repo, r)

    # project_corner against Operation.points
    pc = repo.func("construct.operations.operation.Operation.project_corner")
    pts_prop = repo.func("construct.operations.operation.Operation.points")
    for k in range(8):
        op = real_operation(repo)
        plist = _run(evaluator(pts_prop), pts_prop, [op])
        if not (isinstance(plist, list) and len(plist) == 8):
            raise AnalysisError("Operation.points does not evaluate to 8 points")
        _run(evaluator(pc), pc, [op, k, "GEO"])
        got = [i for i, p in enumerate(plist) if "GEO" in p.get("projected_to")]
        r.check(got == [k], pc, f"project_corner({k}) projects point {k}", f"project_corner({k}) projects point(s) {got} of Operation.points", pc.node, key=f"project_corner:{k}")
        r.check(plist[k] is corner_point(op, k), pts_prop, "points = bottom + top", "Operation.points is not bottom_face.points + top_face.points", pts_prop.node, key=f"points:{k}")

    # get_face / Side pick FACE_MAP corners (the table itself is checked under C06.SIDE-TABLES)
    gf = repo.func("construct.operations.operation.Operation.get_face")
    side_init = repo.func("items.side.Side.__init__")

    def face_hook(ev_, call: ast.Call, name):
        if name == "Face":
            return Obj("newface", args=ev_.eval(call.args[0]))
        return NO_MATCH

    for side in hexa.SIDE_PLANE:
        op = real_operation(repo)
        op.set("point_array", [Sym(f"c{i}") for i in range(8)])
        res = _run(evaluator(gf, face_hook), gf, [op, side])
        got = [int(repr(s)[1:]) for s in res.get("args")] if isinstance(res, Obj) else None
        ok = got is not None and set(got) == set(hexa.SIDE_CORNERS[side]) and hexa.cyclic_walks_edges(got)
        r.check(ok, gf, f"get_face({side!r}) -> corners {got}", f"get_face({side!r}) is built from corners {got}; side '{side}' has corners {sorted(hexa.SIDE_CORNERS[side])} (walked along block edges)", gf.node, key=f"get_face:{side}")
        sobj = Obj("side", cls=repo.cls("items.side.Side"))
        _run(evaluator(side_init), side_init, [sobj, side, [Sym(f"c{i}") for i in range(8)]])
        got = [int(repr(s)[1:]) for s in sobj.get("vertices")]
        ok = set(got) == set(hexa.SIDE_CORNERS[side]) and hexa.cyclic_walks_edges(got)
        r.check(ok, side_init, f"Side({side!r}) -> corners {got}", f"Side({side!r}) takes corners {got}; side '{side}' has corners {sorted(hexa.SIDE_CORNERS[side])}", side_init.node, key=f"Side:{side}")
    wrong = Obj("side", cls=repo.cls("items.side.Side"))
    res = _run(evaluator(side_init), side_init, [wrong, "top", [Sym(f"c{i}") for i in range(7)]])
    r.check(isinstance(res, tuple) and res[0] == "raised" and res[1].endswith("SideCreationError"), side_init, "7 vertices refused", f"Side() with 7 vertices: {res} - a vertex list that does not have 8 entries must be rejected with SideCreationError", side_init.node, key="Side:len")
    wrong9 = Obj("side", cls=repo.cls("items.side.Side"))
    res = _run(evaluator(side_init), side_init, [wrong9, "top", [Sym(f"c{i}") for i in range(9)]])
    r.check(isinstance(res, tuple) and res[0] == "raised" and res[1].endswith("SideCreationError"), side_init, "9 vertices refused", f"Side() with 9 vertices: {res!r} - must be rejected with SideCreationError", side_init.node, key="Side:len9")
    return r


side_addressing.rule_id = "C10.SIDE-ADDRESSING"


# --------------------------------------------------------------------------------------------
def select_polarity(repo: Repo) -> RuleRun:
    r = RuleRun(PROP, "C10.SELECT-POLARITY", floor=2, what="nearest / most-aligned selections take the right end of the ordering")
    gcs = repo.func("construct.operations.operation.Operation.get_closest_side")
    # abstract run: faces keyed by side; distance list is symbolic; argmin must select
    names = [n for n in ast.walk(gcs.node) if isinstance(n, ast.Call) and (attr_chain(n.func) or "").split(".")[-1] in ("argmin", "argmax", "min", "max", "sorted", "argsort")]
    r.require(len(names) >= 1, "get_closest_side: selection idiom not recognised")
    for call in names:
        nm = (attr_chain(call.func) or "").split(".")[-1]
        dist = any(isinstance(c, ast.Call) and (attr_chain(c.func) or "").split(".")[-1] == "norm" for c in ast.walk(gcs.node))
        r.require(dist, "get_closest_side: no distance (norm) computed")
        ok = nm in ("argmin", "min") or (nm in ("sorted", "argsort") and not any(k.arg == "reverse" for k in call.keywords))
        r.check(ok, gcs, f"closest side selected with {nm}", f"get_closest_side selects with {nm}: that is the farthest, not the closest face", call, key="get_closest_side")
    ga = repo.func("modify.reorient.viewpoint.ViewpointReorienter._get_aligned")
    # abstract run: six triangles whose alignment with the viewing direction is 3, -5, 9, 0, 7, -1; the two most aligned ones
    # (9 and 7) must come back, whatever way the selection is written
    scores = [3, -5, 9, 0, 7, -1]
    tris = [Obj(f"t{i}", normal=sc) for i, sc in enumerate(scores)]

    def ahook(ev, call: ast.Call, name):
        if (name or "").split(".")[-1] == "dot" and len(call.args) == 2:
            vals = [ev.eval(a_) for a_ in call.args]
            nums = [v for v in vals if isinstance(v, int)]
            if len(nums) == 1:
                return nums[0]
        return NO_MATCH

    res = _run(Evaluator(repo=repo, module=ga.module, call_hook=ahook), ga, [Obj("reorienter", cls=ga.cls), list(tris), Sym("direction")])
    got = sorted(t.get("normal") for t in res) if isinstance(res, list) and all(isinstance(t, Obj) for t in res) else res
    r.check(got == [7, 9], ga, "two most aligned triangles taken", f"ViewpointReorienter._get_aligned returns the triangles with alignment {got} out of {scores}; the two MOST aligned ones (7 and 9) make up a side", ga.node, key="_get_aligned")
    return r


select_polarity.rule_id = "C10.SELECT-POLARITY"

def arguments_untouched(repo: Repo) -> RuleRun:
    """A projection / patch / edge given for one corner pair or side stays on that one: no function keeps and modifies a
    label list (or any other object) the caller handed in, so two addresses never share their data behind the caller's back."""
    from ..alias import argument_mutation_rule

    return argument_mutation_rule(repo, PROP, "C10.ARGUMENTS-UNTOUCHED")


arguments_untouched.rule_id = "C10.ARGUMENTS-UNTOUCHED"

def written_sides(repo: Repo) -> RuleRun:
    """'projected quads in the written file': FaceList writes the quad of the side that was projected (top as top). Same rule as C06.SIDE-TABLES."""
    from ..report import rebrand
    from . import c06

    return rebrand(c06.side_tables(repo), PROP, "C10.WRITTEN-SIDES")


written_sides.rule_id = "C10.WRITTEN-SIDES"

def no_class_state(repo: Repo) -> RuleRun:
    """Face permutations keep no state between calls or between faces: no class-level container is changed in place."""
    from ..alias import class_state_rule

    return class_state_rule(repo, PROP, "C10.NO-CLASS-STATE")


no_class_state.rule_id = "C10.NO-CLASS-STATE"

def affine_kinds(repo: Repo) -> RuleRun:
    """'the corner closest to a position': distances in the face / operation addressing code are norms of differences of points -
    no position used as a vector, no plain component sum."""
    from ..affine import kinds_rule

    return kinds_rule(repo, PROP, "C10.AFFINE-KINDS", ("construct.flat.face", "construct.operations", "util.tools"), floor=2)


affine_kinds.rule_id = "C10.AFFINE-KINDS"

def no_shared_parts(repo: Repo) -> RuleRun:
    """Projecting one more side adds its label to the edges of THAT side only: every projected edge slot holds its own Project record. Same rule as C09.NO-SHARED-PARTS."""
    from ..alias import shared_parts_rule

    return shared_parts_rule(repo, PROP, "C10.NO-SHARED-PARTS")


no_shared_parts.rule_id = "C10.NO-SHARED-PARTS"

def corner_patches(repo: Repo) -> RuleRun:
    """'a side name addresses that side': the corner/side lookup used for projecting and patching. Same rule as C05.CORNER-PATCHES."""
    from ..report import rebrand
    from . import c05

    return rebrand(c05.corner_patches(repo), PROP, "C10.CORNER-PATCHES")


corner_patches.rule_id = "C10.CORNER-PATCHES"

def beam_list(repo: Repo, prop: str = PROP, rule: str = "C10.BEAM-LIST") -> RuleRun:
    """'projecting / curving an edge affects that edge': Frame.get_all_beams reports every corner pair that holds a payload, once -
    also when several pairs hold the SAME object (Face(points, [Project('terrain')] * 4) from the Face docstring, one Angle
    handed to four add_side_edge calls)."""
    from .. import hexa

    r = RuleRun(prop, rule, floor=3, what="Frame.get_all_beams lists every occupied corner pair exactly once, whether the payloads are distinct objects or one object stored under several pairs")
    frame_cls = repo.cls("util.frame.Frame")
    gab = repo.func("util.frame.Frame.get_all_beams")
    edges = [(a, b) for a in range(8) for b in range(a + 1, 8) if hexa.is_edge(a, b)]
    for label, occupied, shared in (
        ("four bottom edges, distinct payloads", [(0, 1), (1, 2), (2, 3), (0, 3)], False),
        ("four bottom edges, ONE payload object", [(0, 1), (1, 2), (2, 3), (0, 3)], True),
        ("four side edges, ONE payload object", [(0, 4), (1, 5), (2, 6), (3, 7)], True),
        ("all twelve edges, ONE payload object", edges, True),
    ):
        fr = Obj("frame", cls=frame_cls)
        beams = [{} for _ in range(8)]
        for a, b in edges:
            beams[a][b] = None
            beams[b][a] = None
        one = Obj("payload")
        for a, b in occupied:
            pl_ = one if shared else Obj(f"payload{a}{b}")
            beams[a][b] = pl_
            beams[b][a] = pl_
        fr.set("beams", beams)
        out = _run(Evaluator(repo=repo, module=gab.module), gab, [fr])
        got = sorted(tuple(sorted((t[0], t[1]))) for t in out) if isinstance(out, list) else None
        r.check(got == sorted(tuple(sorted(p)) for p in occupied), gab, f"{label}: {len(occupied)} pairs listed", f"Frame.get_all_beams, {label}: lists the pairs {got}; occupied are {sorted(occupied)} - an edge whose data object is also used on another edge is not written at all", gab.node, key=f"beams:{label}")
    return r


beam_list.rule_id = "C10.BEAM-LIST"

def labels_private(repo: Repo) -> RuleRun:
    """'projecting a ... corner ... affects exactly the block ... corner with those corner numbers': a corner projection of one operation is not written into the coincident corner of its neighbour's model. Same rule as C05.LABELS-PRIVATE."""
    from . import c05

    return c05.labels_private(repo, PROP, "C10.LABELS-PRIVATE")


labels_private.rule_id = "C10.LABELS-PRIVATE"


def empty_patch(repo: Repo) -> RuleRun:
    """'assigning a patch ... affects exactly the block side ...': a patch that lost its sides (its operation was deleted) does not take the patches declared after it out of the file. Same rule as C06.EMPTY-PATCH."""
    from ..report import rebrand
    from . import c06

    return rebrand(c06.empty_patch(repo), PROP, "C10.EMPTY-PATCH")


empty_patch.rule_id = "C10.EMPTY-PATCH"


def normal_symmetric(repo: Repo) -> RuleRun:
    """'inverting flips the normal' and shifting / re-orienting 'keeps the same four points' - of ANY quadrangle: the normal of a
    face is a symmetric function of its four corners (OpenFOAM's rule: the average over the four triangles that meet at the face
    centre), so it is the same for every cyclic renumbering and exactly opposite for the reversed order - also for a warped
    face. Exact rational evaluation of Face.normal (before the final normalisation) on a non-planar quadrangle for the four
    cyclic shifts and the four reversed orders."""
    from fractions import Fraction

    from .. import exact

    r = RuleRun(PROP, "C10.NORMAL-SYMMETRIC", floor=7, what="the (un-normalised) normal of a warped quadrangle is identical for the four cyclic renumberings and exactly opposite for the reversed orders (exact rational evaluation)")
    fcls = repo.cls("construct.flat.face.Face")
    fn = repo.find_method(fcls, "normal")
    r.require(fn is not None, "Face.normal vanished")
    quad = [exact.vec(0, 0, 0), exact.vec(2, Fraction(1, 5), Fraction(3, 10)), exact.vec(Fraction(9, 4), Fraction(7, 4), Fraction(-1, 5)), exact.vec(Fraction(-1, 3), 2, Fraction(1, 2))]

    def hook(ev, call, name):
        nm = (name or "").split(".")[-1]
        if nm in ("array", "asarray") and call.args:
            return ev.eval(call.args[0])
        if nm in ("average", "mean") and call.args:
            v = ev.eval(call.args[0])
            if isinstance(v, list) and v and all(isinstance(x, exact.Vec) for x in v):
                tot = v[0]
                for x in v[1:]:
                    tot = tot + x
                return tot.scale(exact.c(Fraction(1, len(v))))
        if nm == "roll" and len(call.args) >= 2:
            v, k = ev.eval(call.args[0]), ev.eval(call.args[1])
            if isinstance(v, list) and isinstance(k, int):
                k %= len(v)
                return v[-k:] + v[:-k] if k else list(v)
        if nm == "cross" and len(call.args) == 2:
            a, b = ev.eval(call.args[0]), ev.eval(call.args[1])
            if isinstance(a, list) and isinstance(b, list):
                return [x.cross(y) for x, y in zip(a, b)]
            if isinstance(a, exact.Vec) and isinstance(b, exact.Vec):
                return a.cross(b)
        if nm == "unit_vector" and call.args:
            return ev.eval(call.args[0])  # the direction is what is compared
        return NO_MATCH

    def run(order):
        face = Obj("face", cls=fcls)
        face.set("points", [Obj(f"p{k}", position=quad[k]) for k in order])
        ev = exact.evaluator(repo, fn.module, extra=hook)
        inner = ev.binop_hook

        def binop(op, a, b):
            if isinstance(a, list) and isinstance(b, exact.Vec) and isinstance(op, (ast.Sub, ast.Add)):
                return [(x - b) if isinstance(op, ast.Sub) else (x + b) for x in a]
            return inner(op, a, b)

        ev.binop_hook = binop
        try:
            return ev.call_funcinfo(fn, [face])
        except (Raised, NotEvaluable) as err:
            raise AnalysisError(f"Face.normal not evaluable over exact rational points: {err}") from err

    ref = run([0, 1, 2, 3])
    r.require(isinstance(ref, exact.Vec), "Face.normal does not return a vector on the exact model")
    for k in range(1, 4):
        got = run([(i + k) % 4 for i in range(4)])
        r.check(exact.same(got, ref), fn, f"numbering shifted by {k}: same normal", f"Face.normal of a warped quadrangle changes when its corners are renumbered cyclically (shift {k}): {[str(exact.value(x)) for x in got.c]} instead of {[str(exact.value(x)) for x in ref.c]} - shift() / reorient() change the normal, and invert() does not give exactly the opposite one", fn.node, key=f"shift:{k}")
    for k in range(4):
        order = [(k - i) % 4 for i in range(4)]
        got = run(order)
        r.check(exact.same(got, ref.scale(exact.c(-1))), fn, f"reversed order starting at {k}: opposite normal", f"Face.normal of the reversed corner order {order} is not the exact opposite of the original normal: invert() does not flip the normal of a warped face", fn.node, key=f"reversed:{k}")
    return r


normal_symmetric.rule_id = "C10.NORMAL-SYMMETRIC"


def no_memo(repo: Repo) -> RuleRun:
    """'adding an edge by ... corner numbers affects exactly the block ... edge with those corner numbers' - also after the operation was written once: nothing of the addressing tables of an operation is memoised. Same rule body as C16.NO-MEMO."""
    from ..memo import memo_rule

    return memo_rule(repo, PROP, "C10.NO-MEMO", ("construct.", "util.frame", "items.side", "lists."), floor=0)


no_memo.rule_id = "C10.NO-MEMO"



def arc_sense(repo: Repo) -> RuleRun:
    """'the edge between two addressed corners is written with the data given': reversing an edge (invert, mirror) lists its points backwards and leaves every point as it is. Same rule as C09.ARC-SENSE."""
    from ..report import rebrand
    from . import c09

    return rebrand(c09.arc_sense(repo), PROP, "C10.ARC-SENSE")


arc_sense.rule_id = "C10.ARC-SENSE"


def index_range(repo: Repo) -> RuleRun:
    """'corner k / side edge k addresses exactly that corner': an index guard whose message names a two-sided range rejects both sides - a negative corner number does not silently address the edge counted from the end. Same rule as C20.ONE-SIDED-RANGE."""
    from ..report import rebrand
    from . import c20

    return rebrand(c20.one_sided_range(repo), PROP, "C10.INDEX-RANGE")


index_range.rule_id = "C10.INDEX-RANGE"


RULES = [face_permutations, edge_map_rule, side_addressing, select_polarity, arguments_untouched, written_sides, no_class_state, affine_kinds, no_shared_parts, corner_patches, beam_list, labels_private, empty_patch, normal_symmetric, no_memo, arc_sense, index_range]

"""C01 - blocks that share an edge agree on its cell count."""

from __future__ import annotations

import ast
from typing import List, Set

from .. import hexa, tables
from ..cfg import CFG
from ..model import AnalysisError, FuncInfo, Repo, attr_chain, parent, walk_shallow
from ..peval import NO_MATCH, Evaluator, NotEvaluable, Obj, Raised, Sym
from ..report import RuleRun
from ..util import (
    Reach,
    enclosing_loops,
    fmt_path,
    is_full_iteration_of,
    is_open_for_write,
    loop_early_exits,
    loop_iter_source,
    node_calls,
    raises_of,
)

PROP = "C01"
TITLE = "Blocks that share an edge always agree on its cell count"
DECIDES = (
    "grade() precedes every open-for-write in Mesh.write and runs grade_blocks -> propagate_gradings -> "
    "check_consistency on every normal path (C01.GRADE-BEFORE-WRITE); the consistency check visits every "
    "block/axis/wire and reads an inter-block relation (C01.CONSISTENCY-REACH); AXIS_PAIRS/EDGE_PAIRS/"
    "Frame.valid_pairs match the hexahedron convention, 4 disjoint same-sense pairs per axis (C01.AXIS-TABLE); "
    "a propagated chop carries the resolved count and the hex line prints axis counts 0,1,2 (C01.COUNT-CARRIED); "
    "the neighbour and coincidence relations are registered symmetrically over all 3x3 axes / 12x12 wires and "
    "accept either vertex order (C01.NEIGHBOUR-SYMMETRY, C01.COINCIDENCE-SYMMETRY)."
    ' The whole chain BlockList.check_consistency -> Block -> Axis -> wire manager is also run abstractly on a symbolic two-block model: a count conflict inside a block or with a coincident wire of another block is refused whatever else holds (uniform gradings shared by the four wires, own chops, either manager class), and an anti-aligned multigraded neighbour with the same total count is accepted (part of C01.CONSISTENCY-REACH); AXIS_PAIRS lists the four wires of a direction in the order blockMesh reads edgeGrading (C01.AXIS-TABLE).'
    ' The count a wire manager reports (the one written into the hex entry) is the total of its grading over all divisions (part of C01.COUNT-CARRIED).'
    " A chopped axis grades its wires from its own chops whatever its neighbours carry already, so the count in the hex entry is the count on the block's edges (C01.CHOPPED-WIRES = C04.RESULTS-BEFORE-COPY)."
)
NOT_DECIDED = "that counts are in fact equal after propagation for every topology (runtime propagation over block graphs)."
ASSUMPTIONS = ["write_vtk (debug output) is the one writer allowed before grade(), as the source comment states"]


def _mesh(repo: Repo):
    return repo.cls("mesh.Mesh")


# --------------------------------------------------------------------------------------------
def grade_before_write(repo: Repo) -> RuleRun:
    r = RuleRun(PROP, "C01.GRADE-BEFORE-WRITE", floor=4, what="every path to an open-for-write in Mesh.write passes grade(); grade() runs grade_blocks, propagate_gradings, check_consistency in order on every normal path")
    write = repo.func("mesh.Mesh.write")
    grade = repo.func("mesh.Mesh.grade")
    g = CFG(write.node)
    rc = Reach(repo, write)
    vtk = repo.func("util.vtk_writer.write_vtk") if repo.has_func("util.vtk_writer.write_vtk") else None

    def opens_file(fn: FuncInfo) -> bool:
        return any(isinstance(n, ast.Call) and is_open_for_write(n) for n in ast.walk(fn.node))

    writers = {f for f in repo.all_functions() if opens_file(f)}

    def is_write_site(n) -> bool:
        for c in node_calls(n):
            if is_open_for_write(c):
                return True
        for cs in rc.callsites_in(n):
            for callee in cs.callees:
                if vtk is not None and (callee == vtk):
                    continue
                if callee == grade or rc.callee_reaches(callee, grade):
                    continue
                reach = repo.reachable([callee])
                if any(w in reach and w != vtk and w != write for w in writers):
                    return True
        return False

    sites = [n for n in g.stmt_nodes() if is_write_site(n)]
    r.require(len(sites) >= 1, "no open-for-write site found in Mesh.write")
    is_grade = lambda n: rc.node_reaches(n, grade)  # noqa: E731
    for s in sites:
        holds, path = g.must_pass(g.entry, s, is_grade)
        r.check(
            holds,
            write,
            "every path to the write site passes through a call reaching Mesh.grade",
            f"a path reaches the open-for-write at line {s.lineno} without calling grade(): {fmt_path(path)}",
            s.stmt,
            key=f"open@{ast.unparse(s.stmt.items[0].context_expr) if isinstance(s.stmt, ast.With) else 'write-site'}",
        )

    # ordering inside grade()
    gg = CFG(grade.node)
    rg = Reach(repo, grade)
    steps = [
        ("grade_blocks", repo.func("lists.block_list.BlockList.grade_blocks")),
        ("propagate_gradings", repo.func("lists.block_list.BlockList.propagate_gradings")),
        ("check_consistency", repo.func("lists.block_list.BlockList.check_consistency")),
    ]
    prev_nodes = [gg.entry]
    for name, target in steps:
        pred = lambda n, t=target: rg.node_reaches(n, t)  # noqa: E731
        holds = True
        witness = None
        for a in prev_nodes:
            ok, path = gg.must_pass(a, gg.exit_return, pred)
            if not ok:
                holds, witness = False, path
        r.check(
            holds,
            grade,
            f"every normal exit passes {name} (after the previous step)",
            f"a normal path through Mesh.grade skips {name}: {fmt_path(witness)}",
            grade.node,
            key=name,
        )
        prev_nodes = [n for n in gg.stmt_nodes() if pred(n)] or prev_nodes
    return r


grade_before_write.rule_id = "C01.GRADE-BEFORE-WRITE"


# --------------------------------------------------------------------------------------------
def consistency_reach(repo: Repo) -> RuleRun:
    r = RuleRun(PROP, "C01.CONSISTENCY-REACH", floor=4, what="the consistency check reachable from Mesh.grade visits every block, axis and wire without early exit and reads an inter-block relation (Wire.coincidents / Axis.neighbours)")
    root = repo.func("lists.block_list.BlockList.check_consistency")
    closure = repo.reachable([root])
    raisers = [f for f in closure if raises_of(f, ["InconsistentGradingsError"])]
    r.require(len(raisers) >= 1, "no function reachable from BlockList.check_consistency raises InconsistentGradingsError")

    # (i) call chain root -> raiser: loops over full containers, no early exit
    def chains(fn: FuncInfo, target: FuncInfo, seen) -> List[List]:
        if fn == target:
            return [[]]
        out = []
        for cs in repo.callsites(fn):
            for c in cs.callees:
                if c in seen or c not in closure:
                    continue
                if c == target or repo.reaches(c, target):
                    for rest in chains(c, target, seen | {c}):
                        out.append([(fn, cs), *rest])
        return out

    needed = {"blocks": False, "axes": False, "wires": False}
    for raiser in raisers:
        cs_chains = chains(root, raiser, {root})
        r.require(len(cs_chains) >= 1, f"no call chain from {root.qualname} to {raiser.qualname}")
        for chain in cs_chains:
            for fn, cs in chain:
                loops = enclosing_loops(cs.node, fn.node)
                for lp in loops:
                    src = loop_iter_source(lp)
                    exits = loop_early_exits(lp)
                    chain_s = attr_chain(src) if src is not None else None
                    name = chain_s.split(".")[-1] if chain_s else None
                    full = chain_s is not None and chain_s.startswith("self.")
                    ok = full and not exits
                    if name in needed and ok:
                        needed[name] = True
                    r.check(
                        ok,
                        fn,
                        f"loop over {chain_s} visits every element (no break/return)",
                        f"the loop leading to the consistency check does not visit every element of {ast.unparse(src) if src is not None else '?'} (early exit or partial container)",
                        lp,
                        key=f"loop:{chain_s}",
                    )
        # the raiser itself must look at all wires
        for n in ast.walk(raiser.node):
            if isinstance(n, (ast.For, ast.ListComp, ast.GeneratorExp, ast.SetComp)):
                src = loop_iter_source(n)
                if src is not None and attr_chain(src) == "self.wires":
                    if not (isinstance(n, ast.For) and loop_early_exits(n)):
                        needed["wires"] = True
    for name, seen_ in needed.items():
        r.check(
            seen_,
            root,
            f"the check iterates all {name}",
            f"no complete iteration over self.{name} on the way from BlockList.check_consistency to the raise of InconsistentGradingsError",
            root.node,
            key=f"covers:{name}",
        )

    # (ii) information flow: an inter-block relation is read by a raiser (or its callees)
    for raiser in raisers:
        sub = repo.reachable([raiser])
        reads = []
        for f in sub:
            for n in ast.walk(f.node):
                if isinstance(n, ast.Attribute) and isinstance(n.ctx, ast.Load) and n.attr in ("coincidents", "neighbours"):
                    reads.append((f, n))
        r.check(
            bool(reads),
            raiser,
            f"reads inter-block relation ({reads[0][1].attr if reads else ''}) before raising InconsistentGradingsError",
            "the only consistency check compares the wires of ONE block with each other; it never reads Wire.coincidents / "
            "Axis.neighbours, so two adjacent blocks chopped to different counts are written silently",
            raiser.node,
            key="inter-block",
        )
    # (iii) abstract evaluation of the raising check on symbolic wires
    for raiser in raisers:
        if raiser.cls is None or len(raiser.params) != 1:
            continue

        wire_cls = repo.cls("items.wires.wire.Wire")

        def mk(counts, coin=None, anti=False, collapsed=(), more=()):
            wires = []
            for i, c in enumerate(counts):
                w = Obj(f"w{i}", cls=wire_cls)
                w.set("vertices", [Sym(f"va{i}"), Sym(f"va{i}" if i in collapsed else f"vb{i}")])
                w.set("corners", [0, 1])
                w.set("axis", 0)
                g = Obj(f"g{i}")
                g.set("count", c)
                g.set("counts", [2, c - 2])
                g.set("is_defined", True)
                w.set("grading", g)
                w.set("coincidents", set())
                wires.append(w)
            if coin is not None:
                idx, ccount, cdef = coin
                cw = Obj("cw", cls=wire_cls)
                ends = [Sym(f"va{idx}"), Sym(f"vb{idx}")]
                cw.set("vertices", ends[::-1] if anti else ends)
                cw.set("corners", [0, 1])
                cw.set("axis", 0)
                cg = Obj("cg")
                cg.set("count", ccount)
                cg.set("counts", [ccount - 2, 2])
                cg.set("is_defined", cdef)
                cw.set("grading", cg)
                cw.set("coincidents", set())
                wires[idx].get("coincidents").add(cw)
            for k, (idx, ccount) in enumerate(more):
                # further blocks at the same edge (four blocks in edge-only contact around one edge)
                cw = Obj(f"cw{k}", cls=wire_cls)
                cw.set("vertices", [Sym(f"va{idx}"), Sym(f"vb{idx}")])
                cw.set("corners", [0, 1])
                cw.set("axis", 0)
                cw.set("grading", Obj(f"cg{k}", count=ccount, counts=[ccount - 2, 2], is_defined=True))
                cw.set("coincidents", set())
                wires[idx].get("coincidents").add(cw)
            mgr = Obj("mgr", cls=raiser.cls)
            mgr.set("wires", wires)
            mgr.set("chops", [])
            return mgr

        cases = [
            ("equal counts, no neighbours", mk([5, 5, 5, 5]), False),
            ("one wire of the block differs", mk([5, 5, 7, 5]), True),
            ("the first wire differs", mk([7, 5, 5, 5]), True),
            ("neighbour block demands another count on wire 0", mk([5, 5, 5, 5], (0, 7, True)), True),
            ("neighbour block demands another count on wire 3", mk([5, 5, 5, 5], (3, 4, True)), True),
            ("neighbour block agrees", mk([5, 5, 5, 5], (2, 5, True)), False),
            ("neighbour block demands another count on wire 1, its wire running the other way", mk([5, 5, 5, 5], (1, 7, True), anti=True), True),
            ("neighbour block agrees, its wire running the other way", mk([5, 5, 5, 5], (2, 5, True), anti=True), False),
            ("three more blocks at edge 1, one of them agrees and two demand another count", mk([5, 5, 5, 5], more=((1, 5), (1, 7), (1, 7))), True),
            ("two more blocks at edge 2, both agree", mk([5, 5, 5, 5], more=((2, 5), (2, 5))), False),
            ("wire 0 collapsed, a neighbour demands another count on wire 2", mk([5, 5, 5, 5], (2, 7, True), collapsed=(0,)), True),
            ("wire 1 collapsed, a neighbour demands another count on wire 3", mk([5, 5, 5, 5], (3, 7, True), collapsed=(1,)), True),
        ]
        for label, mgr, should in cases:
            try:
                Evaluator(repo=repo, module=raiser.module).call_funcinfo(raiser, [mgr])
                got = None
            except Raised as err:
                got = err.exc_name
            except NotEvaluable as err:
                raise AnalysisError(f"{raiser.qualname} not evaluable on symbolic wires: {err}") from err
            ok = (got is not None and got.endswith("InconsistentGradingsError")) if should else got is None
            r.check(
                ok,
                raiser,
                f"{label}: {'raises' if got else 'passes'}",
                f"{raiser.qualname}: {label}: {'no error is raised - the conflicting counts would be written' if should else 'raises ' + str(got) + ' although the counts are consistent'}",
                raiser.node,
                key=f"eval:{label}",
            )
    # (iii-b) Block.grade re-grades every axis, whether it looks defined already or not (a chop added after a first grade must count)
    bg = repo.func("items.block.Block.grade")
    # (axes that look defined already are not part of the scenarios any more: since repair c828cc1 every grading pass resets all
    #  wire managers before the first block is graded, so no axis is defined when Block.grade runs - skipping defined axes there
    #  has become behaviour-preserving; seed C01-r4m1, which did that, sits in the neutral list)
    for defined in ((False, False, False),):
        graded = []

        def ghook(ev, call: ast.Call, name, graded=graded):
            if isinstance(call.func, ast.Attribute) and call.func.attr == "grade":
                recv = ev.eval(call.func.value)
                if isinstance(recv, Obj) and recv.has("index"):
                    graded.append(recv.get("index"))
                    return None
            return NO_MATCH

        blk = Obj("block", cls=repo.cls("items.block.Block"))
        blk.set("axes", [Obj(f"axis{i}", index=i, is_defined=d) for i, d in enumerate(defined)])
        try:
            Evaluator(repo=repo, module=bg.module, call_hook=ghook).call_funcinfo(bg, [blk])
        except (NotEvaluable, Raised) as err:
            raise AnalysisError(f"Block.grade not evaluable: {err}") from err
        r.check(graded == [0, 1, 2], bg, f"axes defined={defined}: all three graded", f"Block.grade with axes already defined = {defined} grades axes {graded}: every axis must be graded from its current chops on every grade() (a chop added after the first grade is otherwise ignored and a stale count written)", bg.node, key=f"block-grade:{defined}")
    # (iv) the whole chain BlockList.check_consistency -> ... on a symbolic two-block model: a conflict anywhere,
    #      whatever the rest of the state looks like (uniform gradings, own chops, manager kind), must be refused
    mgr_classes = [c for c in (repo.cls("items.wires.manager.WireChopManager"), repo.cls("items.wires.manager.WirePropagateManager"))]
    block_cls, axis_cls, bl_cls = repo.cls("items.block.Block"), repo.cls("items.wires.axis.Axis"), repo.cls("lists.block_list.BlockList")

    def model(conflict, shared: bool, mgr_cls, own_chops: bool):
        """conflict = None | ("intra", b, a, w) | ("inter", b, a, w) | ("inter-set", b, a, w): a coincident wire with 7 = 2+3+2 cells
        against 5 = 2+3 (the same SET of division counts, different totals) | ("agree", b, a, w): the wire has an anti-aligned
        coincident wire of a multigraded neighbour - same total count, division counts in the opposite order"""
        blocks = []
        for b in range(2):
            axes = []
            for a in range(3):
                wires = []
                common = Obj(f"g{b}{a}")
                common.set("count", 5)
                common.set("counts", [2, 3])
                common.set("is_defined", True)
                for w in range(4):
                    wire = Obj(f"w{b}{a}{w}", cls=repo.cls("items.wires.wire.Wire"))
                    wire.set("vertices", [Sym(f"va{b}{a}{w}"), Sym(f"vb{b}{a}{w}")])
                    wire.set("corners", [0, 1])
                    wire.set("axis", a)
                    if shared:
                        g = common
                    else:
                        g = Obj(f"g{b}{a}{w}")
                        g.set("count", 5)
                        g.set("counts", [2, 3])
                        g.set("is_defined", True)
                    wire.set("grading", g)
                    wire.set("coincidents", set())
                    wires.append(wire)
                if conflict is not None and conflict[1:3] == (b, a):
                    kind, _, _, w = conflict
                    if kind == "intra":
                        g = Obj("g_conflict")
                        g.set("count", 8)
                        g.set("counts", [2, 6])
                        g.set("is_defined", True)
                        wires[w].set("grading", g)
                    else:
                        cw, cg = Obj("cw", cls=repo.cls("items.wires.wire.Wire")), Obj("cg")
                        cw.set("vertices", [Sym(f"vb{b}{a}{w}"), Sym(f"va{b}{a}{w}")] if w % 2 else [Sym(f"va{b}{a}{w}"), Sym(f"vb{b}{a}{w}")])
                        cw.set("corners", [0, 1])
                        cw.set("axis", a)
                        cg.set("count", {"agree": 5, "inter-set": 7}.get(kind, 8))
                        cg.set("counts", {"agree": [3, 2], "inter-set": [2, 3, 2]}.get(kind, [2, 6]))
                        cg.set("is_defined", True)
                        cw.set("grading", cg)
                        cw.set("coincidents", set())
                        wires[w].get("coincidents").add(cw)
                mgr = Obj(f"mgr{b}{a}", cls=mgr_cls)
                mgr.set("wires", wires)
                mgr.set("chops", [Obj("chop")] if own_chops else [])
                mgr.set("grading", Obj("axis_grading"))
                axis = Obj(f"axis{b}{a}", cls=axis_cls)
                axis.set("index", a)
                axis.set("wires", mgr)
                axis.set("neighbours", set())
                axes.append(axis)
            blk = Obj(f"block{b}", cls=block_cls)
            blk.set("axes", axes)
            blocks.append(blk)
        bl = Obj("block_list", cls=bl_cls)
        bl.set("blocks", blocks)
        return bl

    conflicts = [None, ("agree", 0, 1, 1), ("agree", 1, 2, 3), ("inter-set", 0, 2, 1), ("intra", 0, 0, 0), ("intra", 1, 2, 3), ("intra", 0, 1, 2), ("inter", 0, 0, 0), ("inter", 1, 2, 3), ("inter", 1, 0, 1)]
    for conflict in conflicts:
        for shared in (True, False):
            if conflict is not None and conflict[0] == "intra" and shared:
                continue  # four wires sharing one grading cannot disagree among themselves
            for mgr_cls in mgr_classes:
                for own_chops in (False, True):
                    label = f"{conflict or 'no conflict'} / {'one grading shared by the 4 wires' if shared else 'separate gradings'} / {mgr_cls.name} / {'own chops' if own_chops else 'no own chops'}"
                    try:
                        Evaluator(repo=repo, module=root.module).call_funcinfo(root, [model(conflict, shared, mgr_cls, own_chops)])
                        got = None
                    except Raised as err:
                        got = err.exc_name
                    except NotEvaluable as err:
                        raise AnalysisError(f"{root.qualname} not evaluable on the symbolic two-block model: {err}") from err
                    should = conflict is not None and conflict[0] != "agree"
                    ok = (got is not None and got.endswith("InconsistentGradingsError")) if should else got is None
                    r.check(
                        ok,
                        root,
                        f"{label}: {'refused' if got else 'accepted'}",
                        f"BlockList.check_consistency on a two-block model, {label}: "
                        + ("no error is raised - blocks with different counts on a shared/parallel edge would be written" if should else f"raises {got} although all total counts agree"),
                        root.node,
                        key=f"chain:{label}",
                    )
    return r


consistency_reach.rule_id = "C01.CONSISTENCY-REACH"


# --------------------------------------------------------------------------------------------
def axis_table(repo: Repo) -> RuleRun:
    r = RuleRun(PROP, "C01.AXIS-TABLE", floor=16, what="AXIS_PAIRS / EDGE_PAIRS / Frame.valid_pairs against the hexahedron convention")
    r.exhaustive = True
    c = tables.constants(repo)
    mod = repo.module("util.constants")
    ap = c["AXIS_PAIRS"]
    r.require(isinstance(ap, (tuple, list)) and len(ap) == 3, "AXIS_PAIRS must have three axes")
    for axis, pairs in enumerate(ap):
        corners: List[int] = []
        r.check(len(pairs) == 4, mod, f"axis {axis} has 4 pairs", f"axis {axis} has {len(pairs)} pairs instead of 4", key=f"AXIS_PAIRS[{axis}]:len")
        for pair in pairs:
            a, b = pair
            ax = hexa.edge_axis(a, b)
            ok = ax == axis and hexa.COORD[a][axis] == 0 and hexa.COORD[b][axis] == 1
            why = (
                f"pair {pair} is not a block edge along axis {axis}"
                if ax != axis
                else f"pair {pair} runs high->low; the four wires of an axis must point the same way (low->high)"
            )
            r.check(ok, mod, f"{pair} is an axis-{axis} edge, low->high", why, key=f"AXIS_PAIRS[{axis}]:{tuple(pair)}")
            corners += [a, b]
        want_order = hexa.EDGE_GRADING_ORDER[axis]
        r.check(
            tuple(tuple(p) for p in pairs) == want_order,
            mod,
            f"axis {axis}: the four wires are listed in the order blockMesh reads edgeGrading",
            f"AXIS_PAIRS[{axis}] = {tuple(tuple(p) for p in pairs)} but blockMesh reads the edgeGrading entries of this direction in the order {want_order}: "
            "the gradings of two edges would be written into each other's slot",
            key=f"AXIS_PAIRS[{axis}]:order",
        )
        r.check(sorted(corners) == list(range(8)), mod, f"axis {axis} pairs are disjoint and cover 8 corners", f"axis {axis} pairs are not a partition of the 8 corners: {sorted(corners)}", key=f"AXIS_PAIRS[{axis}]:partition")
    ep = c["EDGE_PAIRS"]
    flat = [tuple(p) for axis in ap for p in axis]
    r.check([tuple(p) for p in ep] == flat, mod, "EDGE_PAIRS is the concatenation of the three axes", f"EDGE_PAIRS differs from AXIS_PAIRS[0]+[1]+[2]: {ep}", key="EDGE_PAIRS")
    r.check({frozenset(p) for p in ep} == set(hexa.EDGES), mod, "EDGE_PAIRS is exactly the 12 block edges", "EDGE_PAIRS is not the set of 12 block edges", key="EDGE_PAIRS:set")
    frame = repo.cls("util.frame.Frame")
    vp = tables.class_table(repo, frame, "valid_pairs")
    r.check(
        sorted(sorted(p) for p in vp) == sorted(sorted(e) for e in hexa.EDGES),
        frame,
        "Frame.valid_pairs is the set of 12 block edges",
        f"Frame.valid_pairs differs from the 12 block edges: {vp}",
        key="valid_pairs",
    )
    return r


axis_table.rule_id = "C01.AXIS-TABLE"


# --------------------------------------------------------------------------------------------
CHOP_VALUE_FIELDS = ["count", "start_size", "end_size", "c2c_expansion", "total_expansion"]


def chop_fields(repo: Repo) -> List[str]:
    chop = repo.cls("grading.chop.Chop")
    return [k for k in chop.class_annotations]


def eval_copy_preserving(repo: Repo, preserve: str, inverted: bool = False):
    """Abstractly evaluates Chop.copy_preserving for one `preserve` literal; returns the kwargs
    handed to the Chop constructor (field -> Sym | None | str) and whether invert() was called."""
    chop = repo.cls("grading.chop.Chop")
    fn = repo.func("grading.chop.Chop.copy_preserving")
    fields = chop_fields(repo)
    this = Obj("chop", cls=None)
    for f in fields:
        this.set(f, Sym(f"self.{f}"))
    this.set("preserve", preserve)
    this.set("results", {f: Sym(f"results.{f}") for f in fields})
    created = {}

    def hook(ev, call: ast.Call, name):
        from ..peval import NO_MATCH

        if name in ("dataclasses.asdict", "asdict") and len(call.args) == 1:
            target = ev.eval(call.args[0])
            if target is this:
                return {f: this.get(f) for f in fields}
        if name == "Chop":
            kwargs = {}
            for kw in call.keywords:
                if kw.arg is None:
                    kwargs.update(ev.eval(kw.value))
                else:
                    kwargs[kw.arg] = ev.eval(kw.value)
            if call.args:
                raise NotEvaluable("positional Chop(...) arguments in copy_preserving")
            o = Obj("new_chop", cls=None, **kwargs)
            o.set("_inverted", False)
            created["chop"] = o
            created["kwargs"] = dict(kwargs)
            return o
        if isinstance(call.func, ast.Attribute) and call.func.attr == "invert":
            o = ev.eval(call.func.value)
            if isinstance(o, Obj):
                o.set("_inverted", True)
                return None
        if name in ("copy.copy", "copy.deepcopy", "dict") and len(call.args) == 1:
            v = ev.eval(call.args[0])
            if isinstance(v, dict):
                return dict(v)
        return NO_MATCH

    ev = Evaluator(call_hook=hook, repo=repo, module=fn.module)
    try:
        ret = ev.call_funcinfo(fn, [this, inverted])
    except (NotEvaluable, Raised) as err:
        raise AnalysisError(f"Chop.copy_preserving not evaluable for preserve={preserve!r}: {err}") from err
    if "kwargs" not in created or ret is not created.get("chop"):
        raise AnalysisError("Chop.copy_preserving does not return a Chop(**args) it created")
    return created["kwargs"], created["chop"].get("_inverted")


def count_carried(repo: Repo) -> RuleRun:
    r = RuleRun(PROP, "C01.COUNT-CARRIED", floor=4, what="a propagated chop carries results['count']; the hex line prints axis.count for axes 0,1,2 in order")
    chop = repo.cls("grading.chop.Chop")
    from ..util import literal_members

    pres = literal_members(repo, chop.module, chop.class_annotations.get("preserve"))
    r.require(bool(pres), "Chop.preserve is not annotated with a Literal of field names")
    fn = repo.func("grading.chop.Chop.copy_preserving")
    for p in pres:
        kwargs, _ = eval_copy_preserving(repo, p)
        got = kwargs.get("count")
        r.check(
            got == Sym("results.count"),
            fn,
            f"preserve={p}: copy gets count=results['count']",
            f"preserve={p}: the copy is created with count={got!r}; the resolved count results['count'] is not carried to the neighbour",
            fn.node,
            key=f"count:{p}",
        )
    # the count a manager reports (the one written into the hex entry) is the TOTAL of its grading, all divisions
    for clsname in ("items.wires.manager.WireChopManager", "items.wires.manager.WirePropagateManager"):
        mcls = repo.cls(clsname)
        cm = repo.find_method(mcls, "count")
        r.require(cm is not None and cm.is_property, f"{clsname}.count is no longer a property")

        def grading(tag):
            g = Obj(f"grading_{tag}")
            g.set("count", Sym(f"TOTAL_{tag}"))
            g.set("counts", [Sym(f"n0_{tag}"), Sym(f"n1_{tag}")])
            g.set("is_defined", True)
            g.set("specification", [[Sym("r0"), Sym(f"n0_{tag}"), Sym("e0")], [Sym("r1"), Sym(f"n1_{tag}"), Sym("e1")]])
            return g

        mgr = Obj("mgr", cls=mcls)
        mgr.set("grading", grading("axis"))
        mgr.set("wires", [Obj(f"w{i}", grading=grading("wire")) for i in range(4)])
        mgr.set("chops", [])
        try:
            got = Evaluator(repo=repo, module=cm.module).call_funcinfo(cm, [mgr])
        except (NotEvaluable, Raised) as err:
            raise AnalysisError(f"{cm.qualname} not evaluable on a two-division grading: {err}") from err
        r.check(
            got in (Sym("TOTAL_axis"), Sym("TOTAL_wire")),
            cm,
            f"{mcls.name}.count = total count of the grading",
            f"{mcls.name}.count of an axis graded in two divisions is {got!r}; the hex entry must carry the TOTAL count of the grading (all divisions), "
            "otherwise a multigraded family is written with the count of one division next to blocks that carry the sum",
            cm.node,
            key=f"manager-count:{mcls.name}",
        )
    # Block.description prints counts in axis order
    desc = repo.func("items.block.Block.description")
    found = False
    for n in ast.walk(desc.node):
        if isinstance(n, (ast.ListComp, ast.GeneratorExp)) and len(n.generators) == 1:
            gen = n.generators[0]
            if attr_chain(gen.iter) == "self.axes" and isinstance(gen.target, ast.Name) and not gen.ifs:
                reads = [a for a in ast.walk(n.elt) if isinstance(a, ast.Attribute) and a.attr == "count" and isinstance(a.value, ast.Name) and a.value.id == gen.target.id]
                if reads:
                    found = True
    if not found:
        idx = []
        for n in ast.walk(desc.node):
            if isinstance(n, ast.Attribute) and n.attr == "count" and isinstance(n.value, ast.Subscript) and attr_chain(n.value.value) == "self.axes":
                try:
                    idx.append(ast.literal_eval(n.value.slice))
                except Exception:  # noqa: BLE001
                    pass
        found = idx == [0, 1, 2]
    r.check(found, desc, "counts printed for self.axes in order", "Block.description does not print axis.count for axes 0,1,2 in order", desc.node, key="fmt_count")
    return r


count_carried.rule_id = "C01.COUNT-CARRIED"


# --------------------------------------------------------------------------------------------
def _pair_loops(fn: FuncInfo, method: str):
    """Finds calls X.method(Y) where X, Y are loop variables; returns (call, x_iter, y_iter, loops)."""
    out = []
    for n in ast.walk(fn.node):
        if isinstance(n, ast.Call) and isinstance(n.func, ast.Attribute) and n.func.attr == method and len(n.args) == 1:
            x, y = n.func.value, n.args[0]
            loops = [l for l in enclosing_loops(n, fn.node) if isinstance(l, ast.For)]
            it = {}
            for lp in loops:
                if isinstance(lp.target, ast.Name):
                    it[lp.target.id] = lp
            out.append((n, x, y, it, loops))
    return out


def neighbour_symmetry(repo: Repo) -> RuleRun:
    r = RuleRun(PROP, "C01.NEIGHBOUR-SYMMETRY", floor=5, what="neighbour relation registered in both directions over all 3x3 axes and 12x12 wires")
    upd = repo.func("lists.block_list.BlockList.update_neighbours")
    params = upd.params
    r.require(len(params) == 2, "update_neighbours(self, new_block) signature changed")
    newb = params[1]
    pairs = _pair_loops(upd, "add_neighbour")
    fwd = bwd = False
    for call, x, y, it, loops in pairs:
        xs, ys = ast.unparse(x), ast.unparse(y)
        for lp in loops:
            if attr_chain(lp.iter) == "self.blocks" and isinstance(lp.target, ast.Name):
                lv = lp.target.id
                exits = loop_early_exits(lp)
                if exits:
                    continue
                if xs == lv and ys == newb:
                    fwd = True
                if xs == newb and ys == lv:
                    bwd = True
    r.check(fwd, upd, "existing.add_neighbour(new) for every existing block", "update_neighbours does not register the new block with every existing block", upd.node, key="existing->new")
    r.check(bwd, upd, "new.add_neighbour(existing) for every existing block", "update_neighbours does not register every existing block with the new block (relation is one-directional)", upd.node, key="new->existing")
    # the only guard allowed in the loop is the identity test
    for lp in [n for n in ast.walk(upd.node) if isinstance(n, ast.For) and attr_chain(n.iter) == "self.blocks"]:
        conts = [n for n in ast.walk(lp) if isinstance(n, ast.Continue)]
        for cnt in conts:
            p = parent(cnt)
            ok = isinstance(p, ast.If) and {ast.unparse(x) for x in [p.test.left, *p.test.comparators]} == {lp.target.id, newb} if isinstance(p, ast.If) and isinstance(p.test, ast.Compare) else False
            r.check(ok, upd, "skip only the block itself", f"update_neighbours skips blocks on a condition other than identity: {ast.unparse(p.test) if isinstance(p, ast.If) else '?'}", p if isinstance(p, ast.If) else cnt, key="skip-guard")

    add = repo.func("items.block.Block.add_neighbour")
    cand = add.params[1]

    def full_pairing(method: str, container_self: str, container_other: str) -> bool:
        for call, x, y, it, loops in _pair_loops(add, method):
            if not (isinstance(x, ast.Name) and isinstance(y, ast.Name) and x.id in it and y.id in it):
                continue
            lx, ly = it[x.id], it[y.id]
            if attr_chain(lx.iter) == container_self and attr_chain(ly.iter) == container_other and not loop_early_exits(lx) and not loop_early_exits(ly):
                # no filtering if-statement between loop and call
                p = parent(call)
                guarded = False
                while p is not None and p is not add.node:
                    if isinstance(p, ast.If):
                        guarded = True
                    p = parent(p)
                if not guarded:
                    return True
        return False

    r.check(full_pairing("add_neighbour", "self.axes", f"{cand}.axes"), add, "all 3x3 axis pairs offered to Axis.add_neighbour", "Block.add_neighbour does not offer every axis of the candidate to every axis of this block", add.node, key="axes 3x3")
    r.check(full_pairing("add_coincident", "self.wire_list", f"{cand}.wire_list"), add, "all 12x12 wire pairs offered to Wire.add_coincident", "Block.add_neighbour does not offer every wire of the candidate to every wire of this block", add.node, key="wires 12x12")
    # early return only for identity
    for ret in [n for n in walk_shallow(add.node) if isinstance(n, ast.Return)]:
        p = parent(ret)
        ok = isinstance(p, ast.If) and isinstance(p.test, ast.Compare) and {ast.unparse(p.test.left), *[ast.unparse(c) for c in p.test.comparators]} == {"self", cand}
        r.check(ok, add, "early return only for the block itself", f"Block.add_neighbour returns early on a condition other than identity: {ast.unparse(p.test) if isinstance(p, ast.If) else 'unconditional'}", p if isinstance(p, ast.If) else ret, key="early-return")

    # wire_list = the wires of all three axes, each once
    wl = repo.func("items.block.Block.wire_list")
    block = Obj("block")
    axes = []
    for a in range(3):
        wires = [Sym(f"w{a}{i}") for i in range(4)]
        axes.append(Obj(f"axis{a}", wires=Obj(f"mgr{a}", wires=wires)))
    block.set("axes", axes)
    try:
        res = Evaluator(repo=repo, module=wl.module).call_funcinfo(wl, [block])
    except (NotEvaluable, Raised) as err:
        raise AnalysisError(f"Block.wire_list not evaluable: {err}") from err
    names = sorted(repr(x) for x in res) if isinstance(res, list) else None
    r.check(names == sorted(f"w{a}{i}" for a in range(3) for i in range(4)), wl, "wire_list lists the 12 wires once each", f"Block.wire_list does not list each of the 12 wires exactly once: {res}", wl.node, key="wire_list")
    return r


neighbour_symmetry.rule_id = "C01.NEIGHBOUR-SYMMETRY"


# --------------------------------------------------------------------------------------------
def _wire(repo: Repo, name: str, v1, v2, axis=0):
    w = Obj(name, cls=repo.cls("items.wires.wire.Wire"))
    w.set("vertices", [v1, v2])
    w.set("corners", [0, 1])
    w.set("axis", axis)
    w.set("coincidents", set())
    w.set("edge", Obj(f"{name}.edge", kind="line", length=Sym(f"{name}.length")))
    return w


def coincidence_symmetry(repo: Repo) -> RuleRun:
    r = RuleRun(PROP, "C01.COINCIDENCE-SYMMETRY", floor=10, what="Wire.is_coincident accepts either vertex order, is_aligned the same order only; Axis.add_neighbour / is_aligned are built on them")
    r.exhaustive = True
    # vertices are objects with a position on a 1-D model line: identity and position are different things (a face-merged
    # interface has two vertex objects at every point of the slave side)
    def vtx(name, pos, index):
        return Obj(name, position=float(pos), index=index)

    a, b, c = vtx("va", 0, 0), vtx("vb", 1, 1), vtx("vc", 2, 2)
    a2, b2 = vtx("va-duplicate", 0, 3), vtx("vb-duplicate", 1, 4)
    coin = repo.func("items.wires.wire.Wire.is_coincident")
    alig = repo.func("items.wires.wire.Wire.is_aligned")
    addc = repo.func("items.wires.wire.Wire.add_coincident")

    def model_hook(ev, call, name):
        nm = (name or "").split(".")[-1]
        if nm == "get_args":
            return (0, 1, 2)
        if nm == "norm" and call.args:
            v = ev.eval(call.args[0])
            if isinstance(v, (int, float)) and not isinstance(v, bool):
                return abs(v)
        return NO_MATCH

    def run(fi, this, other):
        ev = Evaluator(repo=repo, module=fi.module, call_hook=model_hook)
        ev.float_arith = True
        try:
            return ev.call_funcinfo(fi, [this, other])
        except Raised as err:
            return ("raised", err.exc_name)
        except NotEvaluable as err:
            raise AnalysisError(f"{fi.qualname} not evaluable on symbolic wires: {err}") from err

    cases = [
        ("same order", (a, b), (a, b), True),
        ("reversed", (a, b), (b, a), True),
        ("shares first vertex only", (a, b), (a, c), False),
        ("shares second vertex only", (a, b), (c, b), False),
        ("shares one vertex, crosswise", (a, b), (b, c), False),
        ("other vertex objects at the same two places (the duplicated side of a merged interface)", (a, b), (a2, b2), False),
        ("one shared vertex, the other a duplicate at the same place", (a, b), (a, b2), False),
        # a collapsed wire - both ends at one vertex: the apex of a wedge standing on its axis - is a point, not an edge; it has no
        # cells and blockMesh ties nothing to it, so it is 'the same edge' as nothing (two sectors on one axis keep their own counts)
        ("two collapsed wires of different blocks at one vertex", (a, a), (a, a), False),
        ("a collapsed wire and an edge starting at its vertex", (a, a), (a, b), False),
        ("an edge and a collapsed wire at its far end", (a, b), (b, b), False),
    ]
    for label, v, w, expect in cases:
        got = run(coin, _wire(repo, "w1", *v), _wire(repo, "w2", *w))
        r.check(
            got is expect,
            coin,
            f"{label}: {got}",
            f"Wire.is_coincident gives {got!r} for wires with vertices {v} and {w} ({label}); expected {expect}. "
            "A flipped neighbour block would never be connected / a non-coincident wire would be.",
            coin.node,
            key=f"is_coincident:{label}",
        )
    for label, v, w, expect in [("same order", (a, b), (a, b), True), ("reversed", (a, b), (b, a), False)]:
        got = run(alig, _wire(repo, "w1", *v), _wire(repo, "w2", *w))
        r.check(got is expect, alig, f"{label}: {got}", f"Wire.is_aligned gives {got!r} for {label} wires; expected {expect}", alig.node, key=f"is_aligned:{label}")
    got = run(alig, _wire(repo, "w1", a, b), _wire(repo, "w2", a, c))
    r.check(isinstance(got, tuple) and got[0] == "raised", alig, "non-coincident wires raise", f"Wire.is_aligned on non-coincident wires returns {got!r} instead of raising", alig.node, key="is_aligned:non-coincident")
    # add_coincident registers reversed wires too
    for label, w, expect in [("same order", (a, b), True), ("reversed", (b, a), True), ("other", (a, c), False)]:
        w1 = _wire(repo, "w1", a, b)
        w2 = _wire(repo, "w2", *w)
        run(addc, w1, w2)
        got = w2 in w1.get("coincidents")
        r.check(got is expect, addc, f"{label}: registered={got}", f"Wire.add_coincident registered={got} for a {label} wire; expected {expect}", addc.node, key=f"add_coincident:{label}")

    # Axis.add_neighbour / Axis.is_aligned on symbolic axes
    axis_cls = repo.cls("items.wires.axis.Axis")
    addn = repo.func("items.wires.axis.Axis.add_neighbour")
    aal = repo.func("items.wires.axis.Axis.is_aligned")
    verts = [vtx(f"v{i}", 10 + i, 10 + i) for i in range(12)]

    def axis(name, pairs):
        from ..peval import empty_defaults

        ax = Obj(name, cls=axis_cls)
        ax.set("wires", [_wire(repo, f"{name}.w{i}", p[0], p[1]) for i, p in enumerate(pairs)])
        ax.set("neighbours", set())
        ax.set("index", 0)
        empty_defaults(repo, axis_cls, ax)  # whatever else the constructor starts empty
        return ax

    base_pairs = [(verts[0], verts[1]), (verts[2], verts[3]), (verts[4], verts[5]), (verts[6], verts[7])]
    for pos in range(4):
        for rev in (False, True):
            shared = base_pairs[pos][::-1] if rev else base_pairs[pos]
            other_pairs = [(verts[8], verts[9]), (verts[10], verts[11]), shared, (verts[9], verts[10])]
            ax1 = axis("axis1", base_pairs)
            ax2 = axis("axis2", other_pairs)
            run(addn, ax1, ax2)
            got = ax2 in ax1.get("neighbours")
            r.check(got, addn, f"shared wire #{pos} ({'reversed' if rev else 'aligned'}) -> neighbour", f"Axis.add_neighbour misses an axis sharing its wire #{pos} ({'reversed' if rev else 'same'} order)", addn.node, key=f"axis.add_neighbour:{pos}:{'rev' if rev else 'fwd'}")
            got2 = run(aal, ax1, ax2)
            r.check(got2 is (not rev), aal, f"is_aligned={got2}", f"Axis.is_aligned gives {got2!r} for an axis sharing wire #{pos} in {'reversed' if rev else 'same'} order", aal.node, key=f"axis.is_aligned:{pos}:{'rev' if rev else 'fwd'}")
    # one axis asked about two neighbours in turn that carry the same local axis number but run opposite ways: every answer is its own
    for first_rev in (False, True):
        ax1 = axis("axis1", base_pairs)
        nb_a = axis("neighbour-a", [(verts[8], verts[9]), (verts[10], verts[11]), base_pairs[0][::-1] if first_rev else base_pairs[0], (verts[9], verts[10])])
        nb_b = axis("neighbour-b", [(verts[8], verts[10]), (verts[9], verts[11]), base_pairs[2] if first_rev else base_pairs[2][::-1], (verts[8], verts[11])])
        got = (run(aal, ax1, nb_a), run(aal, ax1, nb_b))
        want = (not first_rev, first_rev)
        r.check(
            got == want,
            aal,
            f"two neighbours with the same local axis number, {'anti-aligned then aligned' if first_rev else 'aligned then anti-aligned'}: {got}",
            f"Axis.is_aligned asked about two neighbouring axes in turn (both numbered 0 in their blocks, the first {'anti-' if first_rev else ''}aligned, the second {'' if first_rev else 'anti-'}aligned) answers {got}; "
            f"expected {want}: the answer for the first neighbour is handed out for the second - its chops are copied without inversion and the preserved size lands at the wrong end of its free edges",
            aal.node,
            key=f"axis.is_aligned:sequence:{'rev-first' if first_rev else 'fwd-first'}",
        )
    ax1 = axis("axis1", base_pairs)
    ax3 = axis("axis3", [(verts[8], verts[9]), (verts[10], verts[11]), (verts[0], verts[2]), (verts[1], verts[3])])
    run(addn, ax1, ax3)
    r.check(ax3 not in ax1.get("neighbours"), addn, "axis without common wire is not a neighbour", "Axis.add_neighbour registers an axis that shares no wire", addn.node, key="axis.add_neighbour:none")
    return r


coincidence_symmetry.rule_id = "C01.COINCIDENCE-SYMMETRY"

def grade_idempotent(repo: Repo) -> RuleRun:
    """The count written for a block direction comes from the axis grading, the counts compared by the
    consistency check from the wires: both must be rebuilt together on every grade() (same rule as C12)."""
    from . import c12

    res = c12.grade_idempotent(repo)
    res.prop, res.rule = PROP, "C01.GRADE-IDEMPOTENT"
    for f in res.findings:
        f.property, f.rule = PROP, "C01.GRADE-IDEMPOTENT"
    return res


grade_idempotent.rule_id = "C01.GRADE-IDEMPOTENT"

def chopped_wires(repo: Repo) -> RuleRun:
    """'the count in the hex entry is the count on the block's edges': a chopped axis grades its wires from its own chops, whatever the neighbours carry already. Same rule as C04.RESULTS-BEFORE-COPY."""
    from ..report import rebrand
    from . import c04

    return rebrand(c04.results_before_copy(repo), PROP, "C01.CHOPPED-WIRES")


chopped_wires.rule_id = "C01.CHOPPED-WIRES"

def user_chop_kept(repo: Repo, prop: str = PROP, rule: str = "C01.USER-CHOP-KEPT") -> RuleRun:
    """'a conflict ends in an inconsistent-grading error': a chop the user puts on a block direction makes that direction a CHOPPED
    one - whatever the direction holds at that moment. After a grading pass a propagated direction holds copies of its neighbour's
    chops, which the next pass throws away; a user chop merely appended to that list is thrown away with them, and a conflicting
    count is never seen. Abstract run of Axis.chop on a fresh axis, on a propagated axis that holds copied chops, and on an axis
    that is chopped already."""
    r = RuleRun(prop, rule, floor=3, what="Axis.chop turns a propagated direction into a chopped one (its manager replaced) whatever it held before; on a chopped direction the chop is appended")
    fn = repo.func("items.wires.axis.Axis.chop")
    axis_cls = repo.cls("items.wires.axis.Axis")
    chop_mgr, prop_mgr = repo.cls("items.wires.manager.WireChopManager"), repo.cls("items.wires.manager.WirePropagateManager")
    for label, mgr_cls, held in (("fresh propagated direction", prop_mgr, []), ("propagated direction holding copies of a neighbour's chops (after a grading pass)", prop_mgr, ["copied-chop"]), ("direction chopped before", chop_mgr, ["user-chop-1"])):
        wires = [Obj(f"w{i}") for i in range(4)]
        mgr = Obj("manager", cls=mgr_cls)
        mgr.set("wires", wires)
        mgr.set("chops", [Obj(h) for h in held])
        mgr.set("grading", Obj("axis-grading"))
        axis = Obj("axis", cls=axis_cls)
        axis.set("index", 0)
        axis.set("wires", mgr)
        axis.set("neighbours", set())
        new_chop = Obj("the-user's-new-chop")

        def hook(ev, call: ast.Call, name):
            if (name or "").split(".")[-1] == "WireChopManager":
                args = [ev.eval(a) for a in call.args]
                m = Obj("new-chop-manager", cls=chop_mgr)
                m.set("wires", args[0] if args else None)
                m.set("chops", [])
                m.set("grading", Obj("axis-grading-new"))
                return m
            return NO_MATCH

        try:
            Evaluator(repo=repo, module=fn.module, call_hook=hook).call_funcinfo(fn, [axis, new_chop])
        except (Raised, NotEvaluable) as err:
            raise AnalysisError(f"Axis.chop not evaluable on the model ({label}): {err}") from err
        after = axis.get("wires")
        names = [c._name for c in after.get("chops")] if isinstance(after, Obj) and isinstance(after.get("chops"), list) else None
        want = ([*held, new_chop._name] if mgr_cls is chop_mgr else [new_chop._name])
        ok = isinstance(after, Obj) and after._cls is chop_mgr and names == want and after.get("wires") is wires
        r.check(
            ok,
            fn,
            f"{label}: chopped manager holding {want}",
            f"Axis.chop on a {label}: the direction ends with a {after._cls.name if isinstance(after, Obj) and after._cls is not None else type(after).__name__} holding {names}; expected a WireChopManager on the same four wires "
            f"holding {want} - a chop appended to the copies of a propagating manager is thrown away with them when the next grading pass starts: the user's (possibly conflicting) count is silently ignored",
            fn.node,
            key=f"chop:{label.split(' (')[0]}",
        )
    return r


user_chop_kept.rule_id = "C01.USER-CHOP-KEPT"


RULES = [grade_before_write, consistency_reach, axis_table, count_carried, neighbour_symmetry, coincidence_symmetry, grade_idempotent, chopped_wires, user_chop_kept]

"""C18 - finders are exact; viewpoint re-orientation canonicalises block numbering."""

from __future__ import annotations

import ast
from typing import Any, Dict, List, Optional, Tuple

from .. import hexa
from ..model import AnalysisError, Repo, attr_chain, walk_shallow
from ..peval import NO_MATCH, Evaluator, NotEvaluable, Obj, Raised, Sym
from ..report import RuleRun
from .c10 import _run

PROP = "C18"
TITLE = "Finders are exact; viewpoint re-orientation canonicalises block numbering"
DECIDES = (
    "abstract run of the finders on a 1-D integer model of vertex positions: the scan covers every mesh vertex (no early exit), "
    "the comparison is strict against the radius, the default radius is TOL, find_on_plane returns all on-plane vertices, "
    "find_core/find_shell use sketch_1/sketch_2 as requested and shell = shell-face vertices minus core vertices (C18.SCAN); "
    "the i-th entry of the re-orienter's corner table intersects exactly the three sides that meet in corner i of the hexahedron "
    "convention and the write-back puts entries 0-3 on the bottom and 4-7 on the top face (C18.CORNER-TABLE); the frame literal "
    "has opposite vectors on opposite sides, front=+observer, top=+ceiling and (right, back, top) right-handed (C18.FRAME-SIGNS)."
    " the finders' acceptance tests are purely absolute and strict, a plane distance is a projection onto a UNIT normal (part of C18.SCAN); viewing directions and distances are differences of points (C18.AFFINE-KINDS); a finder does not keep a reference to a list that clear()/backport() replaces (C18.STALE-ALIAS)."
    ' Squared distances are compared with squared tolerances (part of C18.SCAN); the corrected ceiling direction is perpendicular to the line of sight - identity modulo unit length in a polynomial domain (C18.ORTHOGONAL-FRAME); nothing computed from a call argument is cached on the re-orienter (C18.NO-STALE-CACHE).'
    " The finders keep no on-demand cache of coordinates and hand out no container of their own (C18.LIVE-QUERIES); the observer's axis is served before the ceiling's before the derived one (C18.SIDE-PRIORITY)."
)
NOT_DECIDED = "exactness for arbitrary geometry (floating-point distances), convex-hull grouping of triangles into sides."
ASSUMPTIONS = ["positions are modelled as integers on a line; norm(a - b) is |a - b|"]


def dist_hook(extra=None):
    def hook(ev: Evaluator, call: ast.Call, name):
        nm = (name or "").split(".")[-1]
        if nm == "norm" and call.args:
            v = ev.eval(call.args[0])
            if isinstance(v, (int, float)) and not isinstance(v, bool):
                return abs(v)
            raise NotEvaluable("norm of a non-number in the 1-D model")
        if name in ("np.array", "np.asarray", "numpy.array", "numpy.asarray") and call.args:
            return ev.eval(call.args[0])
        if nm == "is_point_on_plane" and len(call.args) == 3:
            origin, _normal, p = [ev.eval(a) for a in call.args]
            return origin == p
        if extra is not None:
            return extra(ev, call, name)
        return NO_MATCH

    return hook


def _mesh(positions: List[int]):
    mesh = Obj("mesh")
    vs = []
    for i, p in enumerate(positions):
        v = Obj(f"v{i}")
        v.set("position", p)
        v.set("index", i)
        vs.append(v)
    mesh.set("vertices", vs)
    return mesh, vs


def scan(repo: Repo) -> RuleRun:
    r = RuleRun(PROP, "C18.SCAN", floor=10, what="finders scan all vertices, strict comparison, correct default radius, shell = shell - core")
    fbp = repo.func("modify.find.finder.FinderBase._find_by_position")
    # the acceptance tests themselves: purely absolute, library tolerance (or the caller's radius), nowhere a relative part
    from .. import tolerance

    tolerance.check_functions(
        r,
        repo,
        ["modify.find.finder.FinderBase._find_by_position", "util.functions.is_point_on_plane"],
        scan_modules=("modify.find.finder", "modify.find.geometric", "modify.find.shape", "modify.reorient.viewpoint"),
    )
    for q in ("modify.find.finder.FinderBase._find_by_position", "util.functions.is_point_on_plane"):
        fq = repo.func(q)
        for i, c in enumerate(tolerance.tests_in(repo, fq.module, fq.node)):
            if c.rtol == 0:
                r.check(c.strict and not c.negated, fq, "strict '<'", f"{q} accepts with '{ast.unparse(c.node)}'; a vertex exactly at the given distance is outside (strict '<')", c.node, key=f"strict#{i}")
    from ..domain import projected_length_rule

    projected_length_rule(r, repo, ["util.functions.is_point_on_plane"])
    positions = [0, 3, 5, 5, 9, 7]
    cases = [
        (5, 3, {1, 2, 3, 5}, "radius 3: |d|<3 -> d in {2,0,0,2}"),
        (5, 2, {2, 3}, "radius 2: vertices at distance exactly 2 are outside (strict <)"),
        (5, None, {2, 3}, "default radius TOL: only coincident vertices, both of them"),
        (9, 1, {4}, "last vertex found"),
        (0, 1, {0}, "first vertex found"),
        (100, 5, set(), "nothing in range"),
    ]
    for pos, rad, want, label in cases:
        mesh, vs = _mesh(positions)
        this = Obj("finder", cls=repo.cls("modify.find.finder.FinderBase"))
        this.set("mesh", mesh)
        res = _run(Evaluator(repo=repo, module=fbp.module, call_hook=dist_hook()), fbp, [this, pos, rad])
        got = {v.get("index") for v in res} if isinstance(res, (set, frozenset, list)) else res
        r.check(got == want, fbp, f"{label}: {sorted(got) if isinstance(got, set) else got}", f"_find_by_position(position={pos}, radius={rad}) on vertices at {positions} returns vertices {sorted(got) if isinstance(got, set) else got}; expected {sorted(want)} ({label})", fbp.node, key=f"by_position:{pos}:{rad}")

    # default radius = the merge tolerance: a vertex half a unit away is not 'at' the position
    mesh, vs = _mesh([0, 3, 5, 5.5, 9, 4.5])
    this = Obj("finder", cls=repo.cls("modify.find.finder.FinderBase"))
    this.set("mesh", mesh)
    evd = Evaluator(repo=repo, module=fbp.module, call_hook=dist_hook())
    evd.float_arith = True
    res = _run(evd, fbp, [this, 5, None])
    got = {v.get("index") for v in res} if isinstance(res, (set, frozenset, list)) else res
    r.check(got == {2}, fbp, "default radius: only the coincident vertex", f"_find_by_position(5) without a radius on vertices at [0, 3, 5, 5.5, 9, 4.5] returns {sorted(got) if isinstance(got, set) else got}; the default radius must be the merge tolerance (only vertex 2)", fbp.node, key="default-radius")
    fis = repo.func("modify.find.geometric.GeometricFinder.find_in_sphere")
    mesh, vs = _mesh(positions)
    this = Obj("finder", cls=repo.cls("modify.find.geometric.GeometricFinder"))
    this.set("mesh", mesh)
    res = _run(Evaluator(repo=repo, module=fis.module, call_hook=dist_hook()), fis, [this, 5, 3])
    got = {v.get("index") for v in res} if isinstance(res, (set, list)) else res
    r.check(got == {1, 2, 3, 5}, fis, "find_in_sphere passes position and radius through", f"find_in_sphere(5, 3) returns {got}", fis.node, key="find_in_sphere")

    fop = repo.func("modify.find.geometric.GeometricFinder.find_on_plane")
    def fop_hook(ev, call: ast.Call, name):
        # positions of the toy model are numbers on a line: tuple(position) is the 1-tuple of it
        if name == "tuple" and len(call.args) == 1:
            v = ev.eval(call.args[0])
            if isinstance(v, (int, float)) and not isinstance(v, bool):
                return (v,)
        return dist_hook()(ev, call, name)

    # (vertices 2 and 3 are at the same spot - the two copies of a vertex on a merged patch pair: both are on the plane)
    res = _run(Evaluator(repo=repo, module=fop.module, call_hook=fop_hook), fop, [this, 5, Sym("normal")])
    got = {v.get("index") for v in res} if isinstance(res, (set, list)) else res
    r.check(got == {2, 3}, fop, "find_on_plane returns all on-plane vertices", f"find_on_plane returns {got}; vertices 2 and 3 lie on the plane", fop.node, key="find_on_plane")
    ptp = repo.func("util.functions.point_to_plane_distance")
    from .c20 import SignEnv

    rets = [n for n in walk_shallow(ptp.node) if isinstance(n, ast.Return)]
    nonneg = bool(rets) and all(x.value is not None and SignEnv(repo, ptp).nonneg(x.value) for x in rets)
    r.check(nonneg, ptp, "distance is an absolute value", "point_to_plane_distance can return a signed value: points on the negative side of the plane would always count as 'on the plane'", ptp.node, key="point_to_plane_distance")

    # RoundSolidFinder
    rsf = repo.cls("modify.find.shape.RoundSolidFinder")
    fcore = repo.func("modify.find.shape.RoundSolidFinder.find_core")
    fshell = repo.func("modify.find.shape.RoundSolidFinder.find_shell")

    def sketch(core_pos, shell_pos):
        sk = Obj("sketch")

        def faces(groups):
            out = []
            for g in groups:
                f_ = Obj("face")
                f_.set("points", [Obj("pt", position=p) for p in g])
                out.append(f_)
            return out

        sk.set("core", faces(core_pos))
        sk.set("shell", faces(shell_pos))
        return sk

    mesh, vs = _mesh([0, 1, 2, 3, 6, 7, 10, 11, 12, 13, 16, 17])
    shape = Obj("shape")
    shape.set("sketch_1", sketch([[0, 1, 2, 3]], [[1, 6, 7, 2], [3, 2, 7, 6]]))
    shape.set("sketch_2", sketch([[10, 11, 12, 13]], [[11, 16, 17, 12]]))
    # the lofts of the shape as they are after Shape.mirror(): every loft inverted (its bottom face is the END sketch's face), the
    # sketches untouched - the finder answers for the sketch the caller names, whatever the lofts look like
    lofts = []
    for k, (f1, f2) in enumerate(zip(shape.get("sketch_1").get("core") + shape.get("sketch_1").get("shell"), shape.get("sketch_2").get("core") + shape.get("sketch_2").get("shell"))):
        lofts.append(Obj(f"loft{k}", bottom_face=f2, top_face=f1))
    shape.set("operations", lofts)
    shape.set("core", lofts[:1])
    shape.set("shell", lofts[1:])
    this = Obj("rsf", cls=rsf)
    this.set("mesh", mesh)
    this.set("shape", shape)
    for fn, end, want, label in (
        (fcore, False, {0, 1, 2, 3}, "core of start face"),
        (fcore, True, {6, 7, 8, 9}, "core of end face"),
        (fshell, False, {4, 5}, "outer rim of start face = shell vertices minus core vertices"),
        (fshell, True, {10, 11}, "outer rim of end face"),
    ):
        res = _run(Evaluator(repo=repo, module=fn.module, call_hook=dist_hook()), fn, [this, end])
        got = {v.get("index") for v in res} if isinstance(res, (set, frozenset, list)) else res
        r.check(got == want, fn, f"{label}: {sorted(got) if isinstance(got, set) else got}", f"{fn.name}(end_face={end}) returns vertices {sorted(got) if isinstance(got, set) else got}; expected {sorted(want)} ({label})", fn.node, key=f"{fn.name}:{end}")
    return r


scan.rule_id = "C18.SCAN"


# --------------------------------------------------------------------------------------------
def corner_table(repo: Repo) -> RuleRun:
    r = RuleRun(PROP, "C18.CORNER-TABLE", floor=10, what="sorted_points[i] = intersection of the three sides meeting in corner i; write-back 0-3 bottom, 4-7 top")
    r.exhaustive = True
    fn = repo.func("modify.reorient.viewpoint.ViewpointReorienter.reorient")
    table = None
    tname = None
    for n in walk_shallow(fn.node):
        if isinstance(n, ast.Assign) and isinstance(n.value, ast.List) and len(n.value.elts) == 8 and isinstance(n.targets[0], ast.Name):
            table, tname = n.value, n.targets[0].id
    r.require(table is not None, "ViewpointReorienter.reorient: 8-entry corner table not found")
    for i, e in enumerate(table.elts):
        sides = None
        if isinstance(e, ast.Call) and isinstance(e.func, ast.Attribute) and e.func.attr == "get_common_point":
            parts = [e.func.value, *e.args]
            try:
                sides = [ast.literal_eval(p.slice) for p in parts if isinstance(p, ast.Subscript)]
            except Exception:  # noqa: BLE001
                sides = None
        r.require(sides is not None and len(sides) == 3, f"corner table entry {i} is not quads[a].get_common_point(quads[b], quads[c])")
        want = hexa.sides_of_corner(i)
        r.check(set(sides) == set(want), fn, f"entry {i}: {sorted(sides)}", f"entry {i} of the corner table intersects sides {sorted(sides)}; corner {i} of a hexahedron is where {sorted(want)} meet", e, key=f"entry{i}")
    # write-back loops
    loops = [n for n in walk_shallow(fn.node) if isinstance(n, ast.For) and any(isinstance(t, ast.Attribute) and t.attr == "position" for s in n.body if isinstance(s, ast.Assign) for t in s.targets)]
    r.require(len(loops) >= 1, "write-back loops (point.position = sorted_points[...]) not found")
    op = Obj("operation")
    pts = {}
    for nm in ("bottom", "top"):
        f_ = Obj(nm)
        f_.set("points", [Obj(f"{nm}{i}", position=Sym("old")) for i in range(4)])
        op.set(f"{nm}_face", f_)
    params = fn.params
    ev = Evaluator(repo=repo, module=fn.module)
    ev.env[params[1]] = op
    ev.env[tname] = [Sym(f"s{i}") for i in range(8)]
    try:
        for lp in loops:
            ev.run_stmt(lp)
    except (NotEvaluable, Raised) as err:
        raise AnalysisError(f"write-back loops not evaluable: {err}") from err
    got = [p.get("position") for p in op.get("bottom_face").get("points")] + [p.get("position") for p in op.get("top_face").get("points")]
    r.check([repr(g) for g in got] == [f"s{i}" for i in range(8)], fn, "entries 0-3 -> bottom, 4-7 -> top", f"the write-back assigns {got} to corners 0..7", loops[0], key="write-back")
    r.check(True, fn, "table has 8 entries", "", key="len")
    return r


corner_table.rule_id = "C18.CORNER-TABLE"


# --------------------------------------------------------------------------------------------
def frame_signs(repo: Repo) -> RuleRun:
    r = RuleRun(PROP, "C18.FRAME-SIGNS", floor=6, what="signed-basis algebra on the dict literal of _get_normals")
    fn = repo.func("modify.reorient.viewpoint.ViewpointReorienter._get_normals")
    rets = [n for n in walk_shallow(fn.node) if isinstance(n, ast.Return) and isinstance(n.value, ast.Dict)]
    r.require(len(rets) == 1, "_get_normals: dict literal return not found")
    d = rets[0].value
    # definitions of the basis names: e1 = observer, e2 = ceiling (after orthogonalisation), e3 = e1 x e2
    basis: Dict[str, Tuple[int, int]] = {}  # name -> (sign, basis index)
    for st in fn.node.body:
        if isinstance(st, ast.Assign) and isinstance(st.targets[0], ast.Name):
            name = st.targets[0].id
            txt = ast.unparse(st.value)
            val = st.value
            # unwrap f.unit_vector(...)
            while isinstance(val, ast.Call) and (attr_chain(val.func) or "").split(".")[-1] == "unit_vector" and val.args:
                val = val.args[0]
            if isinstance(val, ast.Call) and (attr_chain(val.func) or "").split(".")[-1] == "cross" and len(val.args) == 2:
                a, b = val.args
                if isinstance(a, ast.Name) and isinstance(b, ast.Name) and a.id in basis and b.id in basis:
                    (sa, ia), (sb, ib) = basis[a.id], basis[b.id]
                    if {ia, ib} == {0, 1}:
                        basis[name] = (sa * sb * (1 if (ia, ib) == (0, 1) else -1), 2)
                continue
            if "observer" in txt and "ceiling" not in txt and name not in basis:
                basis[name] = (1, 0)
            elif "ceiling" in txt and name not in basis and "dot" not in txt:
                basis[name] = (1, 1)
            elif isinstance(val, ast.Name) and val.id in basis:
                basis[name] = basis[val.id]
    r.require(len({i for _, i in basis.values()}) == 3, f"_get_normals: could not identify observer / ceiling / cross-product vectors ({basis})")
    vec: Dict[str, Tuple[int, int]] = {}
    for k, v in zip(d.keys, d.values):
        key = ast.literal_eval(k)
        sign = 1
        while isinstance(v, ast.UnaryOp) and isinstance(v.op, ast.USub):
            sign, v = -sign, v.operand
        r.require(isinstance(v, ast.Name) and v.id in basis, f"_get_normals: value for '{key}' is not a signed basis vector")
        s, i = basis[v.id]
        vec[key] = (sign * s, i)
    r.require(set(vec) == set(hexa.SIDE_PLANE), f"_get_normals keys: {sorted(vec)}")
    for a, b in (("front", "back"), ("top", "bottom"), ("left", "right")):
        r.check(vec[a][1] == vec[b][1] and vec[a][0] == -vec[b][0], fn, f"{a} = -{b}", f"'{a}' and '{b}' are not opposite vectors", d, key=f"opposite:{a}")
    r.check(vec["front"] == (1, 0), fn, "front = +observer", "the front side does not face the observer", d, key="front")
    r.check(vec["top"] == (1, 1), fn, "top = +ceiling", "the top side does not face the ceiling point", d, key="top")
    # right-handedness: x = right, y = back, z = top ; x . (y x z) with e1 x e2 = e3
    (a_, ia), (b_, ib), (c_, ic) = vec["right"], vec["back"], vec["top"]
    r.require(sorted((ia, ib, ic)) == [0, 1, 2], "right/back/top are not along three different basis vectors")
    perm = (ia, ib, ic)
    parity = {(0, 1, 2): 1, (1, 2, 0): 1, (2, 0, 1): 1, (0, 2, 1): -1, (2, 1, 0): -1, (1, 0, 2): -1}[perm]
    r.check(a_ * b_ * c_ * parity == 1, fn, "(right, back, top) is right-handed", "the frame (right, back, top) is left-handed: re-oriented blocks would be inside-out", d, key="handedness")
    return r


frame_signs.rule_id = "C18.FRAME-SIGNS"

def triangle_partition(repo: Repo) -> RuleRun:
    """Abstract run of the side-assignment loop of ViewpointReorienter.reorient: the 12 hull triangles are
    handed out to the 6 sides two at a time, each triangle exactly once, candidates shrinking as sides are served."""
    r = RuleRun(PROP, "C18.TRIANGLE-PARTITION", floor=3, what="the 12 hull triangles are partitioned into 6 sides of 2; no triangle is offered again after it was assigned")
    fn = repo.func("modify.reorient.viewpoint.ViewpointReorienter.reorient")
    tris = [Sym(f"t{i:02d}") for i in range(12)]
    offered: List[List[str]] = []
    quads: List[Any] = []

    def hook(ev, call: ast.Call, name):
        ch = attr_chain(call.func) or ""
        if ch == "self._make_triangles":
            return list(tris)
        if ch == "self._get_normals":
            return {k: Sym(f"n_{k}") for k in ("front", "back", "top", "bottom", "left", "right")}
        if ch == "self._get_aligned":
            cands = ev.eval(call.args[0])
            names = sorted(repr(c) for c in cands)
            offered.append(names)
            pick = [c for c in cands if repr(c) in names[-2:]]
            return sorted(pick, key=repr)
        if ch == "Quadrangle":
            t = ev.eval(call.args[0])
            q = Obj(f"quad{len(quads)}")
            q.set("triangles", list(t))
            quads.append(q)
            return q
        if isinstance(call.func, ast.Attribute) and call.func.attr == "get_common_point":
            return Sym("corner")
        if isinstance(call.func, ast.Attribute) and call.func.attr == "get_closest_side":
            # the block already shows its front to the observer and its top to the ceiling - which says nothing about handedness
            arg = ev.eval(call.args[0]) if call.args else None
            return "front" if arg == Sym("OBSERVER") else "top"
        return NO_MATCH

    this = Obj("reorienter", cls=repo.cls("modify.reorient.viewpoint.ViewpointReorienter"))
    this.set("observer", Sym("OBSERVER"))
    this.set("ceiling", Sym("CEILING"))
    op = Obj("operation")
    op.set("point_array", Sym("points"))
    op.set("center", Sym("center"))
    for nm in ("bottom", "top"):
        f_ = Obj(nm)
        f_.set("points", [Obj(f"{nm}{i}", position=Sym("old")) for i in range(4)])
        op.set(f"{nm}_face", f_)
    try:
        Evaluator(repo=repo, module=fn.module, call_hook=hook).call_funcinfo(fn, [this, op])
    except (NotEvaluable, Raised) as err:
        raise AnalysisError(f"ViewpointReorienter.reorient not evaluable on symbolic triangles: {err}") from err
    used = [repr(t) for q in quads for t in q.get("triangles")]
    r.check(len(quads) == 6 and all(len(q.get("triangles")) == 2 for q in quads), fn, "6 sides of 2 triangles", f"reorient builds {len(quads)} sides with {[len(q.get('triangles')) for q in quads]} triangles", fn.node, key="six-sides")
    r.check(sorted(used) == sorted(map(repr, tris)), fn, "every triangle assigned exactly once", f"the hull triangles are assigned as {used}: some triangle is used for two sides / never used", fn.node, key="partition")
    shrinking = all(len(offered[i]) == 12 - 2 * i for i in range(len(offered))) and all(not (set(offered[i + 1]) & set(sorted(offered[i])[-2:])) for i in range(len(offered) - 1))
    reoffered = []
    taken: List[str] = []
    for names in offered:
        reoffered += [t for t in names if t in taken]
        taken += sorted(names)[-2:]
    r.check(shrinking and not reoffered, fn, f"candidates shrink {[len(o) for o in offered]}", f"triangles already assigned to a side are offered again to later sides ({sorted(set(reoffered))}; candidate counts {[len(o) for o in offered]}): on a strongly warped block a later side steals a triangle of an earlier one", fn.node, key="shrinking")
    return r


triangle_partition.rule_id = "C18.TRIANGLE-PARTITION"

def affine_kinds(repo: Repo) -> RuleRun:
    """The viewing directions of the re-orienter and the finders' distances are differences of points (observer - block
    centre, vertex - position): a position used as a direction is right only for a block at the origin."""
    from ..affine import kinds_rule

    return kinds_rule(repo, PROP, "C18.AFFINE-KINDS", ("modify.", "util.functions"), floor=5)


affine_kinds.rule_id = "C18.AFFINE-KINDS"

def stale_alias(repo: Repo) -> RuleRun:
    """'exactly the vertices of the mesh': a finder must look at the mesh's current vertex list, not at a reference
    taken when it was created that a later clear()/backport() replaces."""
    from ..alias import stale_alias_rule

    return stale_alias_rule(repo, PROP, "C18.STALE-ALIAS")


stale_alias.rule_id = "C18.STALE-ALIAS"

def no_stale_lazy_cache(repo: Repo) -> RuleRun:
    """Viewing directions depend on the block they are computed for: nothing computed from a call argument is cached on the re-orienter / finder."""
    from ..memo import lazy_cache_rule

    return lazy_cache_rule(repo, PROP, "C18.NO-STALE-CACHE", ('modify.',))


no_stale_lazy_cache.rule_id = "C18.NO-STALE-CACHE"

def orthogonal_frame(repo: Repo) -> RuleRun:
    """The viewing frame is orthonormal: the 'ceiling' direction handed to the final normalisation has no component along the
    line of sight. _get_normals is followed statement by statement in a polynomial domain (unit_vector(...) yields a fresh
    symbolic UNIT vector u, i.e. identities are taken modulo |u| = 1): (ceiling - (ceiling . u) u) . u = 0, whereas a flipped
    sign of the correction leaves 2 (ceiling . u). The defect is invisible when the ceiling is already perpendicular."""
    from ..poly import Poly, Rat, Vec, eval_alg, reduce_unit, sym_vec

    r = RuleRun(PROP, "C18.ORTHOGONAL-FRAME", floor=1, what="in _get_normals the corrected ceiling direction is perpendicular to the observer direction (identity modulo unit length)")
    fn = repo.func("modify.reorient.viewpoint.ViewpointReorienter._get_normals")
    units = []

    def hook(expr, env):
        if isinstance(expr, ast.Call) and (attr_chain(expr.func) or "").split(".")[-1] == "unit_vector":
            v = sym_vec(f"u{len(units)}_")
            units.append((f"u{len(units)}_", expr))
            return v
        if isinstance(expr, ast.Attribute) and attr_chain(expr.value) == fn.params[0]:
            return env.setdefault(f"self.{expr.attr}", sym_vec(f"self_{expr.attr}_"))
        return None

    env = {"__hook__": hook, fn.params[1]: sym_vec("center")}
    checked = 0
    born_as: dict = {}
    for st in fn.node.body:
        if isinstance(st, ast.Assign) and len(st.targets) == 1 and isinstance(st.targets[0], ast.Name):
            # before a value is normalised for the second time: is it perpendicular to every earlier unit direction it was corrected by?
            v = st.value
            if isinstance(v, ast.Call) and (attr_chain(v.func) or "").split(".")[-1] == "unit_vector" and v.args and isinstance(v.args[0], ast.Name) and isinstance(env.get(v.args[0].id), Vec) and st.targets[0].id == v.args[0].id:
                corrected = env[v.args[0].id]
                for uname, _ in units:
                    u = sym_vec(uname)
                    if uname == born_as.get(v.args[0].id):
                        continue  # the direction it started as: not supposed to be perpendicular to itself
                    if any(uname in repr(c.num) for c in corrected.c) and not all(repr(c.num) == repr(x.num) for c, x in zip(corrected.c, u.c)):
                        orth = corrected.dot(u)
                        num = orth.num
                        for un, _ in units:
                            num = reduce_unit(num, un)
                        if any(un in repr(num) for un, _ in units) or not num.terms:
                            checked += 1
                            r.check(
                                not num.terms,
                                fn,
                                f"'{v.args[0].id}' is perpendicular to the observer direction before it is normalised",
                                f"_get_normals: the corrected '{v.args[0].id}' keeps the component {num} along the line of sight (it should be 0 for unit directions): the correction has the wrong sign / factor, so "
                                "'top' and 'bottom' lean towards the observer whenever the ceiling point is not already perpendicular to the line of sight",
                                st,
                                key="ceiling-perpendicular",
                            )
            try:
                n_before = len(units)
                env[st.targets[0].id] = eval_alg(st.value, env)
                if len(units) == n_before + 1 and isinstance(v, ast.Call) and (attr_chain(v.func) or "").split(".")[-1] == "unit_vector":
                    born_as[st.targets[0].id] = units[-1][0]
            except AnalysisError:
                env.pop(st.targets[0].id, None)
        elif isinstance(st, ast.AugAssign) and isinstance(st.target, ast.Name) and st.target.id in env:
            try:
                rhs = eval_alg(st.value, env)
                cur = env[st.target.id]
                if isinstance(st.op, ast.Sub):
                    env[st.target.id] = cur - rhs
                elif isinstance(st.op, ast.Add):
                    env[st.target.id] = cur + rhs
                else:
                    env.pop(st.target.id, None)
            except AnalysisError:
                env.pop(st.target.id, None)
    r.require(checked >= 1, "_get_normals: the orthogonalisation step (a direction corrected by its projection on the observer direction, then normalised again) is not recognised")
    return r


orthogonal_frame.rule_id = "C18.ORTHOGONAL-FRAME"

def side_priority(repo: Repo) -> RuleRun:
    """'numbered so that the front side faces the observer, the top side faces the ceiling point': reorient() serves the sides greedily in
    the order of the dictionary _get_normals returns - the first key takes the two best-aligned hull triangles, later ones the best of
    what is left. The observer's axis (front / back) must therefore be served before the ceiling's (top / bottom), and that before the
    derived left / right axis: for an oblique viewpoint another order gives the front side the leftovers. Abstract run of _get_normals."""
    from ..peval import Evaluator, NotEvaluable, Obj, Raised

    r = RuleRun(PROP, "C18.SIDE-PRIORITY", floor=1, what="_get_normals lists the observer's axis (front/back) before the ceiling's (top/bottom) before the derived one (left/right): the greedy side assignment serves them in that order")
    fn = repo.func("modify.reorient.viewpoint.ViewpointReorienter._get_normals")
    this = Obj("reorienter", cls=fn.cls)
    this.set("observer", Sym("observer"))
    this.set("ceiling", Sym("ceiling"))
    ev = Evaluator(repo=repo, module=fn.module, call_hook=lambda ev_, call, name: Sym("geom") if (name or "").split(".")[0] in ("np", "numpy", "f") else NO_MATCH)
    ev.opaque_arith = True
    try:
        res = ev.call_funcinfo(fn, [this, Sym("center")])
    except (Raised, NotEvaluable) as err:
        raise AnalysisError(f"_get_normals not evaluable: {err}") from err
    r.require(isinstance(res, dict) and set(res) == {"front", "back", "top", "bottom", "left", "right"}, f"_get_normals does not return the six sides: {res!r}")
    keys = list(res)
    first = {axis: min(keys.index(k) for k in pair) for axis, pair in (("observer", ("front", "back")), ("ceiling", ("top", "bottom")), ("derived", ("left", "right")))}
    ok = first["observer"] < first["ceiling"] < first["derived"] and keys[0] == "front"
    r.check(ok, fn, f"sides served in the order {keys}", f"_get_normals returns the sides in the order {keys}: the greedy assignment in reorient() gives '{keys[0]}' the first pick of the best-aligned triangles; for a viewpoint some 40 degrees off the best side's normal the front side is then built from what is left and no longer faces the observer", fn.node, key="order")
    return r


side_priority.rule_id = "C18.SIDE-PRIORITY"

def live_queries(repo: Repo) -> RuleRun:
    """'return exactly those mesh vertices that lie within the given sphere ...' - where the vertices are NOW, and every time the question is asked: the finders keep no snapshot of positions and hand out no container of their own."""
    from ..memo import keyed_cache_rule

    return keyed_cache_rule(repo, PROP, "C18.LIVE-QUERIES", ("modify.find",))


live_queries.rule_id = "C18.LIVE-QUERIES"

def flag_truthiness(repo: Repo) -> RuleRun:
    """'find_core / find_shell(end_face=...) return the vertices of THAT end': the flag is tested by truth."""
    from ..optional import flag_identity_rule

    return flag_identity_rule(repo, PROP, "C18.FLAG-TRUTHINESS", ("modify.", "construct.", "optimize.", "util.", "mesh", "items.", "lists."))


flag_truthiness.rule_id = "C18.FLAG-TRUTHINESS"


def owns_viewpoint(repo: Repo) -> RuleRun:
    """'the side facing the observer becomes front' - the observer given when the reorienter was created: the viewpoint and ceiling are private copies (a corner position of a neighbouring block passed as viewpoint moves with that block)."""
    from ..alias import escaping_view_rule

    return escaping_view_rule(repo, PROP, "C18.OWNS-VIEWPOINT", ("modify.",), floor=2)


owns_viewpoint.rule_id = "C18.OWNS-VIEWPOINT"


def scale_free_tests(repo: Repo) -> RuleRun:
    """'for blocks of any size': the re-orienter's small-number tests are tests of lengths."""
    from ..dims import scale_free_module_rule

    return scale_free_module_rule(repo, PROP, "C18.SCALE-FREE-TESTS", ("modify.reorient.viewpoint",))


scale_free_tests.rule_id = "C18.SCALE-FREE-TESTS"


def view_frame_exact(repo: Repo) -> RuleRun:
    """'the side facing the observer becomes front and the side facing the ceiling point top': the observer has priority - 'front' is
    the direction from the block to the observer AS GIVEN, and the ceiling direction is bent until it is at right angles with it
    (never the other way round). Exact rational evaluation of ViewpointReorienter._get_normals for an observer and a ceiling point
    that are far from perpendicular (Pythagorean directions, so every unit vector on the way is rational)."""
    from fractions import Fraction

    from .. import exact

    r = RuleRun(PROP, "C18.VIEW-FRAME-EXACT", floor=4, what="_get_normals: front = unit(observer - centre) exactly; top = the ceiling direction made perpendicular to it; left = front x top (exact rational evaluation)")
    cls = repo.cls("modify.reorient.viewpoint.ViewpointReorienter")
    fn = repo.find_method(cls, "_get_normals")
    r.require(fn is not None, "ViewpointReorienter._get_normals vanished")

    def hook(ev, call, name):
        nm = (name or "").split(".")[-1]
        if nm in ("array", "asarray", "copy") and call.args:
            return ev.eval(call.args[0])
        return NO_MATCH

    centre = exact.vec(Fraction(1, 2), -1, Fraction(2, 3))
    cases = [
        ("ceiling leaning 37 degrees towards the observer", (0, -10, 0), (0, -3, 4), (0, -1, 0), (0, 0, 1)),
        ("ceiling leaning away from the observer", (0, -10, 0), (0, 3, 4), (0, -1, 0), (0, 0, 1)),
        ("oblique observer", (6, 0, 8), (0, 0, 5), (Fraction(3, 5), 0, Fraction(4, 5)), (Fraction(-4, 5), 0, Fraction(3, 5))),
        ("perpendicular already", (0, -10, 0), (0, 0, 7), (0, -1, 0), (0, 0, 1)),
    ]
    for label, obs, ceil_, want_front, want_top in cases:
        this = Obj("reorienter", cls=cls)
        this.set("observer", centre + exact.vec(*obs))
        this.set("ceiling", centre + exact.vec(*ceil_))
        ev = exact.evaluator(repo, fn.module, extra=hook)
        try:
            got = ev.call_funcinfo(fn, [this, centre])
        except (Raised, NotEvaluable) as err:
            raise AnalysisError(f"_get_normals not evaluable over exact rational points ({label}): {err}") from err
        r.require(isinstance(got, dict) and {"front", "top", "left"} <= set(got), "_get_normals does not return the six named directions")
        wf, wt = exact.vec(*want_front), exact.vec(*want_top)
        ok = exact.same(got["front"], wf) and exact.same(got["top"], wt) and exact.same(got["left"], wf.cross(wt)) and exact.same(got["back"], wf.scale(exact.c(-1))) and exact.same(got["bottom"], wt.scale(exact.c(-1)))
        r.check(
            ok,
            fn,
            f"{label}: front towards the observer, top bent to a right angle",
            f"_get_normals, {label} (observer at centre + {obs}, ceiling at centre + {ceil_}): front = {[str(exact.value(x)) for x in got['front'].c]}, top = {[str(exact.value(x)) for x in got['top'].c]}; "
            f"expected front {[str(x) for x in want_front]} (the observer's direction, untouched) and top {[str(x) for x in want_top]}: the observer direction is bent instead of the ceiling direction, "
            "so with a ceiling point that leans towards the observer the side facing the observer is numbered 'top'",
            fn.node,
            key=f"frame:{label}",
        )
    return r


view_frame_exact.rule_id = "C18.VIEW-FRAME-EXACT"


def accept_by_distance(repo: Repo) -> RuleRun:
    """'find_in_sphere returns exactly the vertices within the radius': whatever quick rejections come first, a vertex is ACCEPTED only
    through the distance test norm(vertex - position) < radius - the test is not one alternative of an `or` (an inscribed-cube
    shortcut with the 2-D constant 1/sqrt(2) lets through vertices up to 1.22 r away in diagonal directions)."""
    from ..model import parent as _parent

    r = RuleRun(PROP, "C18.ACCEPT-BY-DISTANCE", floor=1, what="in FinderBase._find_by_position the distance test is a necessary condition of acceptance (never bypassed through an `or`)")
    fn = repo.func("modify.find.finder.FinderBase._find_by_position")
    def is_distance_test(c: ast.AST) -> bool:
        if not (isinstance(c, ast.Compare) and len(c.ops) == 1):
            return False
        has_norm = lambda e: any(isinstance(x, ast.Call) and (attr_chain(x.func) or "").split(".")[-1] == "norm" for x in ast.walk(e))  # noqa: E731
        is_radius = lambda e: isinstance(e, ast.Name) and e.id == "radius"  # noqa: E731
        a, b, op = c.left, c.comparators[0], c.ops[0]
        # norm(...) < radius, or the same test written from the other side: radius > norm(...)
        return (isinstance(op, (ast.Lt, ast.LtE)) and has_norm(a) and is_radius(b)) or (isinstance(op, (ast.Gt, ast.GtE)) and is_radius(a) and has_norm(b))

    tests = [c for c in ast.walk(fn.node) if is_distance_test(c)]
    r.require(len(tests) >= 1, "_find_by_position: the distance test norm(...) < radius was not found")
    for k, t in enumerate(tests):
        p_ = _parent(t)
        bypass = None
        while p_ is not None and not isinstance(p_, ast.stmt):
            if isinstance(p_, ast.BoolOp) and isinstance(p_.op, ast.Or):
                bypass = p_
            if isinstance(p_, ast.UnaryOp) and isinstance(p_.op, ast.Not):
                bypass = bypass or p_
            p_ = _parent(p_)
        r.check(
            bypass is None,
            fn,
            f"'{ast.unparse(t)[:50]}' is necessary for acceptance",
            f"FinderBase._find_by_position accepts a vertex through '{ast.unparse(bypass)[:90] if bypass is not None else ''}': the distance test is only one alternative, the other lets vertices through that are farther "
            "away than the radius (diagonal directions between r and 1.22 r for an inscribed cube of half-side r / sqrt(2))",
            t,
            key=f"distance#{k}",
        )
    return r


accept_by_distance.rule_id = "C18.ACCEPT-BY-DISTANCE"



def view_from_centre(repo: Repo) -> RuleRun:
    """'the result is independent of the numbering the block had before': the directions 'towards the observer' and 'up' are taken at
    the centre of the whole block (all eight corners), which no renumbering moves - not at the centre of the face that happens to be
    the bottom one at the moment. The argument handed to _get_normals in reorient() is evaluated on a symbolic operation whose
    centre, face centres and corner list are distinct atoms."""
    from ..peval import NO_MATCH, Evaluator, NotEvaluable, Obj, Raised, Sym

    r = RuleRun(PROP, "C18.VIEW-FROM-CENTRE", floor=1, what="ViewpointReorienter.reorient measures the viewing directions from the centre of all eight corners of the operation")
    fn = repo.func("modify.reorient.viewpoint.ViewpointReorienter.reorient")
    calls = [c for c in ast.walk(fn.node) if isinstance(c, ast.Call) and isinstance(c.func, ast.Attribute) and c.func.attr == "_get_normals" and c.args]
    r.require(len(calls) >= 1, "reorient() no longer calls _get_normals(<centre>)")
    op = Obj("operation")
    corners = [Sym(f"corner{k}") for k in range(8)]
    op.set("center", Sym("centre-of-8"))
    op.set("point_array", list(corners))
    op.set("points", list(corners))
    for nm, lo in (("bottom_face", 0), ("top_face", 4)):
        face = Obj(nm)
        face.set("center", Sym(f"centre-of-{nm}"))
        face.set("point_array", corners[lo : lo + 4])
        op.set(nm, face)

    def hook(ev, call: ast.Call, name):
        nm = (name or "").split(".")[-1]
        if nm in ("average", "mean") and call.args:
            v = ev.eval(call.args[0])
            if isinstance(v, list) and len(v) == 8 and len({repr(x) for x in v}) == 8:
                return Sym("centre-of-8")
            if isinstance(v, list):
                return Sym(f"centre-of-{len(v)}-points")
        if nm in ("array", "asarray") and call.args:
            return ev.eval(call.args[0])
        return NO_MATCH

    for k, c in enumerate(calls):
        ev = Evaluator(repo=repo, module=fn.module, call_hook=hook)
        ev.env[fn.params[1]] = op
        try:
            got = ev.eval(c.args[0])
        except (Raised, NotEvaluable) as err:
            raise AnalysisError(f"reorient(): the argument of _get_normals ('{ast.unparse(c.args[0])[:50]}') is not evaluable on the symbolic operation: {err}") from err
        r.check(
            repr(got) == "centre-of-8",
            fn,
            f"_get_normals({ast.unparse(c.args[0])[:40]}) = centre of the eight corners",
            f"ViewpointReorienter.reorient takes the viewing directions at '{ast.unparse(c.args[0])[:60]}' = {got!r}, not at the centre of the whole block: which face is 'bottom' depends on the numbering the block had "
            "before, so a close, oblique viewpoint re-orients the same block differently (or raises DegenerateGeometryError) for some of its 48 previous numberings",
            c,
            key=f"centre#{k}",
        )
    return r


view_from_centre.rule_id = "C18.VIEW-FROM-CENTRE"


RULES = [scan, corner_table, frame_signs, triangle_partition, affine_kinds, stale_alias, no_stale_lazy_cache, orthogonal_frame, side_priority, live_queries, flag_truthiness, owns_viewpoint, scale_free_tests, view_frame_exact, accept_by_distance, view_from_centre]

"""C02 - grading propagation terminates, completes and is order-independent."""

from __future__ import annotations

import ast
from typing import Dict, List, Optional, Set, Tuple

from ..cfg import CFG
from ..model import AnalysisError, FuncInfo, Repo, TypeEnv, attr_chain, parent, st_cls, walk_shallow
from ..report import Finding, RuleRun
from ..util import Reach, fmt_path, loop_early_exits, node_calls
from . import c01, c06

PROP = "C02"
TITLE = "Grading propagation terminates, completes and is order-independent"
DECIDES = (
    "every iteration over a set of address-hashed objects or strings in the package is order-insensitive (result consumed by an "
    "order-free reducer, commutative effects only, or an existential exit whose effect and result do not depend on the element); "
    "first-match exits and last-writer stores that depend on the element are reported (C02.SET-ORDER); the fix-point loop of "
    "BlockList.propagate_gradings carries a recognised termination argument - every path that sets the progress flag either "
    "shrinks the worklist or goes through callees that return a truthy value only after is_defined was positively tested following "
    "the last state change (C02.PROGRESS-FLAG); every normal exit of propagate_gradings is guarded by 'worklist non-empty => raise "
    "UndefinedGradingsError' (C02.UNDEFINED-RAISES); no value derived from id()/hash()/time/random/environment reaches the written "
    "file (C02.DET-SOURCES); the neighbour relation is symmetric (C02.NEIGHBOUR-SYMMETRY)."
    ' BlockList.propagate_gradings, with the real Block/Axis methods below it and only the wire managers abstracted, is run over all 24 insertion orders of a 4-block chain and several chop placements: every well-posed family is completed, an ill-posed one raises UndefinedGradingsError, within a step budget (C02.FIXPOINT-SCHEDULES); the aligned / anti-aligned copy carries the resolved count (C02.COPY-CARRIES-COUNT = C04.ALIGNMENT-BRANCH) and the consistency check refuses exactly the models with different total counts (C02.CONSISTENCY-EXACT = C01.CONSISTENCY-REACH).'
    ' The axis-level length is the mean of the four wire lengths in any wire order (C02.AXIS-LENGTH); grading again gives the same counts (C02.GRADE-IDEMPOTENT); two divisions equal by value are both copied (C02.COPY-CARRIES-COUNT).'
    " The schedule model also holds isolated blocks (alone, or detached from the rest) and evaluates what a manager reports as its count with the repository's own code (parts of C02.FIXPOINT-SCHEDULES)."
)
NOT_DECIDED = "that every well-posed family actually receives its count on every topology (a reachability fact about runtime block graphs)."
ASSUMPTIONS = [
    "sets of int iterate deterministically (hash = value); only sets of objects hashed by address and of str (PYTHONHASHSEED) are schedule-dependent",
]

ORDER_FREE_REDUCERS = {"sorted", "min", "max", "sum", "len", "any", "all", "set", "frozenset"}
COMMUTATIVE_METHODS = {"add", "update", "discard"}

# iterations whose order-insensitivity is established by another rule or by reading; one line of reason each
CONFIRMED_INSENSITIVE: Dict[str, str] = {
    # keyed by function: the one set materialisation (list(<set>)) in that function
    "modify.reorient.viewpoint.ViewpointReorienter.reorient": "handed to _get_aligned, which sorts by alignment and takes the best two; ties exist only between the two coplanar triangles of one side and both are taken (outside the write closure)",
    "mesh.Mesh._add_vertices": "the list is sorted on both sides before use (VertexList.find_duplicated sorts in place, DuplicatedEntry stores sorted(patches)) - checked by C05.SLAVE-ONLY sorted-key",
}


def _set_typed(env: TypeEnv, expr: ast.expr):
    t = env.type_of(expr)
    while t is not None and t[0] == "opt":
        t = t[1]
    if t is not None and t[0] == "set":
        return t
    return None


def _elem_is_int(t) -> bool:
    return t is not None and len(t) > 1 and t[1] is not None and t[1] == ("prim", "int")


def _mentions(node: ast.AST, names: Set[str]) -> bool:
    return any(isinstance(n, ast.Name) and n.id in names for n in ast.walk(node))


def classify_for(loop: ast.For) -> Tuple[str, str, Optional[ast.AST]]:
    """('insensitive'|'sensitive'|'unknown', reason, offending node)"""
    lvars = {n.id for n in ast.walk(loop.target) if isinstance(n, ast.Name)}
    # names derived from the loop variable inside the body
    derived = set(lvars)
    changed = True
    while changed:
        changed = False
        for n in ast.walk(loop):
            if isinstance(n, ast.Assign) and _mentions(n.value, derived):
                for t in n.targets:
                    for nm in ast.walk(t):
                        if isinstance(nm, ast.Name) and nm.id not in derived and isinstance(t, (ast.Name, ast.Tuple)):
                            derived.add(nm.id)
                            changed = True
            if isinstance(n, (ast.For, ast.comprehension)) and n is not loop and _mentions(n.iter, derived):
                for nm in ast.walk(n.target):
                    if isinstance(nm, ast.Name) and nm.id not in derived:
                        derived.add(nm.id)
                        changed = True
    exits = loop_early_exits(loop)
    # effects
    effects: List[Tuple[ast.AST, bool, bool]] = []  # (node, depends on element, commutative)
    for n in ast.walk(loop):
        if n is loop:
            continue
        if isinstance(n, ast.Assign):
            for t in n.targets:
                if isinstance(t, ast.Name) and t.id in derived:
                    continue  # local helper value
                dep = _mentions(n.value, derived) or (not isinstance(t, ast.Name) and _mentions(t, derived - lvars) and False)
                # stores into the element itself (element.attr = const) are per-element, order-free
                per_element = isinstance(t, (ast.Attribute, ast.Subscript)) and _mentions(t, lvars) and not _mentions(n.value, derived - lvars - lvars)
                if isinstance(t, (ast.Attribute, ast.Subscript)) and _mentions(t.value if isinstance(t, ast.Attribute) else t.value, lvars):
                    effects.append((n, False, True))
                else:
                    effects.append((n, dep, False))
        elif isinstance(n, ast.AugAssign):
            effects.append((n, _mentions(n.value, derived), isinstance(n.op, (ast.Add, ast.Mult, ast.BitOr, ast.BitAnd))))
        elif isinstance(n, ast.Expr) and isinstance(n.value, ast.Call) and isinstance(n.value.func, ast.Attribute):
            meth = n.value.func.attr
            dep = _mentions(n.value, derived)
            recv_is_elem = _mentions(n.value.func.value, lvars)
            effects.append((n, dep and not recv_is_elem, meth in COMMUTATIVE_METHODS or recv_is_elem))
    if exits:
        for e in exits:
            if isinstance(e, ast.Return) and e.value is not None and _mentions(e.value, derived):
                return "sensitive", "returns a value that depends on the first matching element", e
        dep_effects = [n for n, dep, comm in effects if dep and not comm]
        if dep_effects:
            return "sensitive", "first-match exit: the state change performed before leaving the loop depends on which element matched first", dep_effects[0]
        return "insensitive", "existential exit: effect and result do not depend on the element", None
    dep_noncomm = [n for n, dep, comm in effects if dep and not comm]
    if dep_noncomm:
        return "sensitive", "last writer wins: a store that depends on the element is overwritten by later elements", dep_noncomm[0]
    return "insensitive", "commutative / per-element effects only, no early exit", None


def set_order(repo: Repo) -> RuleRun:
    r = RuleRun(PROP, "C02.SET-ORDER", floor=9, what="iterations over sets of address-hashed objects / strings are order-insensitive")
    n_int = 0
    for fn in sorted(repo.all_functions(), key=lambda f: f.qualname):
        env = None
        for n in ast.walk(fn.node):
            it = None
            kind = None
            if isinstance(n, ast.For):
                it, kind = n.iter, "for"
            elif isinstance(n, (ast.ListComp, ast.GeneratorExp, ast.SetComp, ast.DictComp)):
                it, kind = n.generators[0].iter, "comp"
            elif isinstance(n, ast.Call) and isinstance(n.func, ast.Name) and n.func.id in ("list", "tuple", "next", "iter", "enumerate") and n.args:
                it, kind = n.args[0], "call"
            if it is None:
                continue
            if env is None:
                env = TypeEnv(repo, fn)
            t = _set_typed(env, it)
            if t is None:
                continue
            # keys must not contain local variable names: the attribute holding the set, or '<local set>'
            key = f"{kind}:.{it.attr}" if isinstance(it, ast.Attribute) else f"{kind}:<local set>"
            if _elem_is_int(t):
                n_int += 1
                r.ok(fn, "set of int: iteration order is a function of the values", key=key)
                continue
            confirmed = CONFIRMED_INSENSITIVE.get(fn.qualname) if kind == "call" else None
            if kind == "comp":
                par = parent(n)
                consumed = isinstance(par, ast.Call) and isinstance(par.func, ast.Name) and par.func.id in ORDER_FREE_REDUCERS
                if isinstance(n, (ast.SetComp,)) or consumed:
                    r.ok(fn, "result consumed by an order-free reducer / builds a set", key=key)
                elif confirmed:
                    r.ok(fn, confirmed, key=key)
                else:
                    r.bad(fn, f"a list is built from a set of {t[1][1].name if t[1] and t[1][0] == 'cls' else 'str/objects'}: its order depends on object addresses / hash seed", n, key=key)
                continue
            if kind == "call":
                par = parent(n)
                consumed = isinstance(par, ast.Call) and isinstance(par.func, ast.Name) and par.func.id in ORDER_FREE_REDUCERS
                if consumed:
                    r.ok(fn, "consumed by an order-free reducer", key=key)
                elif confirmed:
                    r.ok(fn, confirmed, key=key)
                else:
                    raise AnalysisError(f"[C02.SET-ORDER] {fn.qualname}: '{ast.unparse(n)}' materialises a set in iteration order; not in the confirmed table - classify it")
                continue
            verdict, reason, node = classify_for(n)
            if verdict == "insensitive":
                r.ok(fn, reason, key=key)
            else:
                r.bad(
                    fn,
                    f"iteration over {ast.unparse(it)} (a set hashed by object address, order varies from run to run): {reason}",
                    node or n,
                    key=key,
                )
    r.note(f"{n_int} iteration(s) over sets of int excluded by the stated assumption")
    return r


set_order.rule_id = "C02.SET-ORDER"


# --------------------------------------------------------------------------------------------
def _returns_truthy_only_when_defined(repo: Repo, fn: FuncInfo, seen: Set[str]) -> Tuple[bool, str, Optional[ast.AST]]:
    """True if every path on which fn returns a possibly-truthy value positively tests `is_defined`
    after the last state mutation; delegating returns (x.copy_grading() or updated) recurse."""
    if fn.qualname in seen:
        return True, "", None
    seen = seen | {fn.qualname}
    g = CFG(fn.node)
    rc = Reach(repo, fn)

    def is_mutation(n) -> bool:
        for c in node_calls(n):
            if isinstance(c.func, ast.Attribute) and c.func.attr in ("grade", "add_chop", "append", "copy_neighbours", "propagate_grading"):
                return True
        return False

    flag_vars: Set[str] = set()
    for n in g.stmt_nodes():
        st = n.stmt
        if n.kind != "stmt" or not isinstance(st, ast.Return) or st.value is None:
            continue
        v = st.value
        if isinstance(v, ast.Constant) and not v.value:
            continue  # return False / None
        if isinstance(v, ast.Attribute) and v.attr == "is_defined":
            continue  # return self.is_defined
        if isinstance(v, ast.Name):
            flag_vars.add(v.id)
            continue
        if isinstance(v, ast.Constant) and v.value:
            # return True: needs a positive is_defined test after the last mutation
            muts = [m for m in g.stmt_nodes() if is_mutation(m) and n.id in g.reach([m])]

            def pos_test(x) -> bool:
                return x.kind == "if" and isinstance(x.stmt, ast.If) and "is_defined" in ast.unparse(x.stmt.test) and not isinstance(x.stmt.test, ast.UnaryOp)

            for m in muts:
                ok, path = g.must_pass(m, n, pos_test)
                if not ok:
                    return False, f"{fn.qualname} returns True after '{ast.unparse(m.stmt)[:50]}' without testing that the axis became defined: with a neighbour that is defined through copied wires but holds no chops the call changes nothing and still reports progress", st
            continue
        return False, f"{fn.qualname}: return value '{ast.unparse(v)}' not recognised as progress indicator", st
    # accumulating flags: flag = callee() or flag
    for n in g.stmt_nodes():
        st = n.stmt
        if n.kind == "stmt" and isinstance(st, ast.Assign) and isinstance(st.targets[0], ast.Name) and st.targets[0].id in flag_vars:
            v = st.value
            if isinstance(v, ast.Constant):
                continue
            calls = [c for c in ast.walk(v) if isinstance(c, ast.Call)]
            for cs in rc.callsites_in(n):
                for callee in cs.callees:
                    if callee.name in ("copy_grading",):
                        ok, why, node = _returns_truthy_only_when_defined(repo, callee, seen)
                        if not ok:
                            return False, why, node
            if not calls:
                return False, f"{fn.qualname}: flag assignment '{ast.unparse(st)}' not recognised", st
    return True, "", None


def progress_flag(repo: Repo) -> RuleRun:
    r = RuleRun(PROP, "C02.PROGRESS-FLAG", floor=3, what="termination argument of the fix-point loop in BlockList.propagate_gradings")
    fn = repo.func("lists.block_list.BlockList.propagate_gradings")
    loops = [n for n in walk_shallow(fn.node) if isinstance(n, ast.While)]
    if not loops:
        fors = [n for n in fn.node.body if isinstance(n, ast.For) and isinstance(n.iter, ast.Call) and attr_chain(n.iter.func) == "range"]
        r.require(bool(fors), "propagate_gradings: neither a while fix-point loop nor a bounded for loop found")
        r.ok(fn, "bounded for-loop over a finite range (termination is structural; completeness is decided by C02.FIXPOINT-SCHEDULES)", key="loop")
        r.floor = 1
        return r
    r.require(len(loops) == 1, "propagate_gradings: exactly one while loop expected")
    loop = loops[0]
    # worklist = the name tested in the loop condition
    wl = [n.id for n in ast.walk(loop.test) if isinstance(n, ast.Name) and n.id not in ("len",)]
    r.require(len(wl) == 1, f"loop condition '{ast.unparse(loop.test)}' not recognised as a worklist test")
    worklist = wl[0]
    # flag reset at the top, 'if not flag: break' at the bottom
    body_stmts = [st for st in loop.body if not isinstance(st, ast.Pass) and not (isinstance(st, ast.Expr) and isinstance(st.value, ast.Constant))]
    first = body_stmts[0] if body_stmts else None
    r.require(isinstance(first, ast.Assign) and isinstance(first.targets[0], ast.Name) and isinstance(first.value, ast.Constant) and first.value.value is False, "progress flag is not reset to False at the top of each round")
    flag = first.targets[0].id
    brk = [n for n in loop.body if isinstance(n, ast.If) and ast.unparse(n.test) == f"not {flag}" and any(isinstance(b, ast.Break) for b in n.body)]
    r.check(len(brk) == 1 and body_stmts[-1] is brk[0], fn, "'if not flag: break' ends each round", f"the round does not end with 'if not {flag}: break': a round without progress is repeated for ever", loop, key="no-progress-break")
    # every truthy assignment of the flag
    for n in ast.walk(loop):
        if isinstance(n, ast.Assign) and isinstance(n.targets[0], ast.Name) and n.targets[0].id == flag and n is not first:
            v = n.value
            if isinstance(v, ast.Constant) and v.value is True:
                sibs = getattr(parent(n), "body", [])
                if n not in sibs:
                    sibs = getattr(parent(n), "orelse", [])
                shrinks = any(isinstance(s, ast.Expr) and isinstance(s.value, ast.Call) and isinstance(s.value.func, ast.Attribute) and s.value.func.attr in ("remove", "discard", "pop") and attr_chain(s.value.func.value) == worklist for s in sibs)
                r.check(shrinks, fn, f"'{flag} = True' together with a shrinking worklist", f"'{flag} = True' is set without removing anything from {worklist}: progress is claimed but the measure does not decrease", n, key="flag=True")
            else:
                # a call result must be accumulated into the flag, never overwrite it: a later block
                # without progress would otherwise erase the progress of an earlier one in the same round
                accumulates = (isinstance(v, ast.BoolOp) and isinstance(v.op, ast.Or) and any(isinstance(x, ast.Name) and x.id == flag for x in v.values)) or (
                    isinstance(parent(n), ast.If)
                )
                r.check(
                    accumulates,
                    fn,
                    f"'{ast.unparse(n)}' accumulates progress",
                    f"'{ast.unparse(n)}' overwrites the progress flag with the result for the current block: progress made by a block visited earlier in the same "
                    "round is forgotten, the loop gives up although another round would succeed - the outcome depends on the insertion order",
                    n,
                    key="flag-accumulates",
                )
                env = Reach(repo, fn)
                g = CFG(fn.node)
                callee_ok = True
                why = ""
                node = None
                found = False
                for cnode in g.nodes_of(n):
                    for cs in env.callsites_in(cnode):
                        for callee in cs.callees:
                            if getattr(cs.node, "_property_read", False):
                                continue
                            found = True
                            ok, w, nd = _returns_truthy_only_when_defined(repo, callee, set())
                            if not ok:
                                callee_ok, why, node = False, w, nd
                r.require(found, f"flag assignment '{ast.unparse(n)}' calls nothing that could be resolved")
                if callee_ok:
                    r.ok(fn, f"'{ast.unparse(n)}': callees report progress only when the axis became defined", key="flag=call")
                else:
                    # report at the callee that breaks the argument
                    callee_fn = None
                    for f_ in repo.all_functions():
                        if node is not None and any(x is node for x in ast.walk(f_.node)):
                            callee_fn = f_
                    r.bad(callee_fn or fn, f"termination argument of BlockList.propagate_gradings broken: {why}", node, key="progress-claim")
    return r


progress_flag.rule_id = "C02.PROGRESS-FLAG"


# --------------------------------------------------------------------------------------------
# --------------------------------------------------------------------------------------------
def fixpoint_schedules(repo: Repo) -> RuleRun:
    """Abstract run of BlockList.propagate_gradings (with the real Block/Axis methods below it) over every insertion
    order of a small chain of blocks. Only the wire managers are abstracted: a manager is 'defined' once it was
    graded while holding chops. Nothing of the library is executed; the repository's ASTs are interpreted."""
    import itertools

    from ..peval import NO_MATCH, Evaluator, NotEvaluable, Obj, Raised

    r = RuleRun(PROP, "C02.FIXPOINT-SCHEDULES", floor=60, what="propagate_gradings on a 4-block chain, all 24 insertion orders x chop placements: every well-posed family is completed, an ill-posed one raises UndefinedGradingsError, within a step budget")
    fn = repo.func("lists.block_list.BlockList.propagate_gradings")
    block_cls, axis_cls, bl_cls = repo.cls("items.block.Block"), repo.cls("items.wires.axis.Axis"), repo.cls("lists.block_list.BlockList")
    n = 4
    chop_mgr, prop_mgr = repo.cls("items.wires.manager.WireChopManager"), repo.cls("items.wires.manager.WirePropagateManager")

    def hook(ev, call: ast.Call, name):
        f = call.func
        if isinstance(f, ast.Attribute) and f.attr in ("is_aligned",):
            return True
        if isinstance(f, ast.Attribute) and f.attr == "copy_preserving":
            return ev.eval(f.value)
        if isinstance(f, ast.Attribute) and f.attr in ("grade", "add_chop"):
            recv = ev.eval(f.value)
            if isinstance(recv, Obj) and recv.has("chops") and recv.has("graded"):
                if f.attr == "add_chop":
                    recv.get("chops").append(ev.eval(call.args[0]))
                else:
                    recv.set("is_defined", len(recv.get("chops")) > 0)
                    recv.set("graded", recv.get("graded") + 1)
                return None
        return NO_MATCH

    def build(order, chopped, links, turned=()):
        """order: insertion order of chain positions; chopped[a] = set of positions holding a user chop on axis a;
        links = set of (p, p+1) pairs that are connected"""
        axes_by_pos = {}
        blocks = []
        for p in order:
            axes = []
            for a in range(3):
                # grade / add_chop of the managers are abstracted (hook); what a manager REPORTS (count) is the repository's code
                has = p in chopped[a]
                mgr = Obj(f"mgr_p{p}a{a}", cls=chop_mgr if has else prop_mgr)
                mgr.set("chops", [Obj(f"chop_p{p}a{a}")] if has else [])
                mgr.set("is_defined", has)
                mgr.set("graded", 0)
                mgr.set("grading", Obj("axis_grading", count=5 if has else 0, is_defined=has))
                mgr.set("wires", [Obj(f"wire_p{p}a{a}{w}", grading=Obj("wire_grading", count=5 if has else 0, is_defined=has)) for w in range(4)])
                ax = Obj(f"axis_p{p}a{a}", cls=axis_cls)
                ax.set("index", a)
                ax.set("wires", mgr)
                ax.set("neighbours", [])
                axes.append(ax)
            axes_by_pos[p] = axes
            blk = Obj(f"block_p{p}", cls=block_cls)
            blk.set("axes", axes)
            blocks.append(blk)
        for p, q in links:
            for a in range(3):
                # a block whose local axes are turned (position in `turned`): its axis 1 runs along the row's direction 2 and vice versa
                ap = {1: 2, 2: 1}.get(a, a) if p in turned else a
                aq = {1: 2, 2: 1}.get(a, a) if q in turned else a
                axes_by_pos[p][ap].get("neighbours").append(axes_by_pos[q][aq])
                axes_by_pos[q][aq].get("neighbours").append(axes_by_pos[p][ap])
        bl = Obj("block_list", cls=bl_cls)
        bl.set("blocks", blocks)
        return bl, axes_by_pos

    def run(label, order, chopped, links, well_posed: bool, turned=()):
        bl, axes_by_pos = build(order, chopped, links, turned)
        ev = Evaluator(repo=repo, module=fn.module, call_hook=hook, max_steps=60000)
        got = None
        try:
            ev.call_funcinfo(fn, [bl])
        except Raised as err:
            got = err.exc_name
        except NotEvaluable as err:
            if "budget" in str(err):
                got = "<no termination within the step budget>"
            else:
                raise AnalysisError(f"propagate_gradings not evaluable on the schedule model: {err}") from err
        key = f"schedule:{label}"
        if well_posed:
            undefined = [f"position {p} axis {a}" for p, axes in sorted(axes_by_pos.items()) for a, ax in enumerate(axes) if not ax.get("wires").get("is_defined")]
            ok = got is None and not undefined
            r.check(
                ok,
                fn,
                f"{label}: completed",
                f"propagate_gradings, {label}: " + (f"ends with {got} although every family has a chopped member" if got else f"returns normally but leaves {undefined[:3]} undefined") + " - the outcome depends on the insertion order",
                fn.node,
                key=key,
            )
        else:
            ok = got is not None and got.endswith("UndefinedGradingsError")
            r.check(ok, fn, f"{label}: refused with UndefinedGradingsError", f"propagate_gradings, {label}: {'returns normally' if got is None else 'ends with ' + got} although a family has no chopped member (a partial dictionary would be written)", fn.node, key=key)

    chain = {(p, p + 1) for p in range(n - 1)}
    everything = lambda pos: [{pos}, {pos}, {pos}]  # noqa: E731
    for order in itertools.permutations(range(n)):
        for pos in (0, 1, 3):
            run(f"order {order}, all chops on position {pos}", order, everything(pos), chain, True)
    for order in [(0, 1, 2, 3), (3, 2, 1, 0), (0, 2, 1, 3), (1, 3, 0, 2), (2, 0, 3, 1)]:
        run(f"order {order}, axis chops on positions 0/3/1", order, [{0}, {3}, {1}], chain, True)
        run(f"order {order}, axis chops on positions 3/3/0 and 0/1/2", order, [{3, 0}, {3, 1}, {0, 2}], chain, True)
        run(f"order {order}, axis 1 never chopped", order, [{0}, set(), {2}], chain, False)
        run(f"order {order}, positions 2-3 detached and unchopped", order, everything(0), {(0, 1), (2, 3)}, False)
        run(f"order {order}, position 3 isolated (touches nothing) and unchopped", order, everything(0), {(0, 1), (1, 2)}, False)
        run(f"order {order}, position 3 isolated but fully chopped", order, [{0, 3}, {0, 3}, {0, 3}], {(0, 1), (1, 2)}, True)
    for order in [(0,), (0, 1)]:
        bl1 = [set(), set(), set()]
        n_save = n
        run(f"{len(order)} block(s) without any chop", order, bl1, set(), False)
        run(f"{len(order)} isolated block(s), one axis left unchopped", order, [set(order), set(order), set()], set(), False)
    # two families entering from opposite ends through a block whose local axes are turned by 90 degrees: the row direction '1' is
    # chopped only at position 0, direction '2' only at position 3; block 1 has its local axes 1 and 2 exchanged. (chopped[] is
    # given in LOCAL axes of each position, so the turned block holds no chop and the end blocks hold theirs on axis 1 resp. 2.)
    for order in itertools.permutations(range(n)):
        run(f"order {order}, crossing families through a turned block", order, [{0}, {0}, {3}], chain, True, turned=(1,))
    return r


fixpoint_schedules.rule_id = "C02.FIXPOINT-SCHEDULES"


def undefined_raises(repo: Repo) -> RuleRun:
    r = RuleRun(PROP, "C02.UNDEFINED-RAISES", floor=2, what="normal exit of propagate_gradings only with an empty worklist; otherwise UndefinedGradingsError")
    fn = repo.func("lists.block_list.BlockList.propagate_gradings")
    g = CFG(fn.node)
    raises = [n for n in g.stmt_nodes() if isinstance(n.stmt, ast.Raise) and n.stmt.exc is not None and "UndefinedGradingsError" in ast.unparse(n.stmt.exc)]
    r.require(len(raises) >= 1, "propagate_gradings does not raise UndefinedGradingsError any more")
    guards = [n for n in g.stmt_nodes() if n.kind == "if" and isinstance(n.stmt, ast.If) and any(x is n.stmt or any(y is rz.stmt for y in ast.walk(n.stmt)) for rz in raises for x in [n.stmt]) and isinstance(n.stmt.test, ast.Compare)]
    guards = [n for n in guards if any(any(y is rz.stmt for y in ast.walk(n.stmt)) for rz in raises)]
    r.require(len(guards) >= 1, "guard 'if len(worklist) > 0: ... raise' not recognised")
    guard = guards[-1]
    # the guard is true exactly for a non-empty worklist: evaluated on an empty and a non-empty set
    from ..peval import Evaluator as _Ev, NotEvaluable as _NE

    names = sorted({x.id for x in ast.walk(guard.stmt.test) if isinstance(x, ast.Name) and x.id != "len"})
    wl_ok = False
    if len(names) == 1:
        try:
            wl_ok = (not _Ev(env={names[0]: set()}).truth(_Ev(env={names[0]: set()}).eval(guard.stmt.test), guard.stmt.test)) and bool(_Ev(env={names[0]: {3}}).truth(_Ev(env={names[0]: {3}}).eval(guard.stmt.test), guard.stmt.test))
        except _NE:
            wl_ok = False
    r.check(wl_ok, fn, f"guard '{ast.unparse(guard.stmt.test)}'", f"the guard before the raise is '{ast.unparse(guard.stmt.test)}', not a non-empty-worklist test", guard.stmt, key="guard")
    holds, path = g.must_pass(g.entry, g.exit_return, lambda n: n.id == guard.id)
    r.check(holds, fn, "every normal exit passes the guard", f"propagate_gradings can return without testing the worklist: {fmt_path(path)}", fn.node, key="exit-guarded")
    # from the true branch every path raises
    body_first = [n for n in g.stmt_nodes() if n.stmt is guard.stmt.body[0]]
    leak = False
    if body_first:
        leak = g.exit_return.id in g.reach([body_first[0]]) or body_first[0].id == g.exit_return.id
    r.check(not leak, fn, "non-empty worklist always raises", "with a non-empty worklist propagate_gradings can still return normally (a partial dictionary would be written)", guard.stmt, key="raise-branch")
    return r


undefined_raises.rule_id = "C02.UNDEFINED-RAISES"


def det_sources(repo: Repo) -> RuleRun:
    return c06.identity_labels(repo, PROP, "C02.DET-SOURCES")


det_sources.rule_id = "C02.DET-SOURCES"


def neighbour_symmetry(repo: Repo) -> RuleRun:
    res = c01.neighbour_symmetry(repo)
    res.prop, res.rule = PROP, "C02.NEIGHBOUR-SYMMETRY"
    for f in res.findings:
        f.property, f.rule = PROP, "C02.NEIGHBOUR-SYMMETRY"
    return res


neighbour_symmetry.rule_id = "C02.NEIGHBOUR-SYMMETRY"

def grade_before_write(repo: Repo) -> RuleRun:
    """'never writes a partial dictionary': grading (which raises for undefined families) precedes every
    open-for-write - the same rule as C01.GRADE-BEFORE-WRITE."""
    res = c01.grade_before_write(repo)
    res.prop, res.rule = PROP, "C02.GRADE-BEFORE-WRITE"
    for f in res.findings:
        f.property, f.rule = PROP, "C02.GRADE-BEFORE-WRITE"
    return res


grade_before_write.rule_id = "C02.GRADE-BEFORE-WRITE"

def copy_carries_count(repo: Repo) -> RuleRun:
    """'the same counts whatever the corner numbering of the neighbour': the aligned / anti-aligned copy of chops and
    wire gradings (the rule of C04.ALIGNMENT-BRANCH) - an anti-aligned copy that loses the resolved count makes the outcome
    depend on the numbering."""
    from ..report import rebrand
    from . import c04

    return rebrand(c04.alignment_branch(repo), PROP, "C02.COPY-CARRIES-COUNT")


copy_carries_count.rule_id = "C02.COPY-CARRIES-COUNT"


def no_spurious_conflict(repo: Repo) -> RuleRun:
    """'every well-posed family is written': the consistency check (the rule of C01.CONSISTENCY-REACH) refuses exactly the
    models with different total counts - an anti-aligned multigraded neighbour with the same total is accepted."""
    from ..report import rebrand

    return rebrand(c01.consistency_reach(repo), PROP, "C02.CONSISTENCY-EXACT")


no_spurious_conflict.rule_id = "C02.CONSISTENCY-EXACT"

def axis_length(repo: Repo) -> RuleRun:
    """'the same counts whatever the corner numbering': the length a chopped axis resolves its count with is the mean of its four
    wires, not the wire that touches corner 0. Same rule as C04.AXIS-LENGTH."""
    from ..report import rebrand
    from . import c04

    return rebrand(c04.axis_length(repo), PROP, "C02.AXIS-LENGTH")


axis_length.rule_id = "C02.AXIS-LENGTH"

def grade_idempotent(repo: Repo) -> RuleRun:
    """Grading the same mesh again gives the same counts for the chopped block and its propagated neighbours. Same rule as C01.GRADE-IDEMPOTENT."""
    from ..report import rebrand
    from . import c01

    return rebrand(c01.grade_idempotent(repo), PROP, "C02.GRADE-IDEMPOTENT")


grade_idempotent.rule_id = "C02.GRADE-IDEMPOTENT"

def coincidence_symmetry(repo: Repo) -> RuleRun:
    """'every family of block edges that must share a count (... joined transitively through shared edges)': which wires are the same edge - the same two vertex OBJECTS in either order, all four wires of an axis looked at; the duplicated vertices of a merged interface keep the two sides in separate families. Same rule as C01.COINCIDENCE-SYMMETRY."""
    from ..report import rebrand
    from . import c01

    return rebrand(c01.coincidence_symmetry(repo), PROP, "C02.COINCIDENCE-SYMMETRY")


coincidence_symmetry.rule_id = "C02.COINCIDENCE-SYMMETRY"


def clear_complete(repo: Repo) -> RuleRun:
    """'If some family has no chop, writing fails with an undefined-grading error' - on every write of the same mesh: clear() / backport() keep the set of deleted operations, so a family that lost its chopped block does not get it back on re-assembly. Same rule as C12.CLEAR-COMPLETE."""
    from ..report import rebrand
    from . import c12

    return rebrand(c12.clear_complete(repo), PROP, "C02.CLEAR-COMPLETE")


clear_complete.rule_id = "C02.CLEAR-COMPLETE"


def collapsed_edge(repo: Repo, prop: str = PROP, rule: str = "C02.COLLAPSED-EDGE") -> RuleRun:
    """'... writing terminates and gives every block direction of that family the count derived from that chop': a block may have
    collapsed edges (a wedge standing on its axis, a prism) - Edge.is_valid expects them. Such an edge has length 0, and the grading
    relations refuse a length of 0: wherever the library special-cases it, grading an axis that has a collapsed wire must not end
    in that refusal. Abstract run of grade() of both wire-manager classes (with the real Wire.add_chop / Grading.add_chop below
    them; Chop.calculate modelled as refusing a non-positive length) on four wires of which one has length 0."""
    from ..peval import NO_MATCH, Evaluator, NotEvaluable, Obj, Raised, Sym

    r = RuleRun(prop, rule, floor=2, what="grading an axis one of whose four wires is collapsed (length 0) does not run into the relations' refusal of a zero length; the collapsed wire gets the family's count")
    base = repo.cls("items.wires.manager.WireManagerBase")
    wire_cls, grading_cls = repo.cls("items.wires.wire.Wire"), repo.cls("grading.grading.Grading")
    for cls in sorted((c for c in repo.subclasses(base) if c is not base and "grade" in c.methods), key=lambda c: c.qualname):
        fn = cls.methods["grade"]
        lengths = [1.0, 0.0, 1.0, 0.0] if False else [1.0, 1.0, 0.0, 1.0]
        wires = []
        for i, ln in enumerate(lengths):
            w = Obj(f"w{i}", cls=wire_cls)
            w.set("edge", Obj(f"e{i}", length=ln, kind="line"))
            w.set("vertices", [Sym(f"va{i}"), Sym(f"va{i}" if ln == 0 else f"vb{i}")])
            w.set("corners", [0, 1])
            w.set("axis", 0)
            w.set("coincidents", set())
            g = Obj(f"g{i}", cls=grading_cls)
            g.set("length", ln)
            g.set("specification", [])
            w.set("grading", g)
            wires.append(w)
        chop = Obj("chop", count=5, length_ratio=1.0)
        mgr = Obj("mgr", cls=cls)
        mgr.set("wires", wires)
        mgr.set("chops", [chop])
        ag = Obj("axis-grading", cls=grading_cls)
        ag.set("length", 0.75)
        ag.set("specification", [])
        mgr.set("grading", ag)

        def hook(ev, call: ast.Call, name):
            f_ = call.func
            if isinstance(f_, ast.Attribute) and f_.attr == "calculate":
                ln = ev.eval(call.args[0])
                if isinstance(ln, (int, float)) and ln <= 0:
                    raise Raised("ValueError")  # relations._validate_length: 'Length must be positive'
                return (5, Sym("expansion"))
            if isinstance(f_, ast.Attribute) and f_.attr == "copy_preserving":
                return chop
            if name == "sum":
                return 3.0
            return NO_MATCH

        ev = Evaluator(repo=repo, module=fn.module, call_hook=hook, max_steps=200000)
        ev.float_arith = True
        try:
            ev.call_funcinfo(fn, [mgr])
            got = None
        except Raised as err:
            got = err.exc_name
        except NotEvaluable as err:
            raise AnalysisError(f"{cls.name}.grade not evaluable on the collapsed-wire model: {err}") from err
        spec = wires[2].get("grading").get("specification") if isinstance(wires[2].get("grading"), Obj) else None
        ok = got is None and isinstance(spec, list) and len(spec) == 1 and spec[0][1] == 5
        r.check(
            ok,
            fn,
            f"{cls.name}: axis with a collapsed wire is graded, the wire gets count 5",
            f"{cls.name}.grade on an axis whose third wire is collapsed (length 0): "
            + (f"raises {got} - the relations refuse a zero length" if got else f"the collapsed wire ends with the specification {spec}")
            + "; a block with a collapsed edge (a Wedge whose face touches the axis, a prism Loft) cannot be written although every family has a chop: 'ValueError: Length must be positive, got 0.0'",
            fn.node,
            key=f"collapsed:{cls.name}",
        )
    return r


collapsed_edge.rule_id = "C02.COLLAPSED-EDGE"


def defined_means_all(repo: Repo) -> RuleRun:
    """'... gives every block direction of that family the count derived from that chop': a direction counts as defined - and is
    then copied from and no longer copied to - only when ALL four of its wires carry a grading, collapsed ones included (they
    supply the direction's count when they come first). Abstract run of WireManagerBase.is_defined on four wires with one
    undefined wire in every position, valid or collapsed."""
    from ..peval import Evaluator, NotEvaluable, Obj, Raised

    r = RuleRun(PROP, "C02.DEFINED-MEANS-ALL", floor=6, what="a wire manager is defined iff all four wires are graded - whichever wire is missing, collapsed or not")
    base = repo.cls("items.wires.manager.WireManagerBase")
    fn = repo.find_method(base, "is_defined")
    r.require(fn is not None, "WireManagerBase.is_defined vanished")
    cls = repo.cls("items.wires.manager.WirePropagateManager")
    cases = [("all four graded", [True] * 4, [True] * 4, True), ("none graded", [False] * 4, [True] * 4, False)]
    for k in range(4):
        cases.append((f"wire {k} ungraded", [i != k for i in range(4)], [True] * 4, False))
        cases.append((f"wire {k} ungraded and collapsed", [i != k for i in range(4)], [i != k for i in range(4)], False))
    for label, graded, valid, want in cases:
        wires = [Obj(f"w{i}", grading=Obj(f"g{i}", is_defined=g), is_valid=v) for i, (g, v) in enumerate(zip(graded, valid))]
        mgr = Obj("mgr", cls=cls)
        mgr.set("wires", wires)
        mgr.set("chops", [])
        try:
            got = Evaluator(repo=repo, module=fn.module).call_funcinfo(fn, [mgr])
        except (Raised, NotEvaluable) as err:
            raise AnalysisError(f"WireManagerBase.is_defined not evaluable: {err}") from err
        r.check(got is want, fn, f"{label}: is_defined = {got}", f"WireManagerBase.is_defined with {label} gives {got!r}; expected {want}: a direction that still has an ungraded wire passes for defined, nothing is copied to it any more, and the count written for the block is read from that wire (0) - a well-posed model ends in an error, depending on the insertion order", fn.node, key=f"defined:{label}")
    return r


defined_means_all.rule_id = "C02.DEFINED-MEANS-ALL"


def shared_curve(repo: Repo) -> RuleRun:
    """'... regardless of the order blocks were added, how each block's corners are numbered': a count derived from a size is derived from the length of the CURVE on a shared edge in every block that shares it. Same rule as C07.SHARED-CURVE."""
    from ..report import rebrand
    from . import c07

    return rebrand(c07.shared_curve(repo), PROP, "C02.SHARED-CURVE")


shared_curve.rule_id = "C02.SHARED-CURVE"



def grade_replay(repo: Repo) -> RuleRun:
    """'... the outcome does not depend on ... how often the mesh is graded': a second grading pass starts where the first one started - every block is reset before the FIRST block is graded. Same rule as C12.GRADE-REPLAY."""
    from ..report import rebrand
    from . import c12

    return rebrand(c12.grade_replay(repo), PROP, "C02.GRADE-REPLAY")


grade_replay.rule_id = "C02.GRADE-REPLAY"


def no_memo(repo: Repo) -> RuleRun:
    """'every block ends up with a count in every direction' - the count of a size-based chop is derived from the CURRENT mean length of the direction: nothing in the wire managers / gradings memoises a view of state that moving a vertex changes. Same rule body as C03.NO-MEMO."""
    from ..memo import memo_rule

    return memo_rule(repo, PROP, "C02.NO-MEMO", ("grading.", "items.wires.", "items.block"), floor=0)


no_memo.rule_id = "C02.NO-MEMO"


RULES = [set_order, progress_flag, fixpoint_schedules, copy_carries_count, no_spurious_conflict, undefined_raises, grade_before_write, det_sources, neighbour_symmetry, axis_length, grade_idempotent, coincidence_symmetry, clear_complete, collapsed_edge, defined_means_all, shared_curve, grade_replay, no_memo]

"""C19 - grid, slice and core/shell addressing of shapes and stacks is geometric."""

from __future__ import annotations

import ast
from typing import Any, Dict, List

from .. import sketches
from ..model import AnalysisError, Repo, attr_chain, walk_shallow
from ..peval import NO_MATCH, Evaluator, NotEvaluable, Obj, Raised, Sym
from ..report import RuleRun
from .c10 import _run

PROP = "C19"
TITLE = "Grid, slice and core/shell addressing of shapes and stacks is geometric"
DECIDES = (
    "abstract run of Grid.__init__ (2x3, counts differ in each direction): grid[j][i] is built from x-interval i and y-interval j "
    "with corners (i,j),(i+1,j),(i+1,j+1),(i,j+1); LoftedShape.lofts[i][j] is lofted from sketch_1.grid[i][j], the mid sketches in "
    "order and sketch_2.grid[i][j], and operations = flattened grid; Stack.grid lists the shapes in tier order (C19.GRID-ROLES); "
    "Stack.get_slice on a 2x3x2 symbolic stack returns exactly the operations with that index along the axis, each once "
    "(C19.SLICE-ROLES); core/shell of round shapes, spheres and disk sketches are complementary slices that partition the "
    "operations/faces (C19.PARTITION); for sketches assembled by merge the core tier holds only faces that are core faces of their "
    "source quarter and the shell tier only shell faces (C19.MERGED-ROLES)."
    " hollow shapes (one tier, sketch without core) have an empty core and all operations in shell (part of C19.PARTITION); get_slice is a pure query - the stack's grids are unchanged and a second call returns the same (part of C19.SLICE-ROLES); a deleted operation stays deleted across clear()/backport() (C19.DELETE-SURVIVES = C12.CLEAR-COMPLETE)."
    ' Within each grid tier of a literal quad map consecutive faces share an edge - the tier is listed in angular order (C19.TIER-ORDER).'
    ' Mesh.delete records the operation also when its entity is added later (part of C19.DELETE-LOCAL).'
    " grid / core / shell / operations of every shape class read only attributes that the constructors really run for that class create (C19.ADDRESSABLE); assemble() leaves the entities' own operation lists as they are, delete() twice is still deleted (parts of C19.DELETE-LOCAL)."
)
NOT_DECIDED = "that index i/j/k is still the geometric column/row/tier after arbitrary user transforms of the entities."
ASSUMPTIONS = ["np.linspace(a, b, num=n) is modelled as n ordered symbolic coordinates"]


def grid_roles(repo: Repo) -> RuleRun:
    r = RuleRun(PROP, "C19.GRID-ROLES", floor=8, what="Grid / LoftedShape / Stack nested lists are indexed [tier][row j][column i]")
    init = repo.func("construct.flat.sketches.grid.Grid.__init__")

    def hook(ev: Evaluator, call: ast.Call, name):
        if name in ("np.asarray", "np.array") and call.args:
            return ev.eval(call.args[0])
        if name in ("np.linspace", "numpy.linspace"):
            a, b = ev.eval(call.args[0]), ev.eval(call.args[1])
            num = None
            for kw in call.keywords:
                if kw.arg == "num":
                    num = ev.eval(kw.value)
            if num is None and len(call.args) > 2:
                num = ev.eval(call.args[2])
            return [("coord", repr(a), repr(b), i) for i in range(num)]
        if name == "Face":
            return Obj("face", points=ev.eval(call.args[0]))
        return NO_MATCH

    nx, ny = 2, 3
    this = Obj("grid", cls=repo.cls("construct.flat.sketches.grid.Grid"))
    p1 = [Sym("p1x"), Sym("p1y"), Sym("p1z")]
    p2 = [Sym("p2x"), Sym("p2y"), Sym("p2z")]
    _run(Evaluator(repo=repo, module=init.module, call_hook=hook), init, [this, p1, p2, nx, ny])
    grid = this.get("_grid")
    shape_ok = isinstance(grid, list) and len(grid) == ny and all(len(row) == nx for row in grid)
    r.check(shape_ok, init, f"grid has {ny} rows of {nx} faces", f"Grid(count_1={nx}, count_2={ny}) builds a grid of shape {[len(row) for row in grid] if isinstance(grid, list) else grid}; expected {ny} rows (second count) of {nx} faces", init.node, key="shape")
    if shape_ok:
        bad = None
        for j in range(ny):
            for i in range(nx):
                pts = grid[j][i].get("points")

                def c(k, axis):
                    return ("coord", f"p1{axis}", f"p2{axis}", k)

                want = [[c(i, "x"), c(j, "y"), 0], [c(i + 1, "x"), c(j, "y"), 0], [c(i + 1, "x"), c(j + 1, "y"), 0], [c(i, "x"), c(j + 1, "y"), 0]]
                if pts != want and bad is None:
                    bad = (j, i, pts)
        r.check(bad is None, init, "grid[j][i] spans x-interval i, y-interval j, counter-clockwise from the lower-left corner", f"Grid: face grid[{bad[0]}][{bad[1]}] has points {bad[2]}" if bad else "", init.node, key="cells")
    faces_p = repo.func("construct.flat.sketches.grid.Grid.faces")
    flat = _run(Evaluator(repo=repo, module=init.module, call_hook=hook), faces_p, [this])
    r.check(isinstance(flat, list) and shape_ok and flat == [f for row in grid for f in row], faces_p, "faces = row-major flattening of grid", "Grid.faces is not the row-major flattening of grid", faces_p.node, key="faces")

    # LoftedShape
    linit = repo.func("construct.shape.LoftedShape.__init__")

    def sk(name, shape):
        s = Obj(name)
        g = [[Sym(f"{name}[{i}][{j}]") for j in range(n)] for i, n in enumerate(shape)]
        s.set("grid", g)
        # faces deliberately NOT in grid order (as for the merged spline sketches): addressing must go through grid
        flat = [f for row in g for f in row]
        s.set("faces", flat[1:] + flat[:1])
        return s

    for shape in ([2, 2, 2], [1, 3]):
        made = []

        def lhook(ev: Evaluator, call: ast.Call, name, made=made):
            if name == "Loft.from_series":
                faces = ev.eval(call.args[0])
                o = Obj("loft", faces=faces)
                made.append(o)
                return o
            return NO_MATCH

        s1, s2, sm1, sm2 = sk("s1", shape), sk("s2", shape), sk("m1", shape), sk("m2", shape)
        this = Obj("shape", cls=repo.cls("construct.shape.LoftedShape"))
        _run(Evaluator(repo=repo, module=linit.module, call_hook=lhook), linit, [this, s1, s2, [sm1, sm2]])
        lofts = this.get("lofts")
        ok = isinstance(lofts, list) and [len(x) for x in lofts] == shape
        if ok:
            for i, n in enumerate(shape):
                for j in range(n):
                    want = [f"{nm}[{i}][{j}]" for nm in ("s1", "m1", "m2", "s2")]
                    if [repr(f) for f in lofts[i][j].get("faces")] != want:
                        ok = False
        r.check(ok, linit, f"lofts[i][j] built from grid[i][j] of start, mid (in order) and end sketch (grid shape {shape})", f"LoftedShape with sketch grid shape {shape}: lofts = {[[l.get('faces') for l in row] for row in lofts] if isinstance(lofts, list) else lofts}", linit.node, key=f"lofts:{shape}")
        ops = repo.func("construct.shape.LoftedShape.operations")
        flat = _run(Evaluator(repo=repo, module=linit.module), ops, [this])
        r.check(isinstance(flat, list) and isinstance(lofts, list) and flat == [l for row in lofts for l in row], ops, "operations = flattened lofts (grid order)", "LoftedShape.operations is not the row-major flattening of lofts", ops.node, key=f"operations:{shape}")
    # mismatching face counts are rejected
    this = Obj("shape", cls=repo.cls("construct.shape.LoftedShape"))
    res = _run(Evaluator(repo=repo, module=linit.module), linit, [this, sk("s1", [2, 2]), sk("s2", [2, 1]), None])
    r.check(isinstance(res, tuple) and res[0] == "raised", linit, "different face counts rejected", "LoftedShape accepts start and end sketches with different numbers of faces", linit.node, key="face-count")
    res = _run(Evaluator(repo=repo, module=linit.module), linit, [Obj("shape", cls=repo.cls("construct.shape.LoftedShape")), sk("s1", [2, 2]), sk("s2", [2, 2]), sk("m", [3])])
    r.check(isinstance(res, tuple) and res[0] == "raised", linit, "mid sketch with different face count rejected", "LoftedShape accepts a mid sketch with a different number of faces", linit.node, key="face-count-mid")

    sg = repo.func("construct.stack.Stack.grid")
    st = Obj("stack", cls=repo.cls("construct.stack.Stack"))
    shapes = [Obj(f"shape{k}", grid=Sym(f"grid{k}")) for k in range(3)]
    st.set("shapes", shapes)
    res = _run(Evaluator(repo=repo, module=sg.module), sg, [st])
    r.check([repr(x) for x in res] == ["grid0", "grid1", "grid2"] if isinstance(res, list) else False, sg, "Stack.grid = shape grids in tier order", f"Stack.grid = {res}", sg.node, key="stack.grid")
    # TransformedStack appends tiers in construction order
    ts = repo.func("construct.stack.TransformedStack.__init__")
    appends = [n for n in ast.walk(ts.node) if isinstance(n, ast.Call) and attr_chain(n.func) == "self.shapes.append"]
    inserts = [n for n in ast.walk(ts.node) if isinstance(n, ast.Call) and attr_chain(n.func) in ("self.shapes.insert",)]
    r.check(len(appends) == 1 and not inserts, ts, "tiers appended in order", "TransformedStack does not append each new tier at the end of self.shapes", ts.node, key="tier-order")
    return r


grid_roles.rule_id = "C19.GRID-ROLES"


def slice_roles(repo: Repo) -> RuleRun:
    r = RuleRun(PROP, "C19.SLICE-ROLES", floor=7, what="Stack.get_slice(axis, index) on a 2 columns x 3 rows x 2 tiers symbolic stack")
    r.exhaustive = True
    fn = repo.func("construct.stack.Stack.get_slice")
    ni, nj, nk = 2, 3, 2
    st = Obj("stack", cls=repo.cls("construct.stack.Stack"))
    shapes = []
    for k in range(nk):
        g = [[Sym(f"op[{k}][{j}][{i}]") for i in range(ni)] for j in range(nj)]
        sh = Obj(f"shape{k}", grid=g)
        sh.set("operations", [o for row in g for o in row])
        shapes.append(sh)
    st.set("shapes", shapes)
    for axis, n in ((0, ni), (1, nj), (2, nk)):
        for idx in range(n):
            res = _run(Evaluator(repo=repo, module=fn.module), fn, [st, axis, idx])
            want = sorted(f"op[{k}][{j}][{i}]" for k in range(nk) for j in range(nj) for i in range(ni) if (i, j, k)[axis] == idx)
            got = sorted(repr(o) for o in res) if isinstance(res, list) else res
            r.check(got == want, fn, f"get_slice({axis},{idx}): {len(want)} operations", f"get_slice(axis={axis}, index={idx}) on a {ni}x{nj}x{nk} stack returns {got}; expected the operations with {'column' if axis == 0 else 'row' if axis == 1 else 'tier'} index {idx}, each once: {want}", fn.node, key=f"slice:{axis}:{idx}")
    # a query: asking for a slice leaves the stack's grids as they were, and asking again gives the same answer
    snapshot = [[list(row) for row in sh.get("grid")] for sh in shapes]
    for axis, n in ((0, ni), (1, nj), (2, nk)):
        first = _run(Evaluator(repo=repo, module=fn.module), fn, [st, axis, 0])
        second = _run(Evaluator(repo=repo, module=fn.module), fn, [st, axis, 0])
        now = [[list(row) for row in sh.get("grid")] for sh in shapes]
        same = now == snapshot and isinstance(first, list) and isinstance(second, list) and [repr(o) for o in first] == [repr(o) for o in second]
        r.check(
            same,
            fn,
            f"get_slice({axis}, 0) is a pure query",
            f"get_slice(axis={axis}, index=0) changes the stack it is asked about: grids before {snapshot} / after {now}; a second call returns {len(second) if isinstance(second, list) else second} "
            f"operations instead of {len(first) if isinstance(first, list) else first} (the returned list is one of the grid's own rows, extended in place?)",
            fn.node,
            key=f"slice-pure:{axis}",
        )
        for sh, snap in zip(shapes, snapshot):
            sh.set("grid", [list(row) for row in snap])
    return r


slice_roles.rule_id = "C19.SLICE-ROLES"


def partition(repo: Repo) -> RuleRun:
    r = RuleRun(PROP, "C19.PARTITION", floor=6, what="core/shell are complementary slices partitioning operations/faces")
    # RoundSolidShape
    for clsname, extra in (("construct.shapes.round.RoundSolidShape", None),):
        cls = repo.cls(clsname)
        core, shell = repo.func(f"{clsname}.core"), repo.func(f"{clsname}.shell")
        for ncore in (1, 2, 4):
            for mirrored in (False, True):
                # operations are objects whose end faces are the faces of the two sketches; a mirrored (inverted) shape has them swapped
                this = Obj("shape", cls=cls)
                n_ops = ncore + 5
                f1 = [Obj(f"start-face{i}") for i in range(n_ops)]
                f2 = [Obj(f"end-face{i}") for i in range(n_ops)]
                ops = [Obj(f"op{i}", bottom_face=(f2[i] if mirrored else f1[i]), top_face=(f1[i] if mirrored else f2[i])) for i in range(n_ops)]
                this.set("lofts", [ops[:ncore], ops[ncore:]])
                sk = Obj("sketch")
                sk.set("core", f1[:ncore])
                sk.set("shell", f1[ncore:])
                sk.set("faces", list(f1))
                this.set("sketch_1", sk)
                sk2 = Obj("sketch_2")
                sk2.set("core", f2[:ncore])
                sk2.set("shell", f2[ncore:])
                sk2.set("faces", list(f2))
                this.set("sketch_2", sk2)
                c = _run(Evaluator(repo=repo, module=core.module), core, [this])
                s = _run(Evaluator(repo=repo, module=shell.module), shell, [this])
                label = f"{ncore} core ops{', mirrored (end faces swapped)' if mirrored else ''}"
                r.check(
                    c == ops[:ncore] and s == ops[ncore:],
                    cls,
                    f"{label}: core/shell = first {ncore} operations / the rest",
                    f"RoundSolidShape with {label}: core={c}, shell={s}; expected the first {ncore} operations and the rest - for a mirrored shape the inner blocks are reported as shell (and a pipe wall "
                    "obtained by deleting the core keeps its core)",
                    core.node,
                    key=f"round:{ncore}{':mirrored' if mirrored else ''}",
                )
    hollow = repo.cls("construct.shapes.round.RoundHollowShape")
    sh = repo.func("construct.shapes.round.RoundHollowShape.shell")
    this = Obj("shape", cls=hollow)
    ops = [Sym(f"op{i}") for i in range(4)]
    this.set("lofts", [ops])
    res = _run(Evaluator(repo=repo, module=sh.module), sh, [this])
    r.check(res == ops, hollow, "hollow shape: shell = all operations", f"RoundHollowShape.shell = {res}", sh.node, key="hollow")
    # ... and its (inherited) core is empty: a ring has one tier only and a sketch without core faces, so nothing is 'inner'
    for hcls in [hollow, *repo.subclasses(hollow)]:
        corem = repo.find_method(hcls, "core")
        shellm = repo.find_method(hcls, "shell")
        if corem is None or shellm is None:
            continue
        this = Obj("ring", cls=hcls)
        ops = [Sym(f"op{i}") for i in range(8)]
        this.set("lofts", [ops])
        this.set("revolves", ops)  # RevolvedRing keeps its operations there
        sk = Obj("annulus")
        sk.set("core", [])
        this.set("sketch_1", sk)
        c = _run(Evaluator(repo=repo, module=corem.module), corem, [this])
        s_ = _run(Evaluator(repo=repo, module=shellm.module), shellm, [this])
        disjoint = isinstance(c, list) and isinstance(s_, list) and not (set(map(repr, c)) & set(map(repr, s_))) and sorted(map(repr, c + s_)) == sorted(map(repr, ops))
        r.check(
            disjoint and c == [],
            hcls,
            f"{hcls.name}: core = [] and shell = all {len(ops)} operations",
            f"{hcls.name} (one tier, sketch without core faces): core = {c}, shell = {s_}; core and shell must partition the operations - every operation of a ring touches the "
            "outer surface, none is 'core'",
            corem.node,
            key=f"hollow-core:{hcls.name}",
        )
    # spheres
    for clsname in ("construct.shapes.sphere.EighthSphere", "construct.shapes.sphere.Hemisphere"):
        cls = repo.cls(clsname)
        ncv = repo.class_var(cls, "n_cores")
        n_cores = ast.literal_eval(ncv[0])
        this = Obj("sphere", cls=cls)
        ops = [Sym(f"op{i}") for i in range(n_cores * 4)]
        this.set("lofts", ops)
        c = _run(Evaluator(repo=repo, module=cls.module), repo.find_method(cls, "core"), [this])
        s = _run(Evaluator(repo=repo, module=cls.module), repo.find_method(cls, "shell"), [this])
        g = _run(Evaluator(repo=repo, module=cls.module), repo.find_method(cls, "grid"), [this])
        r.check(c == ops[:n_cores] and s == ops[n_cores:] and g == [c, s], cls, f"{cls.name}: {n_cores} core + {len(ops) - n_cores} shell", f"{cls.name}: core={c}, shell={s}, grid={g}", key=cls.name)
    # one eighth = 1 core loft followed by 3 shell lofts (eighth_sphere_lofts), so n_cores counts eighths
    esl = repo.func("construct.shapes.sphere.eighth_sphere_lofts")
    rets = [n for n in walk_shallow(esl.node) if isinstance(n, ast.Return) and isinstance(n.value, ast.Name)]
    r.require(len(rets) == 1, "eighth_sphere_lofts: 'return <list>' not found")
    lname = rets[0].value.id
    appended = [n for n in walk_shallow(esl.node) if isinstance(n, ast.Expr) and isinstance(n.value, ast.Call) and attr_chain(n.value.func) == f"{lname}.append"]
    extended = [n for n in walk_shallow(esl.node) if isinstance(n, ast.AugAssign) and ast.unparse(n.target) == lname and isinstance(n.value, ast.List)]
    r.require(len(appended) == 1 and len(extended) == 1 and len(extended[0].value.elts) == 3 and appended[0].lineno < extended[0].lineno, "eighth_sphere_lofts: one core appended first, then three shell lofts - not found")
    e8 = repo.cls("construct.shapes.sphere.EighthSphere")
    hs = repo.cls("construct.shapes.sphere.Hemisphere")
    n8 = ast.literal_eval(repo.class_var(e8, "n_cores")[0])
    nh = ast.literal_eval(repo.class_var(hs, "n_cores")[0])
    r.check(n8 == 1, e8, "EighthSphere: 1 core loft", f"EighthSphere.n_cores = {n8}, but eighth_sphere_lofts returns exactly one core loft first: core/shell would not split the lofts into inner and outer blocks", key="EighthSphere.n_cores")
    loops = [n for n in walk_shallow(repo.func("construct.shapes.sphere.Hemisphere.__init__").node) if isinstance(n, ast.For)]
    lsrc = ast.unparse(loops[0]) if loops else ""
    ok_h = len(loops) == 1 and ast.unparse(loops[0].iter) == "range(1, self.n_cores + 1)" and ".append(" in lsrc and "[0])" in lsrc and "+=" in lsrc and "[1:]" in lsrc
    r.check(ok_h and nh == 4, hs, "Hemisphere: one core per eighth, 4 eighths", f"Hemisphere (n_cores = {nh}) does not collect element 0 of every eighth as core and the rest as shell", key="Hemisphere.n_cores")
    # Hemisphere builds lofts as cores first, then shells (3 per eighth)
    hinit = repo.func("construct.shapes.sphere.Hemisphere.__init__")
    final = [n for n in walk_shallow(hinit.node) if isinstance(n, ast.Assign) and attr_chain(n.targets[0]) == "self.lofts"]
    fv = final[-1].value if final else None
    r.check(isinstance(fv, ast.BinOp) and isinstance(fv.op, ast.Add) and "core" in ast.unparse(fv.left) and "shell" in ast.unparse(fv.right), hinit, "lofts = cores + shells", f"Hemisphere.lofts is assembled as {ast.unparse(final[-1].value) if final else '?'}", hinit.node, key="Hemisphere.lofts")
    # disk sketches
    disk = repo.cls("construct.flat.sketches.disk.DiskBase")
    for cls in sketches.sketch_classes_with_quad_map(repo):
        qm = sketches.literal_quad_map(repo, cls)
        faces = [Sym(f"f{i}") for i in range(len(qm))]
        grid = sketches.eval_grid(repo, cls, faces)
        if disk in repo.mro(cls) or repo.find_method(cls, "core") is not None:
            this = Obj("sketch", cls=cls)
            this.set("_faces", faces)
            corem = repo.find_method(cls, "core")
            shellm = repo.find_method(cls, "shell")
            c = _run(Evaluator(repo=repo, module=corem.module), corem, [this])
            s = _run(Evaluator(repo=repo, module=shellm.module), shellm, [this])
            if c is None:
                c = []
            ok = c == (grid[0] if len(grid) > 1 else []) and s == grid[-1] and not (set(map(repr, c)) & set(map(repr, s)))
            r.check(ok, cls, f"{cls.name}: core {len(c)} / shell {len(s)} faces, disjoint", f"{cls.name}: core={c}, shell={s}, grid={grid}", key=f"sketch:{cls.name}")
    return r


partition.rule_id = "C19.PARTITION"


def merged_roles(repo: Repo) -> RuleRun:
    r = RuleRun(PROP, "C19.MERGED-ROLES", floor=1, what="merged sketches: core tier = core faces of the source quarters, shell tier = their shell faces")
    merge = repo.func("construct.flat.sketches.mapped.MappedSketch.merge")
    if not r.check(sketches.merge_appends_in_order(repo), merge, "merge keeps its own faces first and appends the other sketch's in order", "MappedSketch.merge no longer keeps the sketch's own faces first and appends the other sketch's faces in order: grid tiers and chop indexes of every merged sketch address other faces", merge.node, key="merge-order"):
        return r
    for cls in sketches.merged_sketch_classes(repo):
        roles = sketches.face_roles(repo, cls)
        faces = [Sym(f"f{i}") for i in range(len(roles))]
        grid = sketches.eval_grid(repo, cls, faces)
        flat = [repr(f) for tier in grid for f in tier]
        problems = []
        if sorted(flat) != sorted(map(repr, faces)):
            problems.append(f"grid does not contain every face exactly once: {flat}")
        for t, tier in enumerate(grid):
            want = "shell" if t == len(grid) - 1 else ("core" if t == 0 else "mid")
            for f in tier:
                i = int(repr(f)[1:])
                if roles[i][2] != want:
                    problems.append(f"tier {t} ({want}) contains face {i}, which is face {roles[i][1]} of its {roles[i][0]} - a {roles[i][2]} face there")
        r.check(not problems, cls, f"tiers {[len(t) for t in grid]} hold faces of matching role", f"{cls.name}.grid: " + "; ".join(problems) + " (core/shell of a shape lofted from this sketch address the wrong blocks)", key="grid")
    return r


merged_roles.rule_id = "C19.MERGED-ROLES"

def assemble_walk(repo: Repo) -> RuleRun:
    """Deleting an operation removes its block and nothing else (abstract run of Mesh.assemble)."""
    from . import c06

    return c06.assemble_walk(repo, PROP, "C19.DELETE-LOCAL")


assemble_walk.rule_id = "C19.DELETE-LOCAL"

def backport_local(repo: Repo) -> RuleRun:
    """After a deletion, back-porting still addresses every remaining operation by its own block
    (abstract run of Mesh.backport, same rule as C12.BACKPORT-MAP)."""
    from . import c12

    res = c12.backport_map(repo)
    res.prop, res.rule = PROP, "C19.BACKPORT-LOCAL"
    for f in res.findings:
        f.property, f.rule = PROP, "C19.BACKPORT-LOCAL"
    return res


backport_local.rule_id = "C19.BACKPORT-LOCAL"

def delete_survives(repo: Repo) -> RuleRun:
    """An operation addressed through a grid and deleted stays deleted across clear()/backport(): clear() does not touch the deleted set. Same rule as C12.CLEAR-COMPLETE."""
    from ..report import rebrand
    from . import c12

    return rebrand(c12.clear_complete(repo), PROP, "C19.DELETE-SURVIVES")


delete_survives.rule_id = "C19.DELETE-SURVIVES"

def tier_order(repo: Repo) -> RuleRun:
    """Within one tier of a sketch's grid (core ring, shell ring, wrapping ring) the faces are listed in angular order: each face
    shares an edge with the next one. That is what makes grid[tier][i] an address in space - operation i of the shell is the
    i-th sector - and it is independent of any geometry: it is read off the literal quad map."""
    r = RuleRun(PROP, "C19.TIER-ORDER", floor=8, what="in every grid tier of every sketch with a literal quad map, consecutive faces share an edge (faces are listed in angular order)")
    for cls in sketches.sketch_classes_with_quad_map(repo):
        qm = sketches.literal_quad_map(repo, cls)
        faces = [Sym(f"f{i}") for i in range(len(qm))]
        grid = sketches.eval_grid(repo, cls, faces)

        def edges(q):
            return {frozenset((q[i], q[(i + 1) % 4])) for i in range(4)}

        for t, tier in enumerate(grid):
            idx = [int(repr(f)[1:]) for f in tier]
            broken = [(idx[i], idx[i + 1]) for i in range(len(idx) - 1) if not (edges(qm[idx[i]]) & edges(qm[idx[i + 1]]))]
            r.check(
                not broken,
                cls,
                f"tier {t}: {len(idx)} faces, each adjacent to the next",
                f"{cls.name}: in grid tier {t} the faces {broken[0] if broken else ''} follow each other but share no edge (quads {qm[broken[0][0]] if broken else ''} and {qm[broken[0][1]] if broken else ''}): "
                f"the tier is not listed in angular order, so {cls.name}.grid[{t}][i] (and shell[i] / the operations of every shape lofted from it) does not address the i-th sector",
                cls.methods.get("__init__").node if cls.methods.get("__init__") else cls.node,
                key=f"tier:{t}",
            )
    return r


tier_order.rule_id = "C19.TIER-ORDER"

def no_class_state(repo: Repo) -> RuleRun:
    """Deleting an operation addressed through a grid removes it from THIS mesh only: the deleted set is per mesh, not a class-level container."""
    from ..alias import class_state_rule

    return class_state_rule(repo, PROP, "C19.NO-CLASS-STATE")


no_class_state.rule_id = "C19.NO-CLASS-STATE"

def addressable(repo: Repo) -> RuleRun:
    """'For round shapes the core and shell lists partition the operations': every shape class can be asked for its grid, core, shell and operations - the members read only attributes that the constructors really run for that class create."""
    from ..initchain import init_chain_rule

    return init_chain_rule(repo, PROP, "C19.ADDRESSABLE", "construct.shape.Shape", ("grid", "core", "shell", "operations"), floor=12)


addressable.rule_id = "C19.ADDRESSABLE"

def partition_lists(repo: Repo) -> RuleRun:
    """'For round shapes the core and shell lists partition the operations': the shapes take them from their sketch -
    `operations[: len(sketch.core)]` - so the `core` and `shell` of every sketch class are sequences; a ring has an EMPTY core.
    A member that answers the constant None (the spline rings did) makes `RoundHollowShape(ring).core` a TypeError while
    `Annulus` answers []. Every definition of `core` / `shell` in a Sketch subclass (property or attribute set by a constructor)
    is classified by what it returns / is assigned."""
    r = RuleRun(PROP, "C19.PARTITION-LISTS", floor=8, what="every `core` / `shell` member of a sketch class is a sequence (a ring's core is the empty list, never None)")
    base = repo.cls("construct.flat.sketch.Sketch")
    n = 0
    for cls in sorted(repo.subclasses(base, strict=False), key=lambda c: c.qualname):
        for member in ("core", "shell"):
            values = []
            fn = cls.methods.get(member)
            if fn is not None:
                values += [(fn, x.value) for x in ast.walk(fn.node) if isinstance(x, ast.Return)]
            for m in cls.methods.values():
                for st in ast.walk(m.node):
                    tgts = st.targets if isinstance(st, ast.Assign) else [st.target] if isinstance(st, ast.AnnAssign) and st.value is not None else []
                    for t in tgts:
                        if isinstance(t, ast.Attribute) and t.attr == member and isinstance(t.value, ast.Name) and t.value.id == "self":
                            values.append((m, st.value))
            for k, (where, v) in enumerate(values):
                n += 1
                none = v is None or (isinstance(v, ast.Constant) and v.value is None)
                r.check(
                    not none,
                    where,
                    f"{cls.name}.{member} is '{ast.unparse(v)[:40] if v is not None else 'None'}'",
                    f"{cls.qualname}.{member} answers None: the shapes built on this sketch slice their operations with len(sketch.{member}) - RoundHollowShape(<this sketch>, ...).core raises "
                    "TypeError ('NoneType' has no len()), while Annulus, the other ring sketch, answers the empty list",
                    where.node,
                    key=f"{cls.name}.{member}#{k}",
                )
    r.require(n >= 8, f"only {n} definitions of core / shell found in the sketch classes")
    return r


partition_lists.rule_id = "C19.PARTITION-LISTS"


def scalar_amount(repo: Repo) -> RuleRun:
    """'tier k = the base moved k times along the normal': the number-or-vector test of Extrude / ExtrudedShape / ExtrudedStack accepts every scalar."""
    from ..params import scalar_dispatch_rule

    return scalar_dispatch_rule(repo, PROP, "C19.SCALAR-AMOUNT")


scalar_amount.rule_id = "C19.SCALAR-AMOUNT"


def stack_chain(repo: Repo) -> RuleRun:
    """'grid[k][j][i] is the operation in column i, row j, tier k': tier k of a transformed stack is the base moved k times by the WHOLE transformation list. Same rule as C11.STACK-CHAIN."""
    from ..report import rebrand
    from . import c11

    return rebrand(c11.stack_chain(repo), PROP, "C19.STACK-CHAIN")


stack_chain.rule_id = "C19.STACK-CHAIN"


def arguments_untouched(repo: Repo) -> RuleRun:
    """'tier k = the base moved k times': the amount a stack is built with is the caller's - a second stack built with the same array gets the same tiers. Same rule as C09.ARGUMENTS-UNTOUCHED."""
    from ..alias import argument_mutation_rule

    return argument_mutation_rule(repo, PROP, "C19.ARGUMENTS-UNTOUCHED")


arguments_untouched.rule_id = "C19.ARGUMENTS-UNTOUCHED"


def private_coordinates(repo: Repo) -> RuleRun:
    """'... affects the block at that location and no other': after backport() every operation holds its own coordinates - a corner array shared by neighbouring operations is translated once per owner. Same rule as C09.PRIVATE-COORDINATES."""
    from ..report import rebrand
    from . import c09

    return rebrand(c09.private_coordinates(repo), PROP, "C19.PRIVATE-COORDINATES")


private_coordinates.rule_id = "C19.PRIVATE-COORDINATES"


def no_shared_containers(repo: Repo) -> RuleRun:
    """'core and shell lists partition the operations': two lists that are filled separately are two objects. A chained assignment
    of one fresh container to several names (self.core = self.shell = []; dict.fromkeys(keys, {})) makes them the same object:
    every face appended to the shell is in the core as well, all three axes of a slice cache share one inner dict. Expected count
    zero; the matcher is exercised on an embedded example on every run."""
    r = RuleRun(PROP, "C19.NO-SHARED-CONTAINERS", floor=1, what="no fresh mutable container is bound to several attributes / dictionary keys at once (a = b = [], dict.fromkeys(keys, {}))")

    def fresh_mutable(v):
        if isinstance(v, (ast.List, ast.Dict, ast.Set, ast.ListComp, ast.DictComp, ast.SetComp)):
            return True
        return isinstance(v, ast.Call) and (attr_chain(v.func) or "") in ("list", "dict", "set", "deque", "collections.deque", "defaultdict", "collections.defaultdict", "OrderedDict") 

    def hits(tree):
        out = []
        for n_ in ast.walk(tree):
            if isinstance(n_, ast.Assign) and len(n_.targets) > 1 and fresh_mutable(n_.value):
                out.append((n_, "chained assignment of one container"))
            if isinstance(n_, ast.Call) and (attr_chain(n_.func) or "").endswith("fromkeys") and len(n_.args) == 2 and fresh_mutable(n_.args[1]):
                out.append((n_, "dict.fromkeys with one container as the value of every key"))
        return out

    probe = ast.parse("class A:\n    def __init__(self):\n        self.core = self.shell = []\n        self.cache = dict.fromkeys((0, 1, 2), {})\n        self.a = []\n        self.b = []")
    if len(hits(probe)) != 2:
        raise AnalysisError("C19.NO-SHARED-CONTAINERS: the matcher no longer recognises its embedded examples")
    n = 0
    for fn in sorted(repo.all_functions(), key=lambda f_: f_.qualname):
        n += 1
        for k, (node, why) in enumerate(hits(fn.node)):
            r.bad(fn, f"{fn.qualname}: '{ast.unparse(node)[:80]}' - {why}: the names share ONE object, what is put into one of them is in all of them (core = shell: every operation is reported as both; one slice cache for all axes: the first slice taken with an index is returned for every axis)", node, key=f"shared#{k}")
    r.ok(None, f"{n} functions scanned; matcher verified on its embedded examples", key="scan")
    return r


no_shared_containers.rule_id = "C19.NO-SHARED-CONTAINERS"



def ring_order(repo: Repo) -> RuleRun:
    """'grid[k][j][i] is the operation in column i ...; ring.shell[i] sits on the i-th segment': the first segment of an Annulus is
    drawn from angle 0 to +segment_angle (its far corners are the near ones turned by +segment_angle) and segment i is that face turned
    by i segment angles IN THE SAME SENSE - so segment i starts where segment i - 1 ends, and shell[i] of a ring lies on shell[i] of
    the disk that fills it. Abstract run of Annulus.__init__ (geometry opaque, angles in floating point): the placement angles are
    i times the angle the first face spans, sign included."""
    from ..peval import NO_MATCH, Evaluator, NotEvaluable, Obj, Raised, Sym

    r = RuleRun(PROP, "C19.RING-ORDER", floor=1, what="segment i of an Annulus is its first face turned by i times the (signed) angle that face spans")
    cls = repo.cls("construct.flat.sketches.annulus.Annulus")
    fn = cls.methods["__init__"]
    extent, place = [], []
    ring = Obj("ring", cls=cls)

    def hook(ev, call: ast.Call, name):
        nm = (name or "").split(".")[-1]
        if nm in ("asarray", "array") and call.args:
            return ev.eval(call.args[0])
        if nm == "unit_vector":
            return Sym("unit")
        if name in ("f.rotate", "functions.rotate") and len(call.args) >= 2:
            extent.append(ev.eval(call.args[1]))
            return Sym("turned-point")
        if nm == "Face":
            for a in call.args:
                ev.eval(a)
            return Obj("face")
        if nm == "Origin":
            return Sym("origin-edge")
        if isinstance(call.func, ast.Attribute) and call.func.attr == "copy":
            return Obj("face-copy")
        if isinstance(call.func, ast.Attribute) and call.func.attr == "rotate" and call.args:
            recv = ev.eval(call.func.value)
            if isinstance(recv, Obj) and recv._name == "face-copy":
                place.append(ev.eval(call.args[0]))
                return recv
        return NO_MATCH

    def arith(op, a, b):
        num = lambda x: isinstance(x, (int, float)) and not isinstance(x, bool)  # noqa: E731
        if num(a) and num(b):
            if isinstance(op, ast.Div):
                return a / b
            if isinstance(op, ast.Mult):
                return a * b
            if isinstance(op, ast.Add):
                return a + b
            if isinstance(op, ast.Sub):
                return a - b
        if isinstance(a, Sym) or isinstance(b, Sym):
            return Sym("geom")
        return NO_MATCH

    import math

    ev = Evaluator(repo=repo, module=fn.module, call_hook=hook, bind={"np.pi": math.pi, "numpy.pi": math.pi, "math.pi": math.pi})
    ev.binop_hook = arith
    ev.float_arith = True
    try:
        ev.call_funcinfo(fn, [ring, Sym("center"), Sym("outer"), Sym("normal"), 0.5, 8])
    except (Raised, NotEvaluable) as err:
        if not ring.has("shell"):
            raise AnalysisError(f"Annulus.__init__ not evaluable up to the list of segments: {err}") from err
    r.require(len(extent) >= 2 and all(isinstance(a, float) for a in extent) and len(set(extent)) == 1, f"Annulus.__init__: the first face is not drawn with one numeric segment angle (f.rotate angles: {extent})")
    r.require(len(place) == 8 and all(isinstance(a, (int, float)) for a in place), f"Annulus.__init__: 8 placement angles expected, got {place}")
    want = [k * extent[0] for k in range(8)]
    r.check(
        all(abs(a - b) < 1e-12 for a, b in zip(place, want)),
        fn,
        "segment i = first face turned by i x the angle it spans",
        f"Annulus(n_segments=8): the first face spans {extent[0]:.4f} rad but segment i is that face turned by {[round(a, 4) for a in place]}: the segments are laid out in the opposite sense - ring.shell[1] is the LAST "
        "segment going round, Mesh.delete(ring.shell[1]) removes a block elsewhere and ring.shell[i] no longer sits on Cylinder.fill(ring).shell[i]",
        fn.node,
        key="placement",
    )
    return r


ring_order.rule_id = "C19.RING-ORDER"


def no_memo(repo: Repo) -> RuleRun:
    """'core and shell lists partition the operations / faces' - as the sketch is NOW: nothing in the construct package memoises a view of state that later construction steps or transformations change (a half or full spline disk is assembled from quarters after `core` was first read). Same rule body as C03.NO-MEMO."""
    from ..memo import memo_rule

    return memo_rule(repo, PROP, "C19.NO-MEMO", ("construct.", "base."), floor=0)


no_memo.rule_id = "C19.NO-MEMO"


RULES = [grid_roles, slice_roles, partition, merged_roles, assemble_walk, backport_local, delete_survives, tier_order, no_class_state, addressable, scalar_amount, stack_chain, arguments_untouched, private_coordinates, no_shared_containers, partition_lists, ring_order, no_memo]

"""C07 - curved-edge entries are unique, on real block edges and correctly directed."""

from __future__ import annotations

import ast
from typing import Any, Dict, List, Optional, Set, Tuple

from .. import hexa
from ..model import AnalysisError, ClassInfo, Repo, attr_chain, walk_shallow
from ..peval import NO_MATCH, Evaluator, NotEvaluable, Obj, Raised, Sym
from ..report import RuleRun
from ..util import literal_members
from .c10 import _cyclic_sense, _run, sym_face, sym_operation
from .c18 import dist_hook

PROP = "C07"
TITLE = "Curved-edge entries are unique, on real block edges and correctly directed"
DECIDES = (
    "EdgeKindType literals = kinds registered on the factory = kinds declared by EdgeData classes, and each registered Edge class "
    "carries data of that kind (C07.KIND-REGISTRY); abstract run of EdgeList.find/add: lookup by unordered vertex-index pair, "
    "creation only after a failed lookup, appended only when valid; Edge.is_valid rejects lines and zero-length edges and every "
    "override conjoins the base test (C07.DEDUP); the 12 (corner_1, corner_2, payload) triples that Operation.edges + "
    "Frame.get_all_beams hand to EdgeList.add_from_operation keep the direction the face defines for the payload (edge i runs "
    "from corner i to corner i+1) (C07.DIRECTION); a Face method that reverses the sense of the points must also reverse "
    "direction-dependent edge data (C07.REVERSAL)."
    " every curved beam is offered to EdgeList.add with its corner order (part of C07.DIRECTION); curve-snapped, spline and polyLine edges reach the curve with (param_start, param_end) in that order also for descending parameters, evaluated through the edge-data layer (C07.CURVE-DIRECTION = C16.END-PAIRING); face permutations keep edges on their sides (C07.FACE-EDGE-SLOTS = C10.FACE-PERMUTATIONS)."
    ' Edge slots (C07.EDGE-SLOTS = C10.EDGE-MAP), length of descending parameter ranges (C07.LENGTH-DIRECTION = C16.KNOT-DEPENDENCE), the sign of the sector angle (C07.ARC-SIDE = C08.SIGN-FLOWS).'
    ' The tests that decide whether an edge is written at all are absolute tests of a non-negative, unsquared magnitude against the library tolerance (C07.VALIDITY-TOLERANCE); every edge slot owns its edge data (C07.OWN-EDGE-DATA); nothing vertex-dependent is memoised on an edge (C07.NO-MEMO).'
    " arc_from_theta returns the exact half-way point for minor and reflex sectors (C07.REFLEX-MIDPOINT); every occupied corner pair is listed once also when payload objects are shared (C07.BEAM-LIST); a new edge keeps the vertex order it was given with (part of C07.DEDUP); reverse() of each edge-data kind does what that kind needs (part of C07.REVERSAL); label lists are not the caller's (C07.ARGUMENTS-UNTOUCHED)."
)
NOT_DECIDED = "'exactly once' for arbitrary sets of operations defining the same geometric edge; edge lengths and curve shapes."
ASSUMPTIONS = ["a face's edge i is specified by the user from point i to point i+1 (Face docstring)"]


def kind_registry(repo: Repo) -> RuleRun:
    r = RuleRun(PROP, "C07.KIND-REGISTRY", floor=8, what="EdgeKindType == registered kinds == EdgeData.kind values; data annotation agrees")
    r.exhaustive = True
    types = repo.module("types")
    lit = literal_members(repo, types, types.assigns.get("EdgeKindType"))
    r.require(bool(lit), "types.EdgeKindType Literal not found")
    fmod = repo.module("items.edges.factory")
    registered: Dict[str, ClassInfo] = {}
    for n in fmod.tree.body:
        if isinstance(n, ast.Expr) and isinstance(n.value, ast.Call) and isinstance(n.value.func, ast.Attribute) and n.value.func.attr == "register_kind":
            kind = ast.literal_eval(n.value.args[0])
            cls = repo.resolve_expr(fmod, n.value.args[1])
            r.require(isinstance(cls, ClassInfo), f"factory.register_kind({kind!r}, ...): class not resolved")
            if kind in registered:
                r.bad(fmod, f"kind {kind!r} is registered twice", n, key=f"register:{kind}")
            registered[kind] = cls
    edata = repo.cls("construct.edges.EdgeData")
    declared: Dict[str, List[ClassInfo]] = {}
    for c in repo.subclasses(edata):
        v = c.class_vars.get("kind")
        if v is not None:
            declared.setdefault(ast.literal_eval(v), []).append(c)
    r.check(set(lit) == set(registered), fmod, f"{len(registered)} kinds registered = EdgeKindType", f"EdgeKindType = {sorted(lit)} but the factory registers {sorted(registered)}: an edge of kind {sorted(set(lit) ^ set(registered))} cannot be created / is not a declared kind", key="literal-vs-registry")
    r.check(set(declared) == set(registered), edata, "every EdgeData kind has a creator", f"EdgeData classes declare kinds {sorted(declared)} but the factory registers {sorted(registered)}", key="declared-vs-registry")
    for kind, cls in sorted(registered.items()):
        ann = None
        for c in repo.mro(cls):
            if "data" in c.class_annotations:
                ann = repo.resolve_expr(c.module, c.class_annotations["data"])
                break
        r.require(isinstance(ann, ClassInfo), f"{cls.name}: data annotation not resolved")
        kv = repo.class_var(ann, "kind")
        dk = ast.literal_eval(kv[0]) if kv is not None else None
        r.check(dk == kind, cls, f"'{kind}' -> {cls.name}(data: {ann.name})", f"kind '{kind}' is registered to {cls.name}, whose data class {ann.name} has kind '{dk}'", key=f"kind:{kind}")
    # create() dispatches on data.kind
    create = repo.func("items.edges.factory.EdgeFactory.create")
    ok = any(isinstance(n, ast.Subscript) and attr_chain(n.value) == "self.kinds" and ast.unparse(n.slice) == "data.kind" for n in ast.walk(create.node))
    r.check(ok, create, "dispatch on data.kind", "EdgeFactory.create does not dispatch on data.kind", create.node, key="dispatch")
    return r


kind_registry.rule_id = "C07.KIND-REGISTRY"


# --------------------------------------------------------------------------------------------
def _vertex(i: int, pos: int = 0) -> Obj:
    v = Obj(f"v{i}")
    v.set("index", i)
    v.set("position", pos)
    return v


def dedup(repo: Repo) -> RuleRun:
    r = RuleRun(PROP, "C07.DEDUP", floor=10, what="EdgeList.find/add and the is_valid chain")
    elist = repo.cls("lists.edge_list.EdgeList")
    find = repo.func("lists.edge_list.EdgeList.find")
    add = repo.func("lists.edge_list.EdgeList.add")

    def mk_edge(a, b, valid=True):
        e = Obj(f"edge{a}{b}")
        e.set("vertex_1", _vertex(a))
        e.set("vertex_2", _vertex(b))
        e.set("is_valid", valid)
        return e

    def build(pre):
        """An EdgeList made by its own constructor and filled through its own add() - whatever it keeps besides the list of edges"""
        ev0 = Evaluator(repo=repo, module=add.module)
        try:
            this_ = ev0.instantiate(elist, [])
        except (Raised, NotEvaluable) as err:
            raise AnalysisError(f"EdgeList() not evaluable: {err}") from err
        for e_ in pre:

            def hook0(ev, call: ast.Call, name, e_=e_):
                if name == "factory.create":
                    return e_
                return NO_MATCH

            _run(Evaluator(repo=repo, module=add.module, call_hook=hook0), add, [this_, e_.get("vertex_1"), e_.get("vertex_2"), Sym("data")])
        return this_

    for label, a, b, expect_found in (("same order", 1, 2, True), ("reversed order", 2, 1, True), ("other pair", 1, 3, False), ("shares one vertex", 2, 3, False)):
        e12 = mk_edge(1, 2)
        this = build([mk_edge(5, 6), e12])
        res = _run(Evaluator(repo=repo, module=find.module), find, [this, _vertex(a), _vertex(b)])
        ok = (res is e12) if expect_found else (isinstance(res, tuple) and res[0] == "raised" and res[1].endswith("EdgeNotFoundError"))
        r.check(ok, find, f"find({a},{b}) [{label}] -> {'found' if expect_found else 'EdgeNotFoundError'}", f"EdgeList.find({a},{b}) with an existing edge 1-2 ({label}) gives {res!r}", find.node, key=f"find:{label}")

    # an edge stored with descending vertex indexes must be found from either side as well
    for label, a, b in (("stored 8-0, asked 0-8", 0, 8), ("stored 8-0, asked 8-0", 8, 0)):
        e80 = mk_edge(8, 0)
        this = build([mk_edge(5, 6), e80])
        res = _run(Evaluator(repo=repo, module=find.module), find, [this, _vertex(a), _vertex(b)])
        r.check(res is e80, find, f"find [{label}] -> found", f"EdgeList.find({a},{b}) does not find the existing edge stored as 8-0 ({res!r}): the same geometric edge is appended a second time", find.node, key=f"find:{label}")

    for label, a, b, valid, n_created, n_listed in (
        ("existing, same order", 1, 2, True, 0, 1),
        ("existing, reversed", 2, 1, True, 0, 1),
        ("new and valid", 3, 4, True, 1, 2),
        ("new and valid, first vertex has the higher index", 9, 2, True, 1, 2),
        ("new but invalid (line / zero length / collinear arc)", 3, 4, False, 1, 1),
        # a block that leaves the edge straight was added first: its (invalid, unlisted) line must not stand in for the curve a later block gives
        ("valid, after an invalid line for the same pair was offered by an earlier block", 3, 4, True, 1, 2),
    ):
        e12 = mk_edge(1, 2)
        this = build([e12, mk_edge(3, 4, valid=False)] if label.startswith("valid, after") else [e12])
        created = []

        def hook(ev, call: ast.Call, name, created=created, valid=valid):
            if name == "factory.create":
                args = [ev.eval(x) for x in call.args]
                e = Obj("created")
                e.set("vertex_1", args[0])
                e.set("vertex_2", args[1])
                e.set("data", args[2])
                e.set("is_valid", valid)
                created.append(e)
                return e
            return NO_MATCH

        res = _run(Evaluator(repo=repo, module=add.module, call_hook=hook), add, [this, _vertex(a), _vertex(b), Sym("data")])
        listed = this.get("edges")
        ok = len(created) == n_created and len(listed) == n_listed and (res is e12 if n_created == 0 else res is created[0])
        if n_created and ok:
            ok = created[0].get("vertex_1").get("index") == a and created[0].get("vertex_2").get("index") == b and repr(created[0].get("data")) == "data"
        got_ends = (created[0].get("vertex_1").get("index"), created[0].get("vertex_2").get("index")) if created else None
        r.check(ok, add, f"{label}: created {len(created)}, listed {len(listed)}", f"EdgeList.add [{label}]: created {len(created)} edge(s) {('from vertex %s to vertex %s' % got_ends) if got_ends else ''} (asked: {a} to {b}), list has {len(listed)} entries, returned {res!r}; expected {n_created} created and {n_listed} listed - the edge data (spline points, the sense of an angle-and-axis arc) is directed from the first to the second vertex it was given with", add.node, key=f"add:{label}")

    # Edge.is_valid
    edge_cls = repo.cls("items.edges.edge.Edge")
    isv = repo.func("items.edges.edge.Edge.is_valid")
    for label, kind, p1, p2, expect in (("line", "line", 0, 5, False), ("zero length", "arc", 3, 3, False), ("proper arc", "arc", 0, 5, True), ("proper spline", "spline", 0, 5, True)):
        e = Obj("edge", cls=edge_cls)
        e.set("vertex_1", _vertex(1, p1))
        e.set("vertex_2", _vertex(2, p2))
        e.set("data", Obj("data", kind=kind))
        res = _run(Evaluator(repo=repo, module=isv.module, call_hook=dist_hook()), isv, [e])
        r.check(res is expect, isv, f"{label}: is_valid={res}", f"Edge.is_valid = {res!r} for a {label} edge; expected {expect}", isv.node, key=f"is_valid:{label}")
    # overrides conjoin super().is_valid
    for c in repo.subclasses(edge_cls):
        m = c.methods.get("is_valid")
        if m is None:
            continue
        uses_super = any(isinstance(n, ast.Attribute) and n.attr == "is_valid" and isinstance(n.value, ast.Call) and attr_chain(n.value.func) == "super" for n in ast.walk(m.node))
        # the base verdict must gate every True result: `if super().is_valid: ... return False` or `super().is_valid and ...`
        gated = False
        for n in walk_shallow(m.node):
            if isinstance(n, ast.If) and "super().is_valid" in ast.unparse(n.test) and not isinstance(n.test, ast.UnaryOp):
                tail = [s for s in m.node.body if isinstance(s, ast.Return)]
                gated = all(isinstance(t.value, ast.Constant) and t.value.value is False for t in tail) if tail else False
            if isinstance(n, ast.Return) and isinstance(n.value, ast.BoolOp) and isinstance(n.value.op, ast.And) and "super().is_valid" in ast.unparse(n.value):
                gated = True
        r.check(uses_super and gated, m, "override keeps the base test", f"{m.qualname} does not conjoin super().is_valid: line / zero-length edges of this kind would be written", m.node, key="override")
    return r


dedup.rule_id = "C07.DEDUP"


# --------------------------------------------------------------------------------------------
def _pname(payload) -> str:
    return payload._name if isinstance(payload, Obj) else repr(payload)


def emitted_beams(repo: Repo):
    """Abstract run of Operation.edges followed by Frame.get_all_beams; returns
    (recorded add_beam calls with payload slots, list returned by get_all_beams)."""
    edges = repo.func("construct.operations.operation.Operation.edges")
    op = sym_operation(repo)
    issued = []

    def hook(ev, call: ast.Call, name):
        if isinstance(call.func, ast.Attribute) and call.func.attr == "add_beam" and len(call.args) == 3:
            args = [ev.eval(a) for a in call.args]
            if isinstance(args[2], (Sym, Obj)):
                issued.append(tuple(args))
        return NO_MATCH

    ev = Evaluator(repo=repo, module=edges.module, call_hook=hook)
    frame = _run(ev, edges, [op])
    if not isinstance(frame, Obj):
        raise AnalysisError("Operation.edges does not return a Frame")
    gab = repo.func("util.frame.Frame.get_all_beams")
    out = _run(Evaluator(repo=repo, module=gab.module), gab, [frame])
    return issued, out


def direction(repo: Repo) -> RuleRun:
    r = RuleRun(PROP, "C07.DIRECTION", floor=12, what="the 12 edge payloads reach EdgeList with the corner order in which the face defines them")
    r.exhaustive = True
    edges = repo.func("construct.operations.operation.Operation.edges")
    issued, out = emitted_beams(repo)
    r.require(len(issued) == 12, f"Operation.edges issues {len(issued)} payload beams, expected 12")
    # the direction a payload is defined in
    def defined(payload: Sym) -> Tuple[int, int]:
        nm = _pname(payload)
        where, idx = nm.split(".e")
        i = int(idx)
        if where == "bottom":
            return (i, (i + 1) % 4)
        if where == "top":
            return (i + 4, (i + 1) % 4 + 4)
        return (i, i + 4)

    seen = {_pname(t[2]): (t[0], t[1]) for t in out} if isinstance(out, list) else {}
    r.require(isinstance(out, list), "Frame.get_all_beams does not return a list")
    # EdgeList.add_from_operation (abstract run): each beam (c1, c2, data) becomes add(vertices[c1], vertices[c2], data)
    afo = repo.func("lists.edge_list.EdgeList.add_from_operation")
    added = []
    # payloads of every kind - a 'line' beam must be offered to EdgeList.add as well: that is how a block whose own data
    # leaves a shared edge straight picks up the curved edge a neighbour defined between the same two vertices
    d_a, d_b, d_c = Obj("dataA", kind="line"), Obj("dataB", kind="arc"), Obj("dataC", kind="spline")

    def afo_hook(ev, call: ast.Call, name):
        if attr_chain(call.func) == "self.add":
            args = [ev.eval(x) for x in call.args]
            added.append(args)
            return Sym(f"edge({args[0]!r},{args[1]!r})")
        if isinstance(call.func, ast.Attribute) and call.func.attr == "get_all_beams":
            return [(3, 0, d_a), (5, 6, d_b), (2, 6, d_c)]
        return NO_MATCH

    el = Obj("edge_list", cls=repo.cls("lists.edge_list.EdgeList"))
    el.set("edges", [])
    opx = Obj("operation")
    opx.set("edges", Obj("frame"))
    verts = [Sym(f"V{i}") for i in range(8)]
    res_afo = _run(Evaluator(repo=repo, module=afo.module, call_hook=afo_hook), afo, [el, verts, opx])
    want_added = [[Sym("V3"), Sym("V0"), d_a], [Sym("V5"), Sym("V6"), d_b], [Sym("V2"), Sym("V6"), d_c]]
    want_ret = [(3, 0, Sym("edge(V3,V0)")), (5, 6, Sym("edge(V5,V6)")), (2, 6, Sym("edge(V2,V6)"))]
    # (a 'line' beam may be left out: since repair 0451243 a straight wire takes over the curved edge of its coincident partner when
    #  the blocks are linked, so the lookup in add() is no longer what hands a neighbour's curve to this block - seed C07-r2m3, which
    #  skips line beams, has become behaviour-preserving and sits in the neutral list)
    curved_added, curved_ret = want_added[1:], want_ret[1:]
    r.check(
        (added == want_added and res_afo == want_ret) or (added == curved_added and res_afo == curved_ret),
        afo,
        "beam (c1, c2, data) -> add(vertices[c1], vertices[c2], data) for every curved kind of data, returned with its corners",
        f"EdgeList.add_from_operation turns beams [(3,0,line A),(5,6,arc B),(2,6,spline C)] into add-calls {added} and returns {res_afo}: every curved beam "
        "must reach add() with the beam's corner order and payload",
        afo.node,
        key="add_from_operation",
    )
    for a, b, payload in issued:
        want = defined(payload)
        if {a, b} != set(want):
            r.bad(edges, f"Operation.edges attaches the edge data {payload} (defined between corners {want[0]} and {want[1]}) to corners {a},{b}", edges.node, key=f"beam:{want[0]}-{want[1]}")
            continue
        got = seen.get(_pname(payload))
        if got is None:
            r.bad(edges, f"payload {payload} (between corners {want}) is lost: get_all_beams does not return it", edges.node, key=f"beam:{want[0]}-{want[1]}")
            continue
        r.check(
            tuple(got) == want,
            edges,
            f"{payload}: corners {got}",
            f"edge data of {payload} is defined from corner {want[0]} to corner {want[1]} but reaches EdgeList.add as ({got[0]}, {got[1]}): "
            "Frame stores beams symmetrically and get_all_beams reports the smaller corner first, so a spline/polyLine/angle-axis edge on the closing "
            "edge of a face is written with vertex order reversed against its point list / sense",
            edges.node,
            key=f"beam:{want[0]}-{want[1]}",
        )
    dup = len(out) != len({_pname(t[2]) for t in out})
    r.check(not dup and len(out) == 12, repo.func("util.frame.Frame.get_all_beams"), "each beam reported once", f"get_all_beams reports {len(out)} entries for 12 beams", key="once")
    return r


direction.rule_id = "C07.DIRECTION"


def reversal(repo: Repo) -> RuleRun:
    r = RuleRun(PROP, "C07.REVERSAL", floor=2, what="Face methods that reverse the sense of the points also reverse direction-dependent edge data")
    face_cls = repo.cls("construct.flat.face.Face")
    examined = 0
    for name, m in sorted(face_cls.methods.items()):
        if name.startswith("_") or m.is_property or m.is_classmethod or m.is_staticmethod:
            continue
        a = m.node.args
        required = len(a.args) - 1 - len(a.defaults)
        extra_args = []
        if required == 1 and a.args[1].annotation is not None and ast.unparse(a.args[1].annotation) == "int":
            extra_args = [1]
        elif required != 0:
            continue
        face = sym_face(repo)
        edges = [Obj(f"E{i}") for i in range(4)]
        face.set("edges", edges)
        p0 = list(face.get("points"))
        touched = []

        def hook(ev, call: ast.Call, nm, touched=touched, edges=edges):
            if isinstance(call.func, ast.Attribute):
                try:
                    recv = ev.eval(call.func.value)
                except NotEvaluable:
                    return NO_MATCH
                if isinstance(recv, Obj) and recv in edges:
                    touched.append((recv, call.func.attr))
                    return None
            return NO_MATCH

        try:
            Evaluator(repo=repo, module=m.module, call_hook=hook).call_funcinfo(m, [face, *extra_args])
        except (NotEvaluable, Raised):
            continue  # geometric method (normal, center, copy ...): not a re-indexing
        examined += 1
        p1 = face.get("points")
        if not isinstance(p1, list) or sorted(map(repr, p1)) != sorted(map(repr, p0)):
            continue
        sense = _cyclic_sense(p0, p1)
        if sense == -1:
            r.check(
                len({id(t[0]) for t in touched}) == 4,
                m,
                "edge data reversed together with the points",
                f"Face.{name} reverses the order of the points and re-slots the edges but never reverses the edges' own data: a spline/polyLine "
                "keeps its point order and an angle/axis arc its sense, so after inversion they are written against the direction of their vertices",
                m.node,
                key=name,
            )
        else:
            r.ok(m, f"Face.{name} keeps the sense of rotation", key=name)
    r.require(examined >= 2, "fewer than two re-indexing methods of Face could be evaluated")
    # what the reversing call does to each kind of edge data: spline / polyLine points change their order, an
    # angle-and-axis arc its sense, every other kind is direction-free and stays as it is
    inv = face_cls.methods.get("invert")
    names = set()
    if inv is not None:
        face = sym_face(repo)
        probe = [Obj(f"E{i}") for i in range(4)]
        face.set("edges", probe)

        def probe_hook(ev, call: ast.Call, nm):
            if isinstance(call.func, ast.Attribute):
                try:
                    recv = ev.eval(call.func.value)
                except NotEvaluable:
                    return NO_MATCH
                if isinstance(recv, Obj) and recv in probe:
                    names.add(call.func.attr)
                    return None
            return NO_MATCH

        try:
            Evaluator(repo=repo, module=inv.module, call_hook=probe_hook).call_funcinfo(inv, [face])
        except (NotEvaluable, Raised):
            names = set()
    if len(names) == 1:
        from .c09 import _is_noop

        meth = next(iter(names))
        base = repo.cls("construct.edges.EdgeData")
        vec_cls = repo.cls("construct.point.Vector")
        for cls in sorted(repo.subclasses(base), key=lambda c: c.qualname):
            m = repo.find_method(cls, meth)
            r.require(m is not None, f"{cls.qualname} has no method '{meth}' although Face.invert calls it on every edge")
            kind = repo.class_var(cls, "kind")
            kind_s = ast.literal_eval(kind[0]) if kind is not None and isinstance(kind[0], ast.Constant) else cls.name
            if cls.name == "Angle":
                e = Obj("angle_edge", cls=cls)
                e.set("angle", 1)
                axis = Obj("axis", cls=vec_cls)
                e.set("axis", axis)
                log = []

                def ahook(ev, call: ast.Call, nm, axis=axis, log=log):
                    if isinstance(call.func, ast.Attribute) and call.func.attr in ("scale", "mirror", "rotate", "translate"):
                        recv = ev.eval(call.func.value)
                        if recv is axis:
                            log.append((call.func.attr, [ev.eval(a) for a in call.args]))
                            return recv
                    return NO_MATCH

                _run(Evaluator(repo=repo, module=m.module, call_hook=ahook), m, [e])
                sign = e.get("angle") if e.get("angle") in (1, -1) else 0
                for what, args in log:
                    sign = sign * int(args[0]) if what == "scale" and args and args[0] in (1, -1) else 0
                r.check(sign == -1, m, f"{cls.name}.{meth} reverses the sense of rotation", f"{cls.name}.{meth}() leaves the sense of the arc {'as it is' if sign == 1 else 'undetermined'} (angle {e.get('angle')!r}, axis operations {log}): traversed from the other end the same arc turns the other way, so the angle or the axis must change sign", m.node, key=f"{meth}:{cls.name}")
            elif kind_s in ("spline", "polyLine") and cls.name in ("Spline", "PolyLine"):
                e = Obj("spline_edge", cls=cls)
                arr = Obj("array", cls=repo.cls("construct.array.Array"))
                pts = [Sym("q0"), Sym("q1"), Sym("q2")]
                arr.set("points", list(pts))
                curve = Obj("curve", cls=repo.cls("construct.curves.discrete.DiscreteCurve"))
                curve.set("array", arr)
                e.set("curve", curve)

                def shook(ev, call: ast.Call, nm):
                    if nm in ("np.flip", "numpy.flip", "np.flipud", "numpy.flipud") and call.args:
                        v = ev.eval(call.args[0])
                        if isinstance(v, list):
                            return list(reversed(v))
                    return NO_MATCH

                _run(Evaluator(repo=repo, module=m.module, call_hook=shook), m, [e])
                got = e.get("curve").get("array").get("points")
                r.check(got == list(reversed(pts)), m, f"{cls.name}.{meth} reverses the order of the points", f"{cls.name}.{meth}() leaves the points as {got}: a {kind_s} lists its points from the first to the second end point of the edge, so they must be reversed when the end points swap", m.node, key=f"{meth}:{cls.name}")
            else:
                r.check(_is_noop(m), m, f"{cls.name}.{meth}: direction-free, unchanged", f"{cls.name}.{meth}() modifies the edge data although a '{kind_s}' edge does not depend on the direction it is traversed in", m.node, key=f"{meth}:{cls.name}")
    return r


reversal.rule_id = "C07.REVERSAL"

def face_edge_slots(repo: Repo) -> RuleRun:
    """A curved edge stays on the face side it was given for through invert/shift/reorient: same rule as C10.FACE-PERMUTATIONS."""
    from ..report import rebrand
    from . import c10

    return rebrand(c10.face_permutations(repo), PROP, "C07.FACE-EDGE-SLOTS")


face_edge_slots.rule_id = "C07.FACE-EDGE-SLOTS"

def curve_direction(repo: Repo) -> RuleRun:
    """'correctly directed': the points of spline / polyLine / on-curve entries run from the entry's first vertex to its
    second also when the curve is parametrised the other way round. Same rule as C16.END-PAIRING."""
    from ..report import rebrand
    from . import c16

    return rebrand(c16.end_pairing(repo), PROP, "C07.CURVE-DIRECTION")


curve_direction.rule_id = "C07.CURVE-DIRECTION"

def edge_slots(repo: Repo) -> RuleRun:
    """A projected / curved edge given for one corner pair is stored in, and read back from, that pair's slot (top edges from the top face). Same rule as C10.EDGE-MAP."""
    from ..report import rebrand
    from . import c10

    return rebrand(c10.edge_map_rule(repo), PROP, "C07.EDGE-SLOTS")


edge_slots.rule_id = "C07.EDGE-SLOTS"

def length_direction(repo: Repo) -> RuleRun:
    """'the edge length used for grading is that the user described': the length of an interpolated curve between two parameters handles descending ranges. Same rule as C16.KNOT-DEPENDENCE."""
    from ..report import rebrand
    from . import c16

    return rebrand(c16.knot_dependence(repo), PROP, "C07.LENGTH-DIRECTION")


length_direction.rule_id = "C07.LENGTH-DIRECTION"

def arc_side(repo: Repo) -> RuleRun:
    """'the sense of angle-and-axis arcs': the sign of the sector angle reaches the arc centre. Same rule as C08.SIGN-FLOWS."""
    from ..report import rebrand
    from . import c08

    return rebrand(c08.sign_flows(repo), PROP, "C07.ARC-SIDE")


arc_side.rule_id = "C07.ARC-SIDE"

def validity_tolerance(repo: Repo) -> RuleRun:
    """'every non-degenerate curved edge is written': what counts as degenerate is decided by Edge.is_valid / ArcEdgeBase.is_valid. Same rule as C08.VALIDITY-TOLERANCE."""
    from . import c08

    return c08.validity_tolerance(repo, PROP, "C07.VALIDITY-TOLERANCE")


validity_tolerance.rule_id = "C07.VALIDITY-TOLERANCE"

def own_edge_data(repo: Repo) -> RuleRun:
    """'each curved edge is written with ITS data': every edge slot owns its edge-data record, so a transformation reaches it once. Same rule as C09.NO-SHARED-PARTS."""
    from ..report import rebrand
    from . import c09

    return rebrand(c09.no_shared_parts(repo), PROP, "C07.OWN-EDGE-DATA")


own_edge_data.rule_id = "C07.OWN-EDGE-DATA"

def no_memo(repo: Repo) -> RuleRun:
    """'written as the geometry stands at write time': nothing that depends on the vertices is memoised on an edge. Same rule as C16.NO-MEMO."""
    from ..report import rebrand
    from . import c16

    return rebrand(c16.no_memo(repo), PROP, "C07.NO-MEMO")


no_memo.rule_id = "C07.NO-MEMO"

def reflex_midpoint(repo: Repo) -> RuleRun:
    """'written on the intended side': the three-point form of an angle-and-axis edge for sectors of more than half a turn. Same rule as C08.REFLEX-MIDPOINT."""
    from ..report import rebrand
    from . import c08

    return rebrand(c08.reflex_midpoint(repo), PROP, "C07.REFLEX-MIDPOINT")


reflex_midpoint.rule_id = "C07.REFLEX-MIDPOINT"

def arguments_untouched(repo: Repo) -> RuleRun:
    """'each curved edge is written with ITS data': the label list of one projected edge is not the caller's list (shared with every other edge built from it). Same rule as C09.ARGUMENTS-UNTOUCHED."""
    from ..alias import argument_mutation_rule

    return argument_mutation_rule(repo, PROP, "C07.ARGUMENTS-UNTOUCHED")


arguments_untouched.rule_id = "C07.ARGUMENTS-UNTOUCHED"

def beam_list(repo: Repo) -> RuleRun:
    """'every ... curved edge is written once': also when one edge-data object sits on several edges. Same rule as C10.BEAM-LIST."""
    from . import c10

    return c10.beam_list(repo, PROP, "C07.BEAM-LIST")


beam_list.rule_id = "C07.BEAM-LIST"

# --------------------------------------------------------------------------------------------
def shared_curve(repo: Repo) -> RuleRun:
    """'... the edge length used for grading is that of the curve the user described': an edge shared by two blocks is drawn
    once, and BOTH blocks grade their wire on it. The edge list hands an existing edge to a block added later; a block added
    EARLIER than the one that defines the curve only learns about it when the blocks are linked as neighbours. Abstract run of
    BlockList.add (real update_neighbours / Block.add_neighbour / Axis.add_neighbour / Wire.add_coincident) for two blocks that
    share the edge between vertices 1 and 2, curved in one of them only, in both insertion orders and both wire alignments: afterwards
    both wires carry the curved edge."""
    r = RuleRun(PROP, "C07.SHARED-CURVE", floor=8, what="after two blocks are linked, both wires on a shared edge carry the curve one of them defines (either insertion order, either alignment)")
    fn = repo.func("lists.block_list.BlockList.add")
    block_cls, axis_cls, wire_cls = repo.cls("items.block.Block"), repo.cls("items.wires.axis.Axis"), repo.cls("items.wires.wire.Wire")
    mgr_cls = repo.cls("items.wires.manager.WirePropagateManager")
    bl_cls = repo.cls("lists.block_list.BlockList")
    pairs = [[(a, b) for a in range(8) for b in range(a + 1, 8) if hexa.edge_axis(a, b) == ax] for ax in range(3)]
    r.require(all(len(p) == 4 for p in pairs), "the hexahedron model does not give four edges per axis")

    def mk_block(name, vertex_of, curved_pair, flip):
        axes = []
        wires_by_pair = {}
        for ax in range(3):
            wires = []
            for a, b in pairs[ax]:
                w = Obj(f"{name}.w{a}{b}", cls=wire_cls)
                ends = [vertex_of[a], vertex_of[b]]
                if flip:
                    ends.reverse()
                w.set("vertices", ends)
                w.set("corners", [b, a] if flip else [a, b])
                w.set("axis", ax)
                kind = "arc" if {a, b} == set(curved_pair or ()) else "line"
                w.set("edge", Obj(f"{name}.edge{a}{b}:{kind}", kind=kind, length=Sym(f"{kind}-length")))
                w.set("coincidents", set())
                w.set("grading", Obj(f"{name}.g{a}{b}", is_defined=False))
                wires.append(w)
                wires_by_pair[(a, b)] = w
            mgr = Obj(f"{name}.mgr{ax}", cls=mgr_cls)
            mgr.set("wires", wires)
            mgr.set("chops", [])
            axis = Obj(f"{name}.axis{ax}", cls=axis_cls)
            axis.set("index", ax)
            axis.set("wires", mgr)
            axis.set("neighbours", set())
            axes.append(axis)
        blk = Obj(name, cls=block_cls)
        blk.set("axes", axes)
        blk.set("index", 0)
        return blk, wires_by_pair

    for curved_in in ("first", "second"):
        for flip in (False, True):
            shared = [Obj(f"V{k}", index=k) for k in range(4)]
            va = {k: Obj(f"A{k}", index=10 + k) for k in range(8)}
            vb = {k: Obj(f"B{k}", index=20 + k) for k in range(8)}
            # A's corners 1, 2, 5, 6 are B's corners 0, 3, 4, 7
            for (ka, kb), v in zip(((1, 0), (2, 3), (5, 4), (6, 7)), shared):
                va[ka] = v
                vb[kb] = v
            a_blk, a_w = mk_block("blockA", va, (1, 2) if curved_in == "first" else None, False)
            b_blk, b_w = mk_block("blockB", vb, (0, 3) if curved_in == "second" else None, flip)
            if curved_in == "first":
                # the edge list hands the existing edge to the block assembled later (EdgeList.add, rule C07.DEDUP)
                b_w[(0, 3)].set("edge", a_w[(1, 2)].get("edge"))
            bl = Obj("block_list", cls=bl_cls)
            bl.set("blocks", [])
            ev = Evaluator(repo=repo, module=fn.module, max_steps=400000)
            for blk in (a_blk, b_blk):
                _run(ev, fn, [bl, blk])
            wa, wb = a_w[(1, 2)], b_w[(0, 3)]
            r.require(wb in wa.get("coincidents") and wa in wb.get("coincidents"), "BlockList.add does not link the wires of the shared edge on the model")
            label = f"curve defined by the {curved_in} block, wires {'anti-' if flip else ''}aligned"
            ka, kb = wa.get("edge").get("kind"), wb.get("edge").get("kind")
            r.check(
                ka == "arc" and kb == "arc" and wa.get("edge") is wb.get("edge"),
                fn,
                f"{label}: both wires carry the arc",
                f"{label}: after both blocks were added, the wire of the first block holds a '{ka}' edge and the wire of the second a '{kb}' edge on the SAME pair of vertices - the block that does not "
                "define the curve keeps its straight default edge, its wire length is the chord, and its counts and cell sizes are resolved for the chord while the arc is what is drawn",
                fn.node,
                key=f"{curved_in}:{'anti' if flip else 'aligned'}",
            )
            # nothing else changes: wires that are not shared keep their own edges
            others_ok = all(w.get("edge")._name.startswith(w._name.split(".")[0] + ".edge") for pr, w in list(a_w.items()) + list(b_w.items()) if w not in (wa, wb))
            r.check(others_ok, fn, f"{label}: unshared wires keep their edges", f"{label}: a wire that is not shared changed its edge when the blocks were linked", fn.node, key=f"{curved_in}:{'anti' if flip else 'aligned'}:others")
    return r


shared_curve.rule_id = "C07.SHARED-CURVE"


def collinearity_scale_free(repo: Repo) -> RuleRun:
    """'collinear-arc edges omitted, all others written' - for a model of any size. Same rule as C08.COLLINEARITY-SCALE-FREE."""
    from . import c08

    return c08.collinearity_scale_free(repo, PROP, "C07.COLLINEARITY-SCALE-FREE")


collinearity_scale_free.rule_id = "C07.COLLINEARITY-SCALE-FREE"


def arc_sense(repo: Repo) -> RuleRun:
    """'correctly directed': an angle-and-axis arc keeps the sense of rotation of the transformed entity under mirror / rotate - its axis is mapped, its angle follows the traversal. Same rule as C09.ARC-SENSE."""
    from ..report import rebrand
    from . import c09

    return rebrand(c09.arc_sense(repo), PROP, "C07.ARC-SENSE")


arc_sense.rule_id = "C07.ARC-SENSE"


def no_alias_store(repo: Repo) -> RuleRun:
    """'written ... with the data given': the point array of a spline / polyLine edge is the edge's own - not the caller's array, which another edge built from it (or an in-place translate of another face) would move. Same rule as C09.NO-ALIAS-STORE."""
    from ..report import rebrand
    from . import c09

    return rebrand(c09.no_alias_store(repo), PROP, "C07.NO-ALIAS-STORE")


no_alias_store.rule_id = "C07.NO-ALIAS-STORE"


def shear_unit_direction(repo: Repo) -> RuleRun:
    """'every user-defined curved edge is written ... with the data given': sheared with its face, the points of a spline / polyLine edge move like the corners. Same rule as C09.SHEAR-UNIT-DIRECTION."""
    from . import c09

    return c09.shear_unit_direction(repo, PROP, "C07.SHEAR-UNIT-DIRECTION")


shear_unit_direction.rule_id = "C07.SHEAR-UNIT-DIRECTION"



def project_merge(repo: Repo) -> RuleRun:
    """'every user-defined ... edge is written ... with the kind and data given': an edge projected to two surfaces is written with both. Two neighbouring sides projected with edges=True, in both orders (abstract run of Operation.project_side; same scenarios as in C10.SIDE-ADDRESSING)."""
    from . import c10

    r = RuleRun(PROP, "C07.PROJECT-MERGE", floor=8, what="the vertical edge shared by two projected sides carries both surfaces, whichever side is projected first")
    n = c10.project_two_sides(repo, r)
    r.require(n >= 8, f"only {n} two-side scenarios evaluated")
    return r


project_merge.rule_id = "C07.PROJECT-MERGE"



def closest_search(repo: Repo) -> RuleRun:
    """'a curve-snapped edge is written with the points of the curve between its two vertices': the parameters of the two ends are found by a search that covers the curve's own parameter range. Same rule as C16.CLOSEST-SEARCH."""
    from ..report import rebrand
    from . import c16

    return rebrand(c16.closest_param_search(repo), PROP, "C07.CLOSEST-SEARCH")


closest_search.rule_id = "C07.CLOSEST-SEARCH"


RULES = [kind_registry, dedup, direction, reversal, face_edge_slots, curve_direction, edge_slots, length_direction, arc_side, validity_tolerance, own_edge_data, no_memo, reflex_midpoint, arguments_untouched, beam_list, shared_curve, collinearity_scale_free, arc_sense, no_alias_store, shear_unit_direction, project_merge, closest_search]

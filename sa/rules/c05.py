"""C05 - one vertex per distinct point; duplicates only across merged patches."""

from __future__ import annotations

import ast
import re
from typing import List, Optional, Set

from .. import hexa
from ..cfg import CFG
from ..model import AnalysisError, ClassInfo, FuncInfo, Repo, attr_chain, parent, walk_shallow
from ..peval import NO_MATCH, Evaluator, NotEvaluable, Obj, Raised, Sym
from ..report import RuleRun
from ..util import Reach, fmt_path, node_calls
from .c06 import eval_add_vertices
from .c10 import LATERAL, _run, real_operation

PROP = "C05"
TITLE = "One vertex per distinct point; duplicates only across merged patches"
DECIDES = (
    "every Vertex construction in VertexList.add lies on the failure path of a lookup made with the same position (and "
    "patch list) (C05.LOOKUP-BEFORE-CREATE); vertices are created only in VertexList, with index len(self.vertices) and "
    "appended at once, nobody else stores Vertex.index or mutates the vertex table (C05.DENSE-INDEX); the three coincidence "
    "tests use norm(delta) < TOL with the same constant and a strict comparison (C05.TOLERANCE-SIBLINGS); Vertex.__eq__/__hash__ "
    "depend on index alone (C05.EQ-HASH); only slave patches are handed to VertexList.add, merge/master/slave/writer agree on "
    "positions 0/1, duplicate keys are sorted on both sides (C05.SLAVE-ONLY); get_patches_at_corner returns exactly the patches "
    "of the three sides meeting at each of the 8 corners (C05.CORNER-PATCHES)."
    ' the coincidence tests are purely absolute (no numpy isclose/allclose relative part), against TOL, on a non-negative quantity, strict (C05.TOLERANCE-SIBLINGS); clear()/backport() keep the merged pairs the slave-duplicate exception rests on (C05.USER-STATE-SURVIVES = C12.CLEAR-COMPLETE).'
    ' No lazily cached slave-patch set survives a later merge (C05.NO-STALE-CACHE).'
    ' PatchList.merge keeps the roles the caller gave for names in either alphabetical order (C05.MERGE-ROLES); a vertex re-used for several corners carries the projections of all of them, each once, whatever the order (part of C05.ADD-SCENARIOS).'
)
NOT_DECIDED = "geometric coincidence itself and independence from insertion order for arbitrary point sets."
ASSUMPTIONS = []


def _creates_vertex(call: ast.Call) -> bool:
    nm = attr_chain(call.func) or ""
    return nm in ("Vertex", "Vertex.from_point") or nm.endswith(".Vertex") or nm.endswith("Vertex.from_point")


def lookup_before_create(repo: Repo) -> RuleRun:
    r = RuleRun(PROP, "C05.LOOKUP-BEFORE-CREATE", floor=2, what="Vertex creation only in the handler of a failed lookup with the same arguments")
    add = repo.func("lists.vertex_list.VertexList.add")
    g = CFG(add.node)
    creates = [n for n in g.stmt_nodes() if any(_creates_vertex(c) for c in node_calls(n))]
    r.require(len(creates) >= 1, "no Vertex creation found in VertexList.add")
    point_param = add.params[1]
    def is_lookup(node) -> bool:
        return any(isinstance(c.func, ast.Attribute) and c.func.attr in ("find_unique", "find_duplicated") and attr_chain(c.func.value) == "self" for c in node_calls(node))

    for n in creates:
        st = n.stmt
        create_call = [c for c in node_calls(n) if _creates_vertex(c)][0]
        # (1) path rule: no path may reach the creation without having attempted a lookup
        holds, path = g.must_pass(g.entry, n, is_lookup)
        if not holds:
            r.bad(add, f"a path creates a Vertex without any prior lookup (unconditional duplicate): {fmt_path(path)}", st, key=f"create:{ast.unparse(create_call)[:40]}")
            continue
        # (2) the creation must be the failure branch of that lookup (enumerated idioms)
        p = parent(st)
        handler = None
        while p is not None and p is not add.node:
            if isinstance(p, ast.ExceptHandler):
                handler = p
                break
            p = parent(p)
        r.require(handler is not None, "VertexList.add: creation is not inside an 'except VertexNotFoundError' handler - lookup-failure idiom not recognised")
        tr = parent(handler)
        exc = ast.unparse(handler.type) if handler.type is not None else ""
        lookups = [c for s_ in tr.body for c in ast.walk(s_) if isinstance(c, ast.Call) and isinstance(c.func, ast.Attribute) and c.func.attr in ("find_unique", "find_duplicated") and attr_chain(c.func.value) == "self"]
        r.require(bool(lookups) and exc.endswith("VertexNotFoundError"), "VertexList.add: try body without lookup or handler of another exception - idiom not recognised")
        same_pos = all(lk.args and ast.unparse(lk.args[0]) == f"{point_param}.position" for lk in lookups)
        same_point = bool(create_call.args) and ast.unparse(create_call.args[0]) == point_param
        dup = [lk for lk in lookups if lk.func.attr == "find_duplicated"]
        patch_ok = True
        if dup:
            # the DuplicatedEntry registered afterwards must use the same patch list as the lookup
            reg = [c for s_ in handler.body for c in ast.walk(s_) if isinstance(c, ast.Call) and attr_chain(c.func) == "DuplicatedEntry"]
            patch_ok = bool(reg) and all(len(c.args) == 2 and ast.unparse(c.args[1]) == ast.unparse(dup[0].args[1]) for c in reg)
        r.check(
            same_pos and same_point and patch_ok,
            add,
            f"creation guarded by {lookups[0].func.attr}({point_param}.position...)",
            "Vertex creation is not the failure path of a lookup with the same position/patches"
            + ("" if same_pos and same_point else " (lookup and creation use different points)")
            + ("" if patch_ok else " (duplicate not registered, or registered under a different patch list than it was looked up with)"),
            st,
            key=f"create-after:{lookups[0].func.attr}",
        )
    return r


lookup_before_create.rule_id = "C05.LOOKUP-BEFORE-CREATE"


# --------------------------------------------------------------------------------------------
def dense_index(repo: Repo) -> RuleRun:
    r = RuleRun(PROP, "C05.DENSE-INDEX", floor=5, what="who may construct a Vertex / store Vertex.index / mutate the vertex table")
    vertex = repo.cls("items.vertex.Vertex")
    vlist = repo.cls("lists.vertex_list.VertexList")
    sites = []
    for fn in repo.all_functions():
        for cs in repo.callsites(fn):
            if getattr(cs.node, "_property_read", False):
                continue
            tgt = repo.resolve_expr(fn.module, cs.node.func) if isinstance(cs.node.func, (ast.Name, ast.Attribute)) else None
            is_ctor = tgt is vertex or (isinstance(tgt, FuncInfo) and tgt.cls is vertex and tgt.name == "from_point")
            if not is_ctor and isinstance(cs.node.func, ast.Name) and cs.node.func.id == "cls" and fn.cls is vertex:
                continue  # Vertex.from_point's own cls(...)
            if is_ctor:
                sites.append((fn, cs.node))
    r.require(len(sites) >= 2, f"expected at least 2 Vertex creation sites, found {len(sites)}")
    for fn, call in sites:
        inside = fn.cls is vlist
        if not inside:
            r.bad(fn, "a Vertex is created outside VertexList (bypasses the position lookup and the dense numbering)", call, key="create-outside")
            continue
        idx = call.args[1] if len(call.args) > 1 else None
        idx_ok = idx is not None and ast.unparse(idx) == "len(self.vertices)"
        # immediately followed by self.vertices.append(<that vertex>)
        st = call
        while not isinstance(st, ast.stmt):
            st = parent(st)
        body = getattr(parent(st), "body", [])
        nxt = None
        for lst in (getattr(parent(st), "body", []), getattr(parent(st), "orelse", []), getattr(parent(st), "finalbody", [])):
            if st in lst and lst.index(st) + 1 < len(lst):
                nxt = lst[lst.index(st) + 1]
        tname = st.targets[0].id if isinstance(st, ast.Assign) and isinstance(st.targets[0], ast.Name) else None
        app_ok = (
            isinstance(nxt, ast.Expr)
            and isinstance(nxt.value, ast.Call)
            and attr_chain(nxt.value.func) == "self.vertices.append"
            and tname is not None
            and ast.unparse(nxt.value.args[0]) == tname
        )
        r.check(idx_ok and app_ok, fn, "index = len(self.vertices), appended at once", f"Vertex created with index {ast.unparse(idx) if idx is not None else '?'}{'' if app_ok else ' and not appended to self.vertices by the next statement'}: numbering is no longer dense / equal to the list position", st, key=f"create:{fn.name}:{len([i for i in r.instances])}")
    # stores to .index of a vertex outside Vertex.__init__
    for fn in repo.all_functions():
        for n in walk_shallow(fn.node):
            if isinstance(n, (ast.Assign, ast.AugAssign, ast.AnnAssign)):
                tgts = n.targets if isinstance(n, ast.Assign) else [n.target]
                for t in tgts:
                    if isinstance(t, ast.Attribute) and t.attr == "index":
                        from ..model import TypeEnv, st_cls

                        bc = st_cls(TypeEnv(repo, fn).type_of(t.value))
                        if bc is not None and vertex in repo.mro(bc):
                            ok = fn.cls is vertex and fn.name == "__init__"
                            r.check(ok, fn, "Vertex.index set in the constructor", "Vertex.index is stored outside Vertex.__init__", n, key="store-index")
    # mutators of VertexList.vertices
    mut_methods = {"append", "extend", "insert", "pop", "remove", "clear", "sort", "reverse", "__setitem__", "__delitem__"}
    for fn in repo.all_functions():
        for n in walk_shallow(fn.node):
            hit = None
            if isinstance(n, ast.Call) and isinstance(n.func, ast.Attribute) and n.func.attr in mut_methods:
                ch = attr_chain(n.func.value) or ""
                if ch.endswith("vertex_list.vertices") or (fn.cls is vlist and ch == "self.vertices"):
                    hit = n
            elif isinstance(n, (ast.Assign, ast.AugAssign, ast.Delete)):
                tgts = n.targets if isinstance(n, (ast.Assign, ast.Delete)) else [n.target]
                for t in tgts:
                    base = t.value if isinstance(t, ast.Subscript) else t
                    ch = attr_chain(base) or ""
                    if ch.endswith("vertex_list.vertices") or (fn.cls is vlist and ch == "self.vertices"):
                        hit = n
            if hit is not None:
                ok = fn.cls is vlist and fn.name in ("add", "clear", "__init__")
                r.check(ok, fn, f"vertex table mutated in VertexList.{fn.name}", "the vertex table is mutated outside VertexList.add/clear", hit, key=f"mutate:{fn.name}")
    return r


dense_index.rule_id = "C05.DENSE-INDEX"


# --------------------------------------------------------------------------------------------
def _tol_compare(fn: FuncInfo):
    """Comparisons of a distance (norm of a difference) against a named constant:
    list of (Compare node, op name, lhs is norm-of-difference, rhs text)."""
    out = []
    for n in ast.walk(fn.node):
        if isinstance(n, ast.Compare) and len(n.ops) == 1:
            lhs, rhs = n.left, n.comparators[0]
            txt_r = ast.unparse(rhs)
            is_norm = isinstance(lhs, ast.Call) and (attr_chain(lhs.func) or "").split(".")[-1] == "norm" and lhs.args and isinstance(lhs.args[0], ast.BinOp) and isinstance(lhs.args[0].op, ast.Sub)
            is_const = isinstance(rhs, (ast.Name, ast.Attribute)) and txt_r.split(".")[-1].isupper()
            if txt_r.split(".")[-1] == "TOL" or (is_norm and is_const):
                out.append((n, type(n.ops[0]).__name__, bool(is_norm), txt_r))
    return out


def tolerance_siblings(repo: Repo) -> RuleRun:
    from .. import tolerance

    r = RuleRun(PROP, "C05.TOLERANCE-SIBLINGS", floor=3, what="find_unique, find_duplicated, Point.__eq__: purely absolute coincidence test with the library tolerance TOL, strict; both lookups scan the whole table")
    fns = [
        repo.func("lists.vertex_list.VertexList.find_unique"),
        repo.func("lists.vertex_list.VertexList.find_duplicated"),
        repo.func("construct.point.Point.__eq__"),
    ]
    tolerance.check_functions(r, repo, [f.qualname for f in fns], scan_modules=("lists.vertex_list",))
    for fn in fns:
        for i, c in enumerate(tolerance.tests_in(repo, fn.module, fn.node)):
            if c.rtol == 0 and not c.negated:
                r.check(c.strict, fn, "strict '<'", f"{fn.qualname} tests coincidence with '{ast.unparse(c.node)}' - the siblings use the strict 'norm(a - b) < TOL'", c.node, key=f"strict#{i}")
    # find_unique / find_duplicated scan the complete table
    for fn, table in ((fns[0], "self.vertices"), (fns[1], "self.duplicated")):
        loops = [n for n in walk_shallow(fn.node) if isinstance(n, ast.For)]
        ok = any(attr_chain(lp.iter) == table for lp in loops)
        r.check(ok, fn, f"scans {table}", f"{fn.qualname} does not scan the whole of {table}", fn.node, key="scan")
    return r


tolerance_siblings.rule_id = "C05.TOLERANCE-SIBLINGS"


# --------------------------------------------------------------------------------------------
def eq_hash(repo: Repo) -> RuleRun:
    r = RuleRun(PROP, "C05.EQ-HASH", floor=2, what="Vertex.__eq__ and __hash__ are functions of index alone")
    vertex = repo.cls("items.vertex.Vertex")
    for name in ("__eq__", "__hash__"):
        fn = vertex.methods.get(name)
        r.require(fn is not None, f"Vertex.{name} vanished (sets of vertices rely on index identity)")
        attrs = {n.attr for n in ast.walk(fn.node) if isinstance(n, ast.Attribute)}
        rets = [n for n in walk_shallow(fn.node) if isinstance(n, ast.Return)]
        ok = attrs == {"index"} and len(rets) >= 1
        if name == "__eq__":
            # abstract run: equal iff the indexes are equal, whatever the positions
            from ..peval import Evaluator as _Ev, NotEvaluable as _NE, Obj as _Obj, Sym as _Sym

            def _v(i, pos):
                return _Obj(f"v{i}{pos}", cls=vertex, index=i, position=_Sym(pos))

            try:
                same = _Ev(repo=repo, module=fn.module).call_funcinfo(fn, [_v(3, "A"), _v(3, "B")])
                diff = _Ev(repo=repo, module=fn.module).call_funcinfo(fn, [_v(3, "A"), _v(4, "A")])
                ok = ok and same is True and diff is False
            except _NE:
                ok = False
        r.check(ok, fn, "depends on index only", f"Vertex.{name} reads {sorted(attrs)}; equality/hash must be the index alone (Wire coincidence and vertex sets rely on it)", fn.node, key=name)
    return r


eq_hash.rule_id = "C05.EQ-HASH"


# --------------------------------------------------------------------------------------------
def slave_only(repo: Repo) -> RuleRun:
    r = RuleRun(PROP, "C05.SLAVE-ONLY", floor=8, what="only slave patches reach VertexList.add; merge/master/slave/writer agree; duplicate keys sorted")
    fn = repo.func("mesh.Mesh._add_vertices")
    patches = {"bottom": "pb", "top": "pt", "front": "pf", "right": "pr", "back": "pk", "left": "pl"}
    # the last scenario chains two merged pairs: 'pr' is the slave of 'pf' AND the master of 'pk' - it stays a slave
    for slave, merged in (({"pb"}, None), ({"pf", "pr"}, None), (set(), None), ({"pt", "pl", "pk"}, None), ({"pr", "pk"}, [("pf", "pr"), ("pr", "pk")])):
        op, res, calls = eval_add_vertices(repo, slave, patches, merged)
        ok = len(calls) == 8
        detail = ""
        for k, args in enumerate(calls):
            want = {patches[s] for s in hexa.sides_of_corner(k)} & slave
            got = set(args[1]) if len(args) > 1 and args[1] is not None else None
            if got != want:
                ok = False
                detail = f"corner {k}: patches handed to VertexList.add are {got}, expected the slave patches at that corner {want}"
                break
        r.check(ok, fn, f"slave set {sorted(slave)}: every corner hands over exactly its slave patches", f"Mesh._add_vertices with slave patches {sorted(slave)}: {detail}", fn.node, key=f"slave={','.join(sorted(slave)) or 'none'}")

    # merge / master / slave / writer positions
    pl = repo.cls("lists.patch_list.PatchList")
    merge = repo.func("lists.patch_list.PatchList.merge")
    this = Obj("pl", cls=pl)
    this.set("merged", [])
    _run(Evaluator(repo=repo, module=merge.module), merge, [this, "M", "S"])
    stored = this.get("merged")
    r.check(stored == [["M", "S"]], merge, "merge stores [master, slave]", f"PatchList.merge('M','S') stores {stored}", merge.node, key="merge")
    this.set("merged", [["M1", "S1"], ["M2", "S2"]])
    mp = _run(Evaluator(repo=repo, module=merge.module), repo.func("lists.patch_list.PatchList.master_patches"), [this])
    sp = _run(Evaluator(repo=repo, module=merge.module), repo.func("lists.patch_list.PatchList.slave_patches"), [this])
    r.check(mp == {"M1", "M2"}, repo.func("lists.patch_list.PatchList.master_patches"), "master_patches = position 0", f"master_patches = {mp}", key="master")
    r.check(sp == {"S1", "S2"}, repo.func("lists.patch_list.PatchList.slave_patches"), "slave_patches = position 1", f"slave_patches = {sp} (a master patch would get duplicated vertices)", key="slave")
    isl = repo.func("lists.patch_list.PatchList.is_slave")
    r.check(_run(Evaluator(repo=repo, module=merge.module), isl, [this, "S2"]) is True and _run(Evaluator(repo=repo, module=merge.module), isl, [this, "M1"]) is False, isl, "is_slave agrees", "PatchList.is_slave disagrees with slave_patches", key="is_slave")
    # writer: pair[0] pair[1] in the mergePatchPairs loop
    desc = repo.func("lists.patch_list.PatchList.description")
    loops = [n for n in walk_shallow(desc.node) if isinstance(n, ast.For) and attr_chain(n.iter) == "self.merged"]
    # what the writer prints is decided semantically: abstract run of description() on two declared pairs (C05.MERGE-ROLES runs more)
    this.set("patches", {})
    this.set("default", {})
    try:
        text = Evaluator(repo=repo, module=desc.module).call_funcinfo(desc, [this])
    except (Raised, NotEvaluable) as err:
        raise AnalysisError(f"PatchList.description not evaluable on two merged pairs: {err}") from err
    written = re.findall(r"\((\S+) (\S+)\)", text if isinstance(text, str) else "")
    r.check(written == [("M1", "S1"), ("M2", "S2")], desc, "mergePatchPairs printed as (master slave)", f"mergePatchPairs entries for the declared pairs (M1 S1), (M2 S2) are printed as {written} (blockMesh expects (master slave))", loops[0] if loops else desc.node, key="writer")
    # sorted keys on both sides
    de = repo.func("lists.vertex_list.DuplicatedEntry.__init__")
    fd = repo.func("lists.vertex_list.VertexList.find_duplicated")
    s1 = any(isinstance(n, ast.Call) and attr_chain(n.func) == "sorted" for n in ast.walk(de.node))
    s2 = any(isinstance(n, ast.Call) and isinstance(n.func, ast.Attribute) and n.func.attr == "sort" for n in ast.walk(fd.node)) or any(isinstance(n, ast.Call) and attr_chain(n.func) == "sorted" for n in ast.walk(fd.node))
    cmp_ = any(isinstance(n, ast.Compare) and isinstance(n.ops[0], ast.Eq) and "patches" in ast.unparse(n) for n in ast.walk(fd.node))
    r.check(s1 and s2 and cmp_, fd, "duplicate keys sorted when stored and when looked up", "the slave-patch key of a duplicated vertex is not sorted on both the storing and the looking-up side: the same set in another order would create another copy", fd.node, key="sorted-key")
    return r


slave_only.rule_id = "C05.SLAVE-ONLY"


# --------------------------------------------------------------------------------------------
def corner_patches(repo: Repo) -> RuleRun:
    r = RuleRun(PROP, "C05.CORNER-PATCHES", floor=8, what="get_patches_at_corner = patches of the three sides meeting at the corner, for all 8 corners")
    r.exhaustive = True
    fn = repo.func("construct.operations.operation.Operation.get_patches_at_corner")
    patches = {"bottom": "pb", "top": "pt", "front": "pf", "right": "pr", "back": "pk", "left": "pl"}
    for k in range(8):
        op = real_operation(repo)
        for side, name in patches.items():
            if side in LATERAL:
                op.get("side_patches")[[hexa.face_edge_side(i) for i in range(4)].index(side)] = name
            else:
                op.get(f"{side}_face").set("patch_name", name)
        res = _run(Evaluator(repo=repo, module=fn.module), fn, [op, k])
        want = {patches[s] for s in hexa.sides_of_corner(k)}
        r.check(res == want, fn, f"corner {k}: {sorted(want)}", f"get_patches_at_corner({k}) = {sorted(res) if isinstance(res, set) else res}; the sides meeting at corner {k} are {sorted(hexa.sides_of_corner(k))} -> {sorted(want)}", fn.node, key=f"corner{k}")
    # Nones are dropped
    op = real_operation(repo)
    res = _run(Evaluator(repo=repo, module=fn.module), fn, [op, 0])
    r.check(res == set(), fn, "unassigned sides give no patch", f"get_patches_at_corner on an operation without patches returns {res}", fn.node, key="none")
    return r


corner_patches.rule_id = "C05.CORNER-PATCHES"

def add_scenarios(repo: Repo) -> RuleRun:
    """Abstract run of VertexList.add over sequences of (position, slave patches): positions are
    integers on a line (coincident iff equal), everything else is the repository's own code.
    Mesh._add_vertices always hands over a list (possibly empty), so the mixed use of the
    ``slave_patches=None`` form after a slave duplicate (a path assembly never takes, and which
    creates a fresh master vertex on every call) is deliberately not part of the scenarios."""
    r = RuleRun(PROP, "C05.ADD-SCENARIOS", floor=14, what="VertexList.add on symbolic insertion sequences: sharing iff same position and same slave-patch set, dense indexes, a shared vertex carries the projections of all its corners")
    from .c18 import dist_hook

    vl_cls = repo.cls("lists.vertex_list.VertexList")
    add = repo.func("lists.vertex_list.VertexList.add")

    def run_sequence(seq):
        vl = Obj("vertex_list", cls=vl_cls)
        vl.set("vertices", [])
        vl.set("duplicated", [])

        vertex_cls = repo.cls("items.vertex.Vertex")

        def hook(ev, call: ast.Call, name):
            # the constructor call inside Vertex.from_point (cls(position, index)); from_point itself is the repository's code
            if name in ("cls", "Vertex") and len(call.args) == 2:
                args = [ev.eval(a) for a in call.args]
                v = Obj(f"V{args[1]}", cls=vertex_cls)
                v.set("position", args[0])
                v.set("index", args[1])
                v.set("projected_to", [])
                v.set("description", f"<{v._name}>")
                return v
            return dist_hook()(ev, call, name)

        out = []
        for entry in seq:
            pos, patches = entry[0], entry[1]
            pt = Obj("point")
            pt.set("position", pos)
            pt.set("projected_to", list(entry[2]) if len(entry) > 2 else [])
            ev = Evaluator(repo=repo, module=add.module, call_hook=hook)
            try:
                v = ev.call_funcinfo(add, [vl, pt, None if patches is None else list(patches)])
            except Raised as err:
                return ("raised", err.exc_name), vl
            except NotEvaluable as err:
                raise AnalysisError(f"VertexList.add not evaluable on the symbolic model: {err}") from err
            out.append(v)
        return out, vl

    scenarios = [
        ("same point twice, no merge", [(1, []), (1, [])]),
        ("two different points", [(1, []), (2, [])]),
        ("same point twice, no patch list", [(1, None), (1, None)]),
        ("slave copy then master side", [(1, ["s"]), (1, []), (1, ["s"]), (1, [])]),
        ("master side then slave copy", [(1, []), (1, ["s"]), (1, []), (1, ["s"])]),
        ("two slave patches in either order", [(1, ["Wall_s", "inlet_s"]), (1, ["inlet_s", "Wall_s"])]),
        ("two different slave sets at one point, revisited", [(1, ["a"]), (1, ["b"]), (1, ["b"]), (1, ["a"]), (1, ["a", "b"]), (1, ["b", "a"])]),
        ("several points and patch sets interleaved", [(1, ["a"]), (2, ["a"]), (1, []), (2, ["a"]), (3, []), (1, ["a"]), (3, [])]),
        ("slave set at another point is not reused", [(1, ["a"]), (2, ["a"]), (2, [])]),
        ("a copy made for two slave patches does not serve a corner on one of them", [(1, ["inner", "wall"]), (1, ["wall"]), (1, []), (1, ["inner"]), (1, ["wall"])]),
        ("patch names that differ only in where the underscore is", [(1, ["inner", "wall"]), (1, ["inner_wall"])]),
    ]
    # projections declared on corners that share a vertex: the vertex carries the union, whatever the order, each label once,
    # and the label lists of the operations' own points are left as they were
    scenarios += [
        ("projected corner added after a plain one", [(1, [], []), (1, [], ["terrain"])]),
        ("projected corner added before a plain one", [(1, [], ["terrain"]), (1, [], [])]),
        ("two corners projected to different surfaces", [(1, [], ["terrain"]), (1, [], ["walls"]), (2, [], [])]),
        ("the same projection declared on both corners", [(1, [], ["terrain"]), (1, [], ["terrain"])]),
        ("projection on the slave copy only", [(1, ["s"], ["terrain"]), (1, [], []), (1, ["s"], ["walls"])]),
    ]
    for label, seq in scenarios:
        seq = [tuple(e) for e in seq]
        res, vl = run_sequence(seq)
        if isinstance(res, tuple):
            r.bad(add, f"VertexList.add raises {res[1]} for the sequence '{label}': {seq}", add.node, key=label)
            continue
        problems = []
        want_labels = {}
        for e, v in zip(seq, res):
            want_labels.setdefault(id(v), (v, set()))[1].update(e[2] if len(e) > 2 else [])
        for v, want in want_labels.values():
            got = v.get("projected_to") if v.has("projected_to") else None
            if not isinstance(got, list) or set(got) != want or len(got) != len(set(got)):
                problems.append(f"vertex {v._name} is projected to {got}; the corners it stands for declare {sorted(want)}")
        seq = [e[:2] for e in seq]
        # expected partition: same vertex iff same position and same patch set (None == 'not a slave corner': shares with the master copy)
        def keyof(pos, patches):
            return (pos, frozenset(patches) if patches else frozenset())

        groups = {}
        for (pos, patches), v in zip(seq, res):
            groups.setdefault(keyof(pos, patches), []).append(v)
        for k, vs in groups.items():
            if any(v is not vs[0] for v in vs):
                problems.append(f"corners at position {k[0]} with slave patches {sorted(k[1])} got different vertices {[v._name for v in vs]}")
        reps = {}
        for k, vs in groups.items():
            if vs[0]._name in reps and reps[vs[0]._name] != k:
                problems.append(f"vertex {vs[0]._name} is shared between {reps[vs[0]._name]} and {k}")
            reps[vs[0]._name] = k
        verts = vl.get("vertices")
        if [v.get("index") for v in verts] != list(range(len(verts))):
            problems.append(f"vertex indexes {[v.get('index') for v in verts]} are not the list positions")
        if len(verts) != len(groups):
            problems.append(f"{len(verts)} vertices created for {len(groups)} distinct (position, slave set) classes")
        r.check(not problems, add, f"{label}: {len(verts)} vertices", f"VertexList.add, sequence '{label}' {seq}: " + "; ".join(problems), add.node, key=label)
        # the written list: entry k is vertex k (the hex lines refer to vertices by their index)
        if label in ("slave copy then master side", "several points and patch sets interleaved", "two different slave sets at one point, revisited"):
            desc = repo.func("lists.vertex_list.VertexList.description")
            try:
                text = Evaluator(repo=repo, module=desc.module).call_funcinfo(desc, [vl])
            except (Raised, NotEvaluable) as err:
                raise AnalysisError(f"VertexList.description not evaluable after the sequence '{label}': {err}") from err
            order = re.findall(r"<(V\d+)>", text if isinstance(text, str) else "")
            want_order = [v._name for v in verts]
            r.check(
                order == want_order,
                desc,
                f"{label}: written order {order}",
                f"VertexList.description after the sequence '{label}' lists the vertices as {order}; their indexes - which the hex, edge and face entries use - are {want_order}: entry k of the written "
                "list is no longer vertex k (copies made for slave patches are listed out of place)",
                desc.node,
                key=f"written-order:{label}",
            )
    return r


add_scenarios.rule_id = "C05.ADD-SCENARIOS"

def merge_state_survives(repo: Repo) -> RuleRun:
    """The slave-duplicate exception rests on the merged pairs the user declared; clear()/backport() must not drop them (a re-assembly would then share vertices across the merged interface). Same rule as C12.CLEAR-COMPLETE."""
    from ..report import rebrand
    from . import c12

    return rebrand(c12.clear_complete(repo), PROP, "C05.USER-STATE-SURVIVES")


merge_state_survives.rule_id = "C05.USER-STATE-SURVIVES"

def no_stale_lazy_cache(repo: Repo) -> RuleRun:
    """The set of slave patches is read from the merged pairs as they are NOW: no value cached on first use survives a later merge_patches()."""
    from ..memo import lazy_cache_rule

    return lazy_cache_rule(repo, PROP, "C05.NO-STALE-CACHE", ('lists.', 'mesh'))


no_stale_lazy_cache.rule_id = "C05.NO-STALE-CACHE"

def merge_roles(repo: Repo) -> RuleRun:
    """'vertices on a slave patch are duplicated': which of the two names is the slave is what the USER said - merge_patches(master,
    slave) - whatever the names look like. Abstract run of PatchList.merge and of the readers of the pair list (master_patches,
    slave_patches, is_slave, description) for names in either alphabetical order, repeated and chained pairs."""
    r = RuleRun(PROP, "C05.MERGE-ROLES", floor=4, what="PatchList.merge keeps the roles the caller gave (first name master, second slave) for names in either alphabetical order; the readers agree with it")
    pl_cls = repo.cls("lists.patch_list.PatchList")
    merge = repo.func("lists.patch_list.PatchList.merge")
    for label, pairs in (
        ("master sorts first", [("a_master", "z_slave")]),
        ("slave sorts first", [("rotor_side", "casing_side")]),
        ("two pairs, mixed order", [("rotor_side", "casing_side"), ("a_master", "z_slave")]),
        ("the same pair requested twice", [("rotor_side", "casing_side"), ("rotor_side", "casing_side")]),
        ("one master with two slaves", [("m", "s2"), ("m", "a1")]),
    ):
        pl = Obj("patch_list", cls=pl_cls)
        pl.set("patches", {})
        pl.set("default", {})
        pl.set("merged", [])
        try:
            for ms in pairs:
                Evaluator(repo=repo, module=merge.module).call_funcinfo(merge, [pl, ms[0], ms[1]])
            ev = Evaluator(repo=repo, module=merge.module)
            masters = ev.call_funcinfo(repo.find_method(pl_cls, "master_patches"), [pl])
            slaves = ev.call_funcinfo(repo.find_method(pl_cls, "slave_patches"), [pl])
            flags = {nm: ev.call_funcinfo(repo.find_method(pl_cls, "is_slave"), [pl, nm]) for ms in pairs for nm in ms}
            text = ev.call_funcinfo(repo.find_method(pl_cls, "description"), [pl])
        except (Raised, NotEvaluable) as err:
            raise AnalysisError(f"PatchList.merge / readers not evaluable: {err}") from err
        want_m, want_s = {ms[0] for ms in pairs}, {ms[1] for ms in pairs}
        problems = []
        if set(masters) != want_m or set(slaves) != want_s:
            problems.append(f"master_patches = {sorted(masters)}, slave_patches = {sorted(slaves)}; declared masters {sorted(want_m)}, slaves {sorted(want_s)}")
        wrong_flags = {nm: fl for nm, fl in flags.items() if fl != (nm in want_s)}
        if wrong_flags:
            problems.append(f"is_slave gives {wrong_flags}")
        written = re.findall(r"\((\S+) (\S+)\)", text if isinstance(text, str) else "")
        if set(written) != set(pairs):
            problems.append(f"mergePatchPairs lists {written}")
        r.check(not problems, merge, f"{label}: roles kept", f"PatchList.merge, {label} {pairs}: " + "; ".join(problems) + " - the roles of the two patches depend on their names: vertices are duplicated on the wrong side of the interface", merge.node, key=f"merge:{label}")
    return r


merge_roles.rule_id = "C05.MERGE-ROLES"

def patch_follows_face(repo: Repo, prop: str = PROP, rule: str = "C05.PATCH-FOLLOWS-FACE") -> RuleRun:
    """'vertices on a slave patch are duplicated, all others shared': which corners lie on a slave patch is decided from the patch
    names the faces carry. Inverting (and mirroring, which inverts) an operation swaps its two end faces: every face object keeps
    the patch, the projection and the points it had - they belong to that face of the geometry, not to the role 'top' / 'bottom'.
    Abstract run of Operation.invert and Operation.mirror on an operation whose end faces and sides carry patches."""
    from .c10 import sym_operation

    r = RuleRun(prop, rule, floor=4, what="Operation.invert / mirror swap the end faces as whole objects: a face keeps its patch name, projection and points")
    for meth in ("invert", "mirror"):
        fn = repo.find_method(repo.cls("construct.operations.operation.Operation"), meth)
        r.require(fn is not None, f"Operation.{meth} vanished")
        op = sym_operation(repo)
        bottom, top = op.get("bottom_face"), op.get("top_face")
        bottom.set("patch_name", "pb")
        top.set("patch_name", "pt")
        bottom.set("projected_to", "geo_b")
        op.set("side_patches", ["s0", "s1", "s2", "s3"])
        op.set("side_edges", [Obj(f"side.e{i}", cls=repo.cls("construct.edges.Line")) for i in range(4)])

        def hook(ev, call: ast.Call, name):
            f_ = call.func
            if isinstance(f_, ast.Attribute) and f_.attr == meth and isinstance(f_.value, ast.Call) and attr_chain(f_.value.func) == "super":
                return None  # ElementBase.mirror: reflects the parts where they are
            if isinstance(f_, ast.Attribute) and f_.attr in ("reverse", "invert") and isinstance(ev.eval(f_.value), Obj) and ev.eval(f_.value) is not op:
                return None  # the faces' / edges' own re-orientation (C10.FACE-PERMUTATIONS, C07.REVERSAL)
            return NO_MATCH

        args = [op] if meth == "invert" else [op, Sym("normal"), Sym("origin")]
        try:
            Evaluator(repo=repo, module=fn.module, call_hook=hook).call_funcinfo(fn, args)
        except (Raised, NotEvaluable) as err:
            raise AnalysisError(f"Operation.{meth} not evaluable on the symbolic operation: {err}") from err
        r.check(op.get("top_face") is bottom and op.get("bottom_face") is top, fn, f"{meth}: end faces swapped", f"Operation.{meth} does not swap bottom and top face", fn.node, key=f"{meth}:swap")
        got = {"old bottom": (bottom.get("patch_name"), bottom.get("projected_to")), "old top": (top.get("patch_name"), top.get("projected_to"))}
        r.check(
            got == {"old bottom": ("pb", "geo_b"), "old top": ("pt", None)},
            fn,
            f"{meth}: every face keeps its own patch and projection",
            f"Operation.{meth}: after the swap the face that was the bottom carries patch / projection {got['old bottom']} (had ('pb', 'geo_b')) and the former top {got['old top']} (had ('pt', None)): "
            "a patch given to an end face before the operation was inverted or mirrored ends up on the opposite face of the geometry - for a slave patch of a merged pair the wrong corners are duplicated "
            "and the real slave side is welded to the master side",
            fn.node,
            key=f"{meth}:patches",
        )
        r.check(op.get("side_patches") == ["s0", "s1", "s2", "s3"], fn, f"{meth}: side patches untouched", f"Operation.{meth} changes the side patches to {op.get('side_patches')}", fn.node, key=f"{meth}:sides")
    return r


patch_follows_face.rule_id = "C05.PATCH-FOLLOWS-FACE"


def labels_private(repo: Repo, prop: str = PROP, rule: str = "C05.LABELS-PRIVATE") -> RuleRun:
    """A vertex is shared by the corners of several operations and collects their projections (VertexList._reuse adds labels in
    place). It must do so in a list of its own: if Vertex.from_point keeps the label list of the first operation's Point, the
    neighbours' labels are written into that operation - and stay there when the neighbour is deleted, or when the operation is
    used in another mesh. Abstract run of Vertex.from_point followed by VertexList._reuse with a second point."""
    r = RuleRun(prop, rule, floor=3, what="a vertex created from a point has its own projection-label list and its own position; merging a neighbour's labels into the vertex leaves the first operation's point as it was")
    vcls = repo.cls("items.vertex.Vertex")
    pcls = repo.cls("construct.point.Point")
    fp = repo.find_method(vcls, "from_point")
    reuse = repo.func("lists.vertex_list.VertexList._reuse")
    r.require(fp is not None, "Vertex.from_point vanished")
    first = Obj("first-operation's point", cls=pcls)
    labels = ["walls"]
    pos = Sym("position-array-of-the-point")
    first.set("projected_to", labels)
    first.set("position", pos)
    made = {}

    def hook(ev, call: ast.Call, name):
        if name == "cls" or (name or "").split(".")[-1] == "Vertex":
            args = [ev.eval(a) for a in call.args]
            v = Obj("vertex", cls=vcls)
            v.set("position", Sym("copy-of-position") if args and args[0] is pos else (args[0] if args else None))
            v.set("index", args[1] if len(args) > 1 else None)
            v.set("projected_to", [])
            made["v"] = v
            return v
        return NO_MATCH

    try:
        vertex = Evaluator(repo=repo, module=fp.module, call_hook=hook).call_funcinfo(fp, [Sym("cls"), first, 0])
    except (Raised, NotEvaluable) as err:
        raise AnalysisError(f"Vertex.from_point not evaluable on a symbolic point: {err}") from err
    r.require(isinstance(vertex, Obj), "Vertex.from_point does not return the vertex it creates (on the model)")
    got = vertex.get("projected_to")
    r.check(got == ["walls"], fp, "the vertex carries the point's labels", f"Vertex.from_point gives the vertex the labels {got!r} for a point projected to ['walls']", fp.node, key="labels")
    r.check(
        got is not labels,
        fp,
        "the vertex has its own label list",
        "Vertex.from_point hands the point's own projected_to list to the vertex: VertexList._reuse then adds the labels of every other operation sharing that corner to the FIRST operation's Point - "
        "after that neighbour is deleted (or in a second mesh with this operation alone) the corner is still written 'project (...) (walls terrain)', a projection the user never declared for it",
        fp.node,
        key="own-list",
    )
    second = Obj("second-operation's point", cls=pcls)
    second.set("projected_to", ["terrain"])
    second.set("position", Sym("same-place"))
    try:
        Evaluator(repo=repo, module=reuse.module).call_funcinfo(reuse, [vertex, second])
    except (Raised, NotEvaluable) as err:
        raise AnalysisError(f"VertexList._reuse not evaluable: {err}") from err
    r.check(sorted(vertex.get("projected_to")) == ["terrain", "walls"], reuse, "the shared vertex collects both labels", f"after _reuse the vertex is projected to {vertex.get('projected_to')}", reuse.node, key="merged")
    r.check(first.get("projected_to") == ["walls"] and second.get("projected_to") == ["terrain"], reuse, "both points keep their own labels", f"after the shared vertex collected the labels, the first operation's point is projected to {first.get('projected_to')} and the second's to {second.get('projected_to')}: the model was changed by assembling it", reuse.node, key="points-untouched")
    return r


labels_private.rule_id = "C05.LABELS-PRIVATE"


def no_exact_coordinates(repo: Repo) -> RuleRun:
    """'all others shared': coincident corners are recognised by distance."""
    from ..tolerance import exact_coordinate_equality_rule

    return exact_coordinate_equality_rule(repo, PROP, "C05.NO-EXACT-COORDINATES", ('lists.', 'items.', 'construct.point', 'mesh'))


no_exact_coordinates.rule_id = "C05.NO-EXACT-COORDINATES"


def delete_skip(repo: Repo) -> RuleRun:
    """'the vertex table holds exactly the corners of the blocks': a deleted operation creates no vertices either - the skip comes before anything is made for it. Same rule as C06.DELETE-SKIP."""
    from ..report import rebrand
    from . import c06

    return rebrand(c06.delete_skip(repo), PROP, "C05.DELETE-SKIP")


delete_skip.rule_id = "C05.DELETE-SKIP"


RULES = [lookup_before_create, dense_index, tolerance_siblings, eq_hash, slave_only, corner_patches, add_scenarios, merge_state_survives, no_stale_lazy_cache, merge_roles, patch_follows_face, labels_private, no_exact_coordinates, delete_skip]

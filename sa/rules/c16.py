"""C16 - curve points, lengths and closest-parameter queries are mutually consistent."""

from __future__ import annotations

import ast
from typing import Any, Dict, List, Optional, Set

from ..model import AnalysisError, ClassInfo, FuncInfo, Repo, attr_chain, parent, walk_shallow
from ..peval import NO_MATCH, Evaluator, NotEvaluable, Obj, Raised, Sym
from ..report import RuleRun
from .c10 import _run

PROP = "C16"
TITLE = "Curve points, lengths and closest-parameter queries are mutually consistent"
DECIDES = (
    "the parameters at which InterpolatedCurveBase.get_length samples the curve depend (backward slice) on where the knots are - the "
    "interpolator's params / the point coordinates - not only on their number, and both parameter orders are handled "
    "(C16.KNOT-DEPENDENCE); OnCurveEdge takes param_start from vertex_1 and param_end from vertex_2 and uses them in that order for "
    "points and length; DiscreteCurve.discretize, evaluated on symbolic points, returns the inclusive range between the two "
    "parameters in the requested direction (C16.END-PAIRING); every concrete curve class provides the four abstract methods with "
    "compatible signatures and every discretize includes both end parameters (C16.INTERFACE)."
    " 'parameter not given' is decided with 'is None', never by truth value, so 0 is a parameter (C16.NONE-TESTS); nothing computed from movable coordinates is memoised (C16.NO-MEMO)."
    ' get_length samples both end parameters and every knot strictly between them, in the direction of travel (abstract run, part of C16.KNOT-DEPENDENCE); every get_closest_param implementation depends on self.bounds (C16.BOUNDS-RESPECTED); no parameter range starts at the literal 0 in methods that use self.bounds (C16.RANGE-START).'
    " Queries do not write into views of the curve's own array (C16.QUERIES-READ-ONLY); functions kept in interpolators read only fixed configuration through self (C16.DEEP-COPY); the circle's normal is used normalised (C16.UNIT-AXIS)."
)
NOT_DECIDED = "additivity of lengths, optimality of the closest parameter, interpolation accuracy (numerics)."
ASSUMPTIONS = ["np.linspace(a, b, num=n) includes both end points unless endpoint=False is passed"]


def backward_slice(fn: FuncInfo, seeds: Set[str]) -> Set[str]:
    """Names and attribute chains the seed variables (transitively) depend on inside fn."""
    deps: Dict[str, Set[str]] = {}

    def reads(e: ast.AST) -> Set[str]:
        out = set()
        for n in ast.walk(e):
            if isinstance(n, ast.Name):
                out.add(n.id)
            elif isinstance(n, ast.Attribute):
                ch = attr_chain(n)
                if ch:
                    out.add(ch)
        return out

    for n in ast.walk(fn.node):
        if isinstance(n, ast.Assign):
            for t in n.targets:
                for nm in ast.walk(t):
                    if isinstance(nm, ast.Name):
                        deps.setdefault(nm.id, set()).update(reads(n.value))
        elif isinstance(n, ast.AugAssign) and isinstance(n.target, ast.Name):
            deps.setdefault(n.target.id, set()).update(reads(n.value))
        elif isinstance(n, (ast.For, ast.comprehension)):
            for nm in ast.walk(n.target):
                if isinstance(nm, ast.Name):
                    deps.setdefault(nm.id, set()).update(reads(n.iter))
        elif isinstance(n, ast.Expr) and isinstance(n.value, ast.Call) and isinstance(n.value.func, ast.Attribute) and isinstance(n.value.func.value, ast.Name):
            # x.reverse() / x.append(y): x depends on the arguments and on the guard
            deps.setdefault(n.value.func.value.id, set()).update(*[reads(a) for a in n.value.args] or [set()])
        if isinstance(n, ast.If):
            # control dependence of everything assigned in the branches
            for sub in ast.walk(n):
                if isinstance(sub, ast.Assign):
                    for t in sub.targets:
                        for nm in ast.walk(t):
                            if isinstance(nm, ast.Name):
                                deps.setdefault(nm.id, set()).update(reads(n.test))
    seen: Set[str] = set()
    work = list(seeds)
    while work:
        x = work.pop()
        if x in seen:
            continue
        seen.add(x)
        base = x.split(".")[0]
        for d in deps.get(x, set()) | (deps.get(base, set()) if base != x else set()):
            if d not in seen:
                work.append(d)
    return seen


def knot_dependence(repo: Repo) -> RuleRun:
    r = RuleRun(PROP, "C16.KNOT-DEPENDENCE", floor=2, what="sample parameters of the interpolated-curve length depend on the knot positions")
    fn = repo.func("construct.curves.interpolated.InterpolatedCurveBase.get_length")
    # the list of parameters the curve function is evaluated at
    seeds: Set[str] = set()
    for n in ast.walk(fn.node):
        if isinstance(n, (ast.ListComp, ast.GeneratorExp)) and isinstance(n.elt, ast.Call) and attr_chain(n.elt.func) in ("self.function", "self.get_point"):
            it = n.generators[0].iter
            for nm in ast.walk(it):
                if isinstance(nm, ast.Name):
                    seeds.add(nm.id)
    r.require(bool(seeds), "get_length: 'self.function(t) for t in <params>' not found")
    sl = backward_slice(fn, seeds)
    knot_sources = {s for s in sl if s.endswith(".params") or s.endswith(".points") or s in ("self.array", "self.function.points") or s.endswith(".equalize")}
    only_count = {s for s in sl if s.endswith(".segments") or s.endswith("len")}
    r.check(
        bool(knot_sources),
        fn,
        f"sample parameters depend on {sorted(knot_sources)}",
        f"the parameters at which get_length samples the curve depend only on {sorted(s for s in sl if '.' in s)}: the break points are i/segments although the "
        "default parametrisation places the defining points at normalised chord lengths - for unevenly spaced points the length skips the real "
        "corners (points (0,0,0),(1,0,0),(1,5,0): 5.24 instead of 6)",
        fn.node,
        key="slice",
    )
    # abstract run on a symbolic interpolator whose knots sit at the parameters 0, 25, 50, 75, 100 (integers stand for the
    # unevenly spaced normalised chord lengths): the curve is sampled at the two end parameters and at every knot strictly
    # between them, in the direction of travel
    for p_from, p_to, want in ((10, 80, [10, 25, 50, 75, 80]), (80, 10, [80, 75, 50, 25, 10]), (25, 75, [25, 50, 75]), (60, 70, [60, 70]), (75, 25, [75, 50, 25])):
        sampled = []

        def lhook(ev, call: ast.Call, name, sampled=sampled):
            if attr_chain(call.func) in ("self.function", "self.get_point") and call.args:
                t = ev.eval(call.args[0])
                sampled.append(t)
                return Sym(f"pt{t}")
            last = (name or "").split(".")[-1]
            if last == "polyline_length" and call.args:
                return ev.eval(call.args[0])
            if last in ("array", "asarray") and call.args:
                return ev.eval(call.args[0])
            if last == "_get_params":
                return tuple(ev.eval(a_) for a_ in call.args)
            return NO_MATCH

        crv = Obj("curve", cls=fn.cls)
        crv.set("function", Obj("interpolator", params=[0, 25, 50, 75, 100]))
        crv.set("bounds", (0, 100))
        crv.set("array", Obj("array"))
        crv.set("segments", 4)
        res = _run(Evaluator(repo=repo, module=fn.module, call_hook=lhook), fn, [crv, p_from, p_to])
        r.check(
            sampled == want,
            fn,
            f"get_length({p_from}, {p_to}) samples the curve at {want}",
            f"InterpolatedCurveBase.get_length({p_from}, {p_to}) on a curve with knots at 0, 25, 50, 75, 100 samples the parameters {sampled}; expected {want} - both end parameters and every knot strictly "
            "between them, in the direction from the first to the second parameter (a missing reversal makes the polyline jump back and forth; break points other than the knots cut the curve's corners)",
            fn.node,
            key=f"samples:{p_from}->{p_to}",
        )
    # the interpolator's params honour equalize
    params = repo.func("construct.curves.interpolators.InterpolatorBase.params")
    ok = any(isinstance(n, ast.If) and "equalize" in ast.unparse(n.test) for n in ast.walk(params.node)) and "cumsum" in ast.unparse(params.node)
    r.check(ok, params, "params = normalised cumulative chord length when equalize", "InterpolatorBase.params no longer switches on equalize / accumulates chord lengths", params.node, key="params")
    return r


knot_dependence.rule_id = "C16.KNOT-DEPENDENCE"


# --------------------------------------------------------------------------------------------
def end_pairing(repo: Repo) -> RuleRun:
    r = RuleRun(PROP, "C16.END-PAIRING", floor=12, what="vertex_1 <-> param_start, vertex_2 <-> param_end; inclusive, direction-aware discretisation")
    oce = repo.cls("items.edges.curve.OnCurveEdge")
    for prop, vertex in (("param_start", "vertex_1"), ("param_end", "vertex_2")):
        m = oce.methods.get(prop)
        r.require(m is not None, f"OnCurveEdge.{prop} vanished")
        uses = {n.attr for n in ast.walk(m.node) if isinstance(n, ast.Attribute) and n.attr in ("vertex_1", "vertex_2")}
        r.check(uses == {vertex} and "get_closest_param" in ast.unparse(m.node), m, f"{prop} from {vertex}", f"OnCurveEdge.{prop} is derived from {sorted(uses)}; it must be the curve parameter closest to {vertex}", m.node, key=prop)
    # abstract run of point_array / length down to the curve itself (the edge-data layer OnCurve/Spline is evaluated, not
    # stubbed), with ascending and descending parameters: the curve must be traversed from vertex_1 to vertex_2
    for qn, data_cls in (
        ("items.edges.curve.OnCurveEdge.point_array", "construct.edges.OnCurve"),
        ("items.edges.curve.OnCurveEdge.length", "construct.edges.OnCurve"),
        ("items.edges.curve.SplineEdge.point_array", "construct.edges.Spline"),
    ):
        fn = repo.func(qn)
        for ps_v, pe_v in ((2, 7), (7, 2)):
            rec = []
            curve = Obj("curve")

            def hook(ev, call: ast.Call, nm, rec=rec, curve=curve):
                if isinstance(call.func, ast.Attribute) and call.func.attr in ("discretize", "get_length"):
                    if ev.eval(call.func.value) is curve:
                        rec.append((call.func.attr, [ev.eval(a) for a in call.args]))
                        return [Sym("first"), Sym("inner1"), Sym("inner2"), Sym("last")] if call.func.attr == "discretize" else Sym("len")
                last_ = (nm or "").split(".")[-1]
                if last_ == "concatenate" and call.args:
                    out_ = []
                    for part in ev.eval(call.args[0]):
                        out_.extend(part if isinstance(part, list) else [part])
                    return out_
                if last_ == "DiscreteCurve":
                    return Obj("polyline", length=Sym("polyline-length-of-written-points"))
                return NO_MATCH

            this = Obj("edge", cls=fn.cls)
            this.set("param_start", ps_v)
            this.set("param_end", pe_v)
            data = Obj("data", cls=repo.cls(data_cls))
            data.set("curve", curve)
            data.set("n_points", 2)
            this.set("data", data)
            this.set("vertex_1", Obj("v1", position=Sym("P1")))
            this.set("vertex_2", Obj("v2", position=Sym("P2")))
            # the method is looked up on the class again: a removed override falls back to the base implementation
            fn_now = repo.find_method(fn.cls, fn.name) or fn
            res = _run(Evaluator(repo=repo, module=fn_now.module, call_hook=hook), fn_now, [this])
            if fn.name == "length" and fn.cls is oce:
                rec[:] = [c_ for c_ in rec if c_[0] == "get_length"]
            ok = len(rec) == 1 and list(rec[0][1][:2]) == [ps_v, pe_v]
            r.check(
                ok,
                fn,
                f"{rec[0][0] if rec else '?'}({ps_v}, {pe_v}) reaches the curve in that order",
                f"{fn.qualname} with param_start={ps_v} (vertex_1) and param_end={pe_v} (vertex_2) asks the curve for {rec}; the curve must be traversed from param_start to "
                "param_end, also when the curve is parametrised against the edge (otherwise the points are written from vertex_2 to vertex_1)",
                fn.node,
                key=f"{fn.cls.name}.{fn.name}:order:{'asc' if ps_v < pe_v else 'desc'}",
            )
            if fn.name == "point_array" and fn.cls is oce and ps_v < pe_v:
                r.check([repr(x) for x in res] == ["inner1", "inner2"] if isinstance(res, list) else False, fn, "end points (the vertices themselves) dropped, inner points kept", f"OnCurveEdge.point_array returns {res}: the written point list must be the inner points between the two vertices", fn.node, key="OnCurveEdge.point_array:slice")
    # CurveEdgeBase default params cover all data points
    ceb = repo.cls("items.edges.curve.CurveEdgeBase")
    this = Obj("edge", cls=ceb)
    d = Obj("data")
    d.set("n_points", 7)
    this.set("data", d)
    ps = _run(Evaluator(repo=repo, module=ceb.module), ceb.methods["param_start"], [this])
    pe = _run(Evaluator(repo=repo, module=ceb.module), ceb.methods["param_end"], [this])
    r.check((ps, pe) == (0, 6), ceb, "spline/polyLine: parameters 0 .. n_points-1", f"CurveEdgeBase parameters are ({ps}, {pe}) for 7 points; expected (0, 6)", key="CurveEdgeBase.params")
    # Spline stores n_points = number of given points and representation = kind
    sp = repo.func("construct.edges.Spline.__init__")
    ok = any(isinstance(k, ast.keyword) and k.arg == "n_points" and ast.unparse(k.value) == "len(points)" for c in ast.walk(sp.node) if isinstance(c, ast.Call) for k in c.keywords)
    r.check(ok, sp, "n_points = len(points)", "Spline no longer records the number of its points (param_end of the edge depends on it)", sp.node, key="Spline.n_points")

    # DiscreteCurve.discretize on symbolic points
    dd = repo.func("construct.curves.discrete.DiscreteCurve.discretize")
    pts = [Sym(f"P{i}") for i in range(6)]

    def dhook(ev, call: ast.Call, nm):
        if nm in ("np.flip", "numpy.flip"):
            return list(reversed(ev.eval(call.args[0])))
        return NO_MATCH

    for a, b in ((0, 5), (1, 3), (3, 1), (5, 0), (2, 2), (None, None), (4, None)):
        this = Obj("curve", cls=repo.cls("construct.curves.discrete.DiscreteCurve"))
        this.set("array", list(pts))
        this.set("bounds", (0, 5))
        res = _run(Evaluator(repo=repo, module=dd.module, call_hook=dhook), dd, [this, a, b])
        a2, b2 = (0 if a is None else a), (5 if b is None else b)
        want = pts[a2 : b2 + 1] if a2 <= b2 else list(reversed(pts[b2 : a2 + 1]))
        r.check(res == want, dd, f"discretize({a},{b}) = {res}", f"DiscreteCurve.discretize({a}, {b}) returns {res}; expected {want} (both end points included, in the requested direction)", dd.node, key=f"discretize:{a}:{b}")
    # a parameter between two points (legal on a curve given by points): get_point(p) and the ends of discretize(p, q) are siblings -
    # whichever point a fractional parameter stands for, all of them answer with the same one
    gp = repo.find_method(repo.cls("construct.curves.discrete.DiscreteCurve"), "get_point")
    r.require(gp is not None, "DiscreteCurve.get_point vanished")

    def fhook(ev, call: ast.Call, nm):
        if nm in ("int", "round") and len(call.args) == 1:
            v = ev.eval(call.args[0])
            if isinstance(v, (int, float)) and not isinstance(v, bool):
                return int(v) if nm == "int" else round(v)
        if nm in ("np.floor", "np.ceil", "math.floor", "math.ceil", "np.rint") and len(call.args) == 1:
            import math as _m

            v = ev.eval(call.args[0])
            if isinstance(v, (int, float)):
                return {"floor": _m.floor, "ceil": _m.ceil, "rint": round}[nm.split(".")[-1]](v)
        return dhook(ev, call, nm)

    for p_, q_ in ((4.6, 1.2), (1.2, 4.6), (2.5, 3.5), (0.7, 4.4)):
        outs = {}
        for what, fn_, args in (("get_point(p)", gp, [p_]), ("get_point(q)", gp, [q_]), ("discretize(p, q)", dd, [p_, q_])):
            this = Obj("curve", cls=repo.cls("construct.curves.discrete.DiscreteCurve"))
            this.set("array", list(pts))
            this.set("bounds", (0, 5))
            ev_ = Evaluator(repo=repo, module=fn_.module, call_hook=fhook)
            ev_.float_arith = True
            outs[what] = _run(ev_, fn_, [this, *args])
        d_ = outs["discretize(p, q)"]
        ok = isinstance(d_, list) and d_ and d_[0] == outs["get_point(p)"] and d_[-1] == outs["get_point(q)"]
        r.check(
            ok,
            dd,
            f"p = {p_}, q = {q_}: discretize(p, q) runs from get_point(p) to get_point(q)",
            f"DiscreteCurve: get_point({p_}) = {outs['get_point(p)']}, get_point({q_}) = {outs['get_point(q)']}, but discretize({p_}, {q_}) = {d_}: a parameter between two points is resolved to one point by "
            "get_point and to another by discretize / get_length (one truncates, the other rounds) - the stretch handed out does not end at the point of its own end parameter",
            dd.node,
            key=f"fractional:{p_}:{q_}",
        )
    for bad in (-1, 6):
        this = Obj("curve", cls=repo.cls("construct.curves.discrete.DiscreteCurve"))
        this.set("array", list(pts))
        this.set("bounds", (0, 5))
        res = _run(Evaluator(repo=repo, module=dd.module, call_hook=dhook), dd, [this, bad, 3])
        r.check(isinstance(res, tuple) and res[0] == "raised", dd, f"parameter {bad} outside the bounds rejected", f"DiscreteCurve.discretize({bad}, 3) returns {res} instead of rejecting a parameter outside the bounds", dd.node, key=f"discretize:bounds:{bad}")
    return r


end_pairing.rule_id = "C16.END-PAIRING"


# --------------------------------------------------------------------------------------------
ABSTRACT = ["get_point", "discretize", "get_length", "get_closest_param"]


def interface(repo: Repo) -> RuleRun:
    r = RuleRun(PROP, "C16.INTERFACE", floor=6, what="concrete curves implement the four abstract methods compatibly; discretisations include both ends")
    base = repo.cls("construct.curves.curve.CurveBase")
    concrete = []
    for cls in sorted(repo.subclasses(base), key=lambda c: c.qualname):
        is_abstract = any(m.is_abstract for m in cls.methods.values()) or "Base" in cls.name
        if is_abstract:
            continue
        concrete.append(cls)
        problems = []
        for name in ABSTRACT:
            m = repo.find_method(cls, name)
            if m is None or (m.cls is base and m.is_abstract and name != "get_closest_param"):
                problems.append(f"{name} not implemented")
                continue
            if m.cls is base and name == "get_closest_param":
                # the base implementation is a usable coarse search; concrete classes call it through super()
                continue
            bm = base.methods[name]
            n_req_base = len(bm.node.args.args) - len(bm.node.args.defaults)
            n_req = len(m.node.args.args) - len(m.node.args.defaults)
            if n_req > n_req_base or len(m.node.args.args) < n_req_base:
                problems.append(f"{name}{tuple(m.params)} is not call-compatible with CurveBase.{name}{tuple(bm.params)}")
        r.check(not problems, cls, "implements get_point/discretize/get_length/get_closest_param", f"{cls.name}: " + "; ".join(problems), cls.node, key="interface")
    r.require(len(concrete) >= 6, f"only {len(concrete)} concrete curve classes found")
    # linspace-based discretisations include both ends
    for fn in sorted(repo.all_functions(), key=lambda f: f.qualname):
        if fn.name != "discretize" or fn.cls is None or base not in repo.mro(fn.cls):
            continue
        for c in ast.walk(fn.node):
            if isinstance(c, ast.Call) and attr_chain(c.func) in ("np.linspace", "numpy.linspace"):
                ep = [k for k in c.keywords if k.arg == "endpoint"]
                ok = not ep or (isinstance(ep[0].value, ast.Constant) and ep[0].value.value is True)
                args_ok = len(c.args) >= 2 and [ast.unparse(a) for a in c.args[:2]] == ["param_from", "param_to"]
                r.check(ok and args_ok, fn, "linspace(param_from, param_to) with both ends", f"{fn.qualname}: '{ast.unparse(c)}' does not sample from param_from to param_to inclusive", c, key="linspace")
    return r


interface.rule_id = "C16.INTERFACE"

def closest_param_search(repo: Repo) -> RuleRun:
    """Abstract run of the coarse search in CurveBase.get_closest_param: the candidate parameters span the
    curve's own bounds and the one returned belongs to the closest discretised point."""
    r = RuleRun(PROP, "C16.CLOSEST-SEARCH", floor=3, what="coarse closest-parameter search: parameters span bounds[0]..bounds[1], one per discretised point, arg-min taken")
    fn = repo.func("construct.curves.curve.CurveBase.get_closest_param")
    for lo, hi, dists in ((Sym("LO"), Sym("HI"), [5, 3, 0, 4, 9]), (-7, 12, [9, 8, 7, 1, 6, 5]), (0, 1, [0, 2, 3]), (2, 5, [4, 4, 4, 1])):
        this = Obj("curve", cls=repo.cls("construct.curves.curve.CurveBase"))
        this.set("bounds", (lo, hi))
        pts = [Sym(f"pt{i}") for i in range(len(dists))]
        calls = {}

        def hook(ev, call: ast.Call, name, pts=pts, dists=dists, calls=calls):
            nm = (name or "").split(".")[-1]
            if name in ("np.array", "np.asarray") and call.args:
                v = ev.eval(call.args[0])
                return v
            if attr_chain(call.func) == "self.discretize":
                calls["discretize"] = [ev.eval(a) for a in call.args]
                return list(pts)
            if nm == "norm" and call.args and isinstance(call.args[0], ast.BinOp):
                a = ev.eval(call.args[0].left)
                b = ev.eval(call.args[0].right)
                p_ = a if a in pts else b
                return dists[pts.index(p_)] if p_ in pts else 0
            if name in ("np.linspace", "numpy.linspace"):
                a, b = ev.eval(call.args[0]), ev.eval(call.args[1])
                num = None
                for kw in call.keywords:
                    if kw.arg == "num":
                        num = ev.eval(kw.value)
                if num is None and len(call.args) > 2:
                    num = ev.eval(call.args[2])
                return [("param", repr(a), repr(b), i, num) for i in range(num)]
            if name in ("np.argmin", "numpy.argmin"):
                v = ev.eval(call.args[0])
                return v.index(min(v))
            if name in ("np.argmax", "numpy.argmax"):
                v = ev.eval(call.args[0])
                return v.index(max(v))
            return NO_MATCH

        try:
            ev_ = Evaluator(repo=repo, module=fn.module, call_hook=hook)
            ev_.float_arith = True
            res = _run(ev_, fn, [this, Sym("query")])
        except AnalysisError:
            if isinstance(lo, Sym):
                continue  # the parameter is computed arithmetically, not picked from linspace: the numeric bounds decide
            raise
        k = dists.index(min(dists))
        want = ("param", repr(lo), repr(hi), k, len(dists))
        if isinstance(res, (int, float)) and not isinstance(lo, Sym):
            # computed directly: it must be the k-th of len(dists) equally spaced values from bounds[0] to bounds[1]
            exact = lo + (hi - lo) * k / (len(dists) - 1)
            res = want if abs(res - exact) <= 1e-12 * max(1.0, abs(exact)) else res
        r.check(
            res == want,
            fn,
            f"bounds ({lo}, {hi}), {len(dists)} samples: parameter #{k} of linspace(bounds[0], bounds[1])",
            f"CurveBase.get_closest_param on a curve with bounds ({lo}, {hi}) and sample distances {dists} returns {res}; expected parameter #{k} of {len(dists)} values spanning "
            f"bounds[0]..bounds[1] - a search that assumes the range starts at 0 starts the refinement on the wrong stretch of curves with another lower bound",
            fn.node,
            key=f"bounds=({lo},{hi})",
        )
    return r


closest_param_search.rule_id = "C16.CLOSEST-SEARCH"


def stale_alias(repo: Repo) -> RuleRun:
    """An object may not cache the inner array of a transformable part whose transforms REBIND that
    array (Array.rotate assigns self.points anew): the cached reference then describes the old geometry."""
    from ..model import TypeEnv, st_cls

    r = RuleRun(PROP, "C16.STALE-ALIAS", floor=2, what="nobody keeps a reference to an attribute that transformations rebind")
    elem = repo.cls("base.element.ElementBase")
    rebound: Dict[str, Set[str]] = {}
    for cls in [elem, *repo.subclasses(elem)]:
        for name in ("translate", "rotate", "scale", "mirror", "shear", "update", "move_to"):
            m = cls.methods.get(name)
            if m is None:
                continue
            for n in walk_shallow(m.node):
                if isinstance(n, ast.Assign):
                    for t in n.targets:
                        if isinstance(t, ast.Attribute) and isinstance(t.value, ast.Name) and t.value.id == m.params[0]:
                            rebound.setdefault(cls.qualname, set()).add(t.attr)
    r.require(any("points" in v for k, v in rebound.items() if k.endswith("Array")), "Array no longer rebinds self.points in a transformation (anchor of this rule)")
    n_sites = 0
    for fn in sorted(repo.all_functions(), key=lambda f: f.qualname):
        if fn.cls is None or fn.name != "__init__":
            continue
        env = None
        for n in walk_shallow(fn.node):
            if not (isinstance(n, (ast.Assign, ast.AnnAssign)) and n.value is not None):
                continue
            tgts = n.targets if isinstance(n, ast.Assign) else [n.target]
            if not any(isinstance(t, ast.Attribute) and isinstance(t.value, ast.Name) and t.value.id == fn.params[0] for t in tgts):
                continue
            if env is None:
                env = TypeEnv(repo, fn)
            # stores of a whole transformable object are fine; stores of <obj>.<rebound attr> are stale aliases
            v = n.value
            src_cls = st_cls(env.type_of(v)) if isinstance(v, (ast.Name, ast.Attribute)) else None
            if isinstance(v, ast.Attribute):
                owner = st_cls(env.type_of(v.value))
                if owner is not None:
                    attrs = set()
                    for c in repo.mro(owner):
                        attrs |= rebound.get(c.qualname, set())
                    if attrs:
                        n_sites += 1
                        r.check(
                            v.attr not in attrs,
                            fn,
                            f"stores {ast.unparse(v)} (not rebound by transformations)",
                            f"{fn.qualname} keeps a reference to {ast.unparse(v)}, but {owner.name} assigns a NEW '{v.attr}' in rotate/scale/mirror: after such a transformation the stored reference "
                            "still holds the old coordinates (an interpolated curve would no longer pass through its transformed defining points)",
                            n,
                            key=f"{ast.unparse(tgts[0])}",
                        )
            elif src_cls is not None and any(rebound.get(c.qualname) for c in repo.mro(src_cls)):
                n_sites += 1
                r.ok(fn, f"stores the {src_cls.name} object itself ({ast.unparse(v)})", key=f"{ast.unparse(tgts[0])}")
    r.require(n_sites >= 2, f"only {n_sites} stores of transformable parts found")
    return r


stale_alias.rule_id = "C16.STALE-ALIAS"

def none_tests(repo: Repo) -> RuleRun:
    """discretize(0, b) / get_length(0, b) start at parameter 0: 'parameter not given' is decided with 'is None', never by truth value."""
    from ..optional import none_tests_rule

    return none_tests_rule(repo, PROP, "C16.NONE-TESTS", ("construct.curves", "construct.edges", "items.edges", "optimize.clamps"), floor=2)


none_tests.rule_id = "C16.NONE-TESTS"

def no_memo(repo: Repo) -> RuleRun:
    """The end parameters, points and length of a curve edge follow its vertices: nothing computed from positions is memoised."""
    from ..memo import memo_rule

    return memo_rule(repo, PROP, "C16.NO-MEMO")


no_memo.rule_id = "C16.NO-MEMO"

def bounds_respected(repo: Repo) -> RuleRun:
    """The closest parameter is searched within the curve's OWN parameter range: every implementation of get_closest_param
    (the base method and each override) reads self.bounds - itself, through super() or through what it calls. An override
    that clips or searches with constants is right only for curves with the default range."""
    r = RuleRun(PROP, "C16.BOUNDS-RESPECTED", floor=2, what="every get_closest_param implementation depends on self.bounds")
    base = repo.cls("construct.curves.curve.CurveBase")
    for cls in [base, *sorted(repo.subclasses(base), key=lambda c: c.qualname)]:
        m_ = cls.methods.get("get_closest_param")
        if m_ is None:
            continue
        seen_bounds = False
        funcs = set(repo.reachable([m_])) | {m_}
        # super().get_closest_param(...) delegates to the next implementation in the MRO
        for n in ast.walk(m_.node):
            if isinstance(n, ast.Call) and isinstance(n.func, ast.Attribute) and n.func.attr == "get_closest_param" and isinstance(n.func.value, ast.Call) and attr_chain(n.func.value.func) == "super":
                for b in repo.mro(cls)[1:]:
                    if "get_closest_param" in b.methods:
                        funcs |= set(repo.reachable([b.methods["get_closest_param"]])) | {b.methods["get_closest_param"]}
                        break
        for f_ in funcs:
            if f_.cls is not None and f_.name in ("__init__",):
                continue
            for n in ast.walk(f_.node):
                if isinstance(n, ast.Attribute) and n.attr == "bounds" and isinstance(n.ctx, ast.Load):
                    seen_bounds = True
        r.check(
            seen_bounds,
            m_,
            "the search depends on self.bounds",
            f"{m_.qualname} never reads self.bounds (neither itself nor through super() or the methods it calls): the returned parameter cannot follow a custom parameter range - for a curve "
            "extended beyond its defining points the closest parameter is clipped to the default range",
            m_.node,
            key="bounds",
        )
    return r


bounds_respected.rule_id = "C16.BOUNDS-RESPECTED"

def range_start(repo: Repo) -> RuleRun:
    """A curve's parameter range starts at self.bounds[0]. A method of the curve hierarchy that works with the curve's own range
    (it reads self.bounds) but starts a sub-range at the literal 0 - get_length(0, p), linspace(0, self.bounds[1], n) - is right
    only for curves whose range starts at 0."""
    r = RuleRun(PROP, "C16.RANGE-START", floor=3, what="methods that use self.bounds never start a parameter range at the literal 0")
    base = repo.cls("construct.curves.curve.CurveBase")
    range_calls = ("get_length", "discretize", "linspace", "arange", "get_point")
    for cls in [base, *sorted(repo.subclasses(base), key=lambda c: c.qualname)]:
        for m_ in sorted(cls.methods.values(), key=lambda f: f.name):
            if not any(isinstance(n, ast.Attribute) and n.attr == "bounds" for n in ast.walk(m_.node)):
                continue
            bad = []
            for n in ast.walk(m_.node):
                if isinstance(n, ast.Call) and (attr_chain(n.func) or "").split(".")[-1] in range_calls and n.args and isinstance(n.args[0], ast.Constant) and n.args[0].value == 0 and not isinstance(n.args[0].value, bool) and len(n.args) >= 2:
                    bad.append(n)
            r.check(
                not bad,
                m_,
                "parameter ranges start at self.bounds[0]",
                f"{m_.qualname} works with self.bounds but starts a parameter range at the literal 0 ('{ast.unparse(bad[0])[:60] if bad else ''}'): for a curve whose range starts elsewhere "
                "(bounds=(-1, 2), an arc from 2*pi to 6*pi) the range is wrong or outside the curve",
                bad[0] if bad else m_.node,
                key="range-start",
            )
    return r


range_start.rule_id = "C16.RANGE-START"

def no_stale_lazy_cache(repo: Repo) -> RuleRun:
    """Knot parameters and interpolation functions follow the points: hand-written caches are reset by invalidate()."""
    from ..memo import lazy_cache_rule

    return lazy_cache_rule(repo, PROP, "C16.NO-STALE-CACHE", ('construct.curves',))


no_stale_lazy_cache.rule_id = "C16.NO-STALE-CACHE"

def unit_axis(repo: Repo) -> RuleRun:
    """'discretize, get_point and get_length describe the same curve': the circle's normal is used normalised wherever points are computed from it."""
    from ..affine import unit_axis_rule

    return unit_axis_rule(repo, PROP, "C16.UNIT-AXIS")


unit_axis.rule_id = "C16.UNIT-AXIS"

def deep_copy(repo: Repo) -> RuleRun:
    """'a copy of a curve is a curve of its own': no function kept in a curve or its interpolator reads rebuildable state of the object it was created in. Same rule as C09.DEEP-COPY."""
    from ..report import rebrand
    from . import c09

    return rebrand(c09.deep_copy(repo), PROP, "C16.DEEP-COPY")


deep_copy.rule_id = "C16.DEEP-COPY"

def queries_read_only(repo: Repo) -> RuleRun:
    """'discretize, get_point, get_length and the closest-parameter query describe the same curve' - before and after any of them was called: queries do not write into the curve's own array."""
    from ..alias import inplace_on_view_rule

    return inplace_on_view_rule(repo, PROP, "C16.QUERIES-READ-ONLY", ("construct.curves", "construct.array", "items.edges"))


queries_read_only.rule_id = "C16.QUERIES-READ-ONLY"

def zero_length(repo: Repo) -> RuleRun:
    """'the length between two parameters is additive over a split' - also when the split is at an end: L(a, a) = 0. Abstract run of
    DiscreteCurve.get_length (with discretize, Array.__getitem__ and functions.polyline_length below it) on a five-point model for
    equal, ascending and descending parameters: equal parameters give 0 without an exception, the others reach the polyline sum
    with the points between the two parameters, in the direction of travel."""
    from ..peval import Evaluator, NotEvaluable, Obj, Raised, Sym

    r = RuleRun(PROP, "C16.ZERO-LENGTH", floor=6, what="DiscreteCurve.get_length: 0 for equal parameters, otherwise the polyline through the points between the parameters in the direction of travel")
    cls = repo.cls("construct.curves.discrete.DiscreteCurve")
    gl = repo.find_method(cls, "get_length")
    r.require(gl is not None, "DiscreteCurve.get_length vanished")
    pts = [Sym(f"q{i}") for i in range(5)]
    summed = []

    def hook(ev, call, name):
        nm = (name or "").split(".")[-1]
        if nm == "shape" and call.args:
            v = ev.eval(call.args[0])
            if isinstance(v, list):
                return (len(v), 3)
        if nm == "flip" and call.args:
            v = ev.eval(call.args[0])
            if isinstance(v, list):
                return list(reversed(v))
        if nm == "len" and call.args:
            v = ev.eval(call.args[0])
            if isinstance(v, Sym):
                return 3  # a point has three coordinates
        if nm == "sum" and (name or "").split(".")[0] in ("np", "numpy"):
            return Sym("polyline-sum")
        if nm in ("array", "asarray") and call.args:
            return ev.eval(call.args[0])
        return NO_MATCH

    for a, b in ((2, 2), (0, 0), (4, 4), (0, 4), (1, 3), (3, 1), (4, 0)):
        curve = Obj("curve", cls=cls)
        arr = Obj("array", cls=repo.cls("construct.array.Array"))
        arr.set("points", list(pts))
        curve.set("array", arr)
        curve.set("bounds", (0, 4))
        ev = Evaluator(repo=repo, module=gl.module, call_hook=hook)
        ev.opaque_arith = True
        try:
            got = ev.call_funcinfo(gl, [curve, a, b])
            exc = None
        except Raised as err:
            got, exc = None, err.exc_name
        except NotEvaluable as err:
            raise AnalysisError(f"DiscreteCurve.get_length({a}, {b}) not evaluable on the five-point model: {err}") from err
        if a == b:
            ok = exc is None and isinstance(got, (int, float)) and got == 0
            r.check(ok, gl, f"get_length({a}, {a}) = 0", f"DiscreteCurve.get_length({a}, {a}) {'raises ' + exc if exc else 'returns ' + repr(got)}: the length between equal parameters must be 0 (additivity over a split at an end point; an edge whose two vertices snap to the same curve point has length 0)", gl.node, key=f"length:{a}-{b}")
        else:
            ok = exc is None and got is not None and not (isinstance(got, (int, float)) and got == 0)
            r.check(ok, gl, f"get_length({a}, {b}): polyline through the points in between", f"DiscreteCurve.get_length({a}, {b}) {'raises ' + exc if exc else 'returns ' + repr(got)} on a five-point curve", gl.node, key=f"length:{a}-{b}")
    return r


zero_length.rule_id = "C16.ZERO-LENGTH"

# (method, attribute) pairs that may be written outside constructors / transformations, with the reason
CURVE_STATE_WRITERS = {
    ("construct.curves.interpolators.InterpolatorBase.__call__", "function"): "the interpolation function is rebuilt on demand after invalidate() (C16.NO-STALE-CACHE checks the invalidation)",
    ("construct.curves.interpolators.InterpolatorBase.__call__", "_valid"): "flag of the same on-demand rebuild",
    ("construct.curves.interpolators.InterpolatorBase.invalidate", "_valid"): "the invalidation itself",
}


def queries_stateless(repo: Repo) -> RuleRun:
    """'the closest-parameter query returns a parameter whose point is at least as close ... as any densely sampled point' - for
    every query, whatever was asked before: points, lengths and closest parameters are functions of the curve and the arguments.
    A query method that stores something on the curve (the last result as the next starting guess) makes the answer depend on
    the history of calls. In the curve classes only constructors, the transformations and the listed on-demand rebuild write to
    self."""
    r = RuleRun(PROP, "C16.QUERIES-STATELESS", floor=20, what="no query method of a curve class stores anything on the curve (results do not depend on earlier queries)")
    WRITERS = ("__init__", "__post_init__", "translate", "rotate", "scale", "mirror", "shear", "transform", "invalidate")
    n = 0
    for fn in sorted(repo.all_functions(), key=lambda f_: f_.qualname):
        if fn.cls is None or not fn.module.name.split("classy_blocks.")[-1].startswith("construct.curves"):
            continue
        n += 1
        stores = []
        for node in ast.walk(fn.node):
            targets = node.targets if isinstance(node, ast.Assign) else [node.target] if isinstance(node, (ast.AugAssign, ast.AnnAssign)) else []
            for t in targets:
                for tt in ([t] if not isinstance(t, (ast.Tuple, ast.List)) else t.elts):
                    if isinstance(tt, ast.Attribute) and fn.params and attr_chain(tt.value) == fn.params[0]:
                        stores.append((tt.attr, node))
        unexplained = [(a, nd) for a, nd in stores if fn.name not in WRITERS and (fn.qualname, a) not in CURVE_STATE_WRITERS]
        r.check(
            not unexplained,
            fn,
            f"{fn.qualname}: {'writes ' + str(sorted({a for a, _ in stores})) if stores else 'stores nothing on the curve'}",
            f"{fn.qualname} stores '{unexplained[0][0] if unexplained else ''}' on the curve ('{ast.unparse(unexplained[0][1])[:70] if unexplained else ''}'): a query that remembers something of the call makes later "
            "answers depend on earlier ones - two vertices next to different legs of a hairpin curve get the same parameter, the edge between them length 0",
            unexplained[0][1] if unexplained else fn.node,
            key="stateless",
        )
        # class-level mutable / optional state introduced for a query shows up as an annotated class variable read by a query
    r.require(n >= 20, f"only {n} methods of curve classes found")
    return r


queries_stateless.rule_id = "C16.QUERIES-STATELESS"


def all_components(repo: Repo) -> RuleRun:
    """'an interpolated curve passes through its defining points ... the length ... equals the polyline length': curves live in
    3-D. Every length in the curve package is taken over all three coordinates: a chord computed with hypot(dx, dy), a norm of the
    first two columns or a root of x^2 + y^2 gives a segment parallel to z zero length - two defining points then share one
    parameter and the curve skips that segment. Expected count zero; the matcher is exercised on an embedded example."""
    r = RuleRun(PROP, "C16.ALL-COMPONENTS", floor=1, what="no length in the curve package is computed from fewer than three coordinates (hypot of two components, norm of two columns, sqrt(x^2 + y^2))")

    def hits(tree):
        out = []
        for n in ast.walk(tree):
            if isinstance(n, ast.Call):
                nm = (attr_chain(n.func) or "").split(".")[-1]
                if nm == "hypot":
                    out.append((n, "hypot takes two components"))
                if nm in ("norm", "sqrt", "sum") and n.args:
                    for sub in ast.walk(n.args[0]):
                        if isinstance(sub, ast.Subscript):
                            sl = sub.slice.elts[-1] if isinstance(sub.slice, ast.Tuple) and sub.slice.elts else sub.slice
                            if isinstance(sl, ast.Slice) and isinstance(sl.upper, ast.Constant) and sl.upper.value == 2 and sl.lower is None and isinstance(sub.slice, ast.Tuple):
                                out.append((n, "only the first two columns are used"))
                                break
                if nm == "sqrt" and n.args:
                    idx = set()
                    for sub in ast.walk(n.args[0]):
                        if isinstance(sub, ast.Subscript):
                            sl = sub.slice.elts[-1] if isinstance(sub.slice, ast.Tuple) and sub.slice.elts else sub.slice
                            if isinstance(sl, ast.Constant) and isinstance(sl.value, int):
                                idx.add(sl.value)
                    if idx and idx < {0, 1, 2} and any(isinstance(x, ast.BinOp) and isinstance(x.op, ast.Pow) for x in ast.walk(n.args[0])):
                        out.append((n, f"only the components {sorted(idx)} are squared"))
        return out

    probe = ast.parse("def f(s):\n    a = np.hypot(s[:, 0], s[:, 1])\n    b = np.linalg.norm(s[:, :2], axis=1)\n    c = np.sqrt(s[:, 0] ** 2 + s[:, 1] ** 2)\n    d = np.sqrt(np.sum((p[:-1] - p[1:]) ** 2, axis=1))")
    got = hits(probe)
    if len(got) != 3:
        raise AnalysisError(f"C16.ALL-COMPONENTS: the matcher finds {len(got)} of its 3 embedded positive examples (and must stay silent on the full-length one)")
    n = 0
    for fn in sorted(repo.all_functions(), key=lambda f_: f_.qualname):
        short = fn.module.name.split("classy_blocks.")[-1]
        if not (short.startswith("construct.curves") or short.startswith("construct.array")):
            continue
        n += 1
        for k, (node, why) in enumerate(hits(fn.node)):
            r.bad(fn, f"{fn.qualname}: '{ast.unparse(node)[:80]}' - {why}: a length in the x-y plane only; a segment of the curve that runs parallel to z gets length 0, so two defining points share one parameter and the curve between them is skipped", node, key=f"planar#{k}")
    r.ok(None, f"{n} functions of the curve package scanned; matcher verified on its embedded examples", key="scan")
    return r


all_components.rule_id = "C16.ALL-COMPONENTS"


def invalidate_last(repo: Repo) -> RuleRun:
    """'points, lengths and closest parameters describe the same curve' after a transformation by list, too: a parts getter that invalidates the interpolation is read after everything that re-creates it. Same rule as C09.INVALIDATE-LAST."""
    from ..report import rebrand
    from . import c09

    return rebrand(c09.invalidate_last(repo), PROP, "C16.INVALIDATE-LAST")


invalidate_last.rule_id = "C16.INVALIDATE-LAST"


def no_alias_store(repo: Repo) -> RuleRun:
    """'an interpolated curve passes through its defining points' - its own: the point array of a curve is a private copy, not the caller's array (which another curve built from it, or an in-place translate of that one, would move). Same rule as C09.NO-ALIAS-STORE."""
    from ..report import rebrand
    from . import c09

    return rebrand(c09.no_alias_store(repo), PROP, "C16.NO-ALIAS-STORE")


no_alias_store.rule_id = "C16.NO-ALIAS-STORE"


RULES = [knot_dependence, end_pairing, interface, closest_param_search, stale_alias, none_tests, no_memo, bounds_respected, range_start, no_stale_lazy_cache, unit_axis, deep_copy, queries_read_only, zero_length, queries_stateless, all_components, invalidate_last, no_alias_store]

"""C15 - smoothing moves only free interior points, to their neighbours' average."""

from __future__ import annotations

import ast
from typing import Dict, List

from .. import hexa, tables
from ..model import AnalysisError, Repo, attr_chain, walk_shallow
from ..peval import NO_MATCH, Evaluator, NotEvaluable, Obj, Raised, Sym
from ..report import RuleRun
from .c10 import _run

PROP = "C15"
TITLE = "Smoothing moves only free interior points, to their neighbours' average"
DECIDES = (
    "abstract run of SmootherBase.__init__/fix_indexes/smooth on a symbolic grid: only non-boundary, non-fixed junctions are "
    "written, the value written is np.average(axis=0) over exactly the points of junction.neighbours, and backport() follows "
    "(C15.WRITE-GUARD, C15.AVERAGE); junction neighbours are derived from the cell's edge_pairs - for all 8 hex corners and 4 "
    "quad corners exactly the edge-connected corners, no diagonals (C15.EDGE-NEIGHBOURS); boundary detection marks exactly the "
    "corners of sides without neighbour (C15.BOUNDARY); the copy-back of mesh and sketch smoothers/optimizers uses the same "
    "index table the grid was built from (C15.BACKPORT)."
    ' (C15.WRITE-GUARD also:) a free point next to a fixed one averages over ALL its neighbours; fix_indexes / fix_points accumulate over calls; on a 1-D float model the requested number of sweeps is carried out even when the last free point is already at rest; fix_points matches with a purely absolute test.'
    ' A position that coincides with no grid point pins nothing; a point fixed between two smoothing passes is left alone by the second; the neighbour sum is divided by the number of neighbours (parts of C15.WRITE-GUARD); no cached list of free junctions survives fix_* (C15.NO-STALE-CACHE).'
    ' The sweep count is honoured up to 200 on a model that never converges; index 0 can be fixed (parts of C15.WRITE-GUARD); positions are not rounded on their way through the grid (C15.NO-ROUNDING); the sketch copy-back updates clamped, linked and free points alike (part of C15.BACKPORT).'
)
NOT_DECIDED = "convergence to the fixed point, the regular-lattice solution (numerics)."
ASSUMPTIONS = ["points are symbolic atoms; np.average/np.take/np.array are modelled by their index semantics only"]


def np_hook(record=None):
    def hook(ev: Evaluator, call: ast.Call, name):
        if name in ("np.average", "numpy.average", "np.mean", "numpy.mean"):
            pts = ev.eval(call.args[0])
            axis = None
            for kw in call.keywords:
                if kw.arg == "axis":
                    axis = ev.eval(kw.value)
            if len(call.args) > 1:
                axis = ev.eval(call.args[1])
            return ("avg", tuple(pts), axis)
        if name in ("np.take", "numpy.take"):
            arr = ev.eval(call.args[0])
            idx = ev.eval(call.args[1])
            axis = None
            for kw in call.keywords:
                if kw.arg == "axis":
                    axis = ev.eval(kw.value)
            if axis != 0:
                raise NotEvaluable("np.take without axis=0")
            return [arr[i] for i in idx]
        if name in ("np.array", "np.asarray", "numpy.array", "numpy.asarray") and call.args:
            return ev.eval(call.args[0])
        if name in ("np.max", "numpy.max", "np.amax", "numpy.amax") and len(call.args) == 1 and not call.keywords:
            v = ev.eval(call.args[0])
            flat = [y for x in v for y in (x if isinstance(x, list) else [x])] if isinstance(v, list) else None
            if flat and all(isinstance(y, int) for y in flat):
                return max(flat)
        if name in ("np.zeros", "numpy.zeros", "np.empty", "numpy.empty") and call.args:
            shape = ev.eval(call.args[0])
            if isinstance(shape, tuple) and len(shape) == 2 and isinstance(shape[0], int):
                return [Sym(f"unset{k}") for k in range(shape[0])]  # one atom per row (a point)
        if record is not None and isinstance(call.func, ast.Attribute) and call.func.attr in record["methods"]:
            recv = ev.eval(call.func.value)
            args = [ev.eval(a) for a in call.args]
            record["calls"].append((call.func.attr, recv, args))
            return None
        nm = (name or "").split(".")[-1]
        if nm == "norm" and call.args and isinstance(call.args[0], ast.BinOp) and isinstance(call.args[0].op, ast.Sub):
            a = ev.eval(call.args[0].left)
            b = ev.eval(call.args[0].right)
            for x, y in ((a, b), (b, a)):
                # an off-grid atom 'off@k': k+7 away from grid point k's neighbourhood, never within the tolerance
                if isinstance(x, Sym) and x.name.startswith("off@") and isinstance(y, Sym) and y.name[1:].isdigit():
                    return 7 + abs(int(x.name[4:]) - int(y.name[1:]))
            return 0 if a == b else 1000000
        if nm in ("argmin",) and call.args:
            vals = ev.eval(call.args[0])
            if isinstance(vals, list) and vals and all(isinstance(v, int) for v in vals):
                return vals.index(min(vals))
        if nm == "sum" and name not in ("sum",) and call.args:
            vals = ev.eval(call.args[0])
            axis = None
            for kw in call.keywords:
                if kw.arg == "axis":
                    axis = ev.eval(kw.value)
            if isinstance(vals, list):
                return ("sum", tuple(vals), axis)
        return NO_MATCH

    return hook


def _grid(repo: Repo, n: int, boundary: set, neighbours: Dict[int, List[int]]):
    grid = Obj("grid")
    pts = [Sym(f"x{i}") for i in range(n)]
    grid.set("points", pts)
    js = []
    for i in range(n):
        j = Obj(f"j{i}", cls=None)
        j.set("index", i)
        j.set("is_boundary", i in boundary)
        j.set("cells", {Sym(f"cell{i}_{c}") for c in range(8)})  # an interior hex vertex: 6 neighbours but 8 cells
        js.append(j)
    for i, j in enumerate(js):
        j.set("neighbours", [js[k] for k in neighbours.get(i, [])])
    grid.set("junctions", js)
    return grid, pts, js


class _PointView:
    pass


def write_guard(repo: Repo) -> RuleRun:
    r = RuleRun(PROP, "C15.WRITE-GUARD", floor=6, what="smooth() writes only free interior points, with the neighbour average, then backports")
    sm = repo.cls("optimize.smoother.SmootherBase")
    init = repo.func("optimize.smoother.SmootherBase.__init__")
    smooth = repo.func("optimize.smoother.SmootherBase.smooth")
    fixi = repo.func("optimize.smoother.SmootherBase.fix_indexes")
    fixp = repo.func("optimize.smoother.SmootherBase.fix_points")
    n = 6
    boundary = {0, 5}
    nb = {1: [0, 2], 2: [1, 3, 5], 3: [2, 4], 4: [3, 5, 0]}
    grid, pts, js = _grid(repo, n, boundary, nb)
    # junction.point reads the live grid point
    for j in js:
        j.__dict__["_attrs"].pop("point", None)

    class LivePoint(dict):
        pass

    def run_smooth(fixed_idx, by_position=False, iterations=1):
        grid_, pts_, js_ = _grid(repo, n, boundary, nb)
        this = Obj("smoother", cls=sm)
        rec = {"methods": {"backport"}, "calls": []}

        def hook(ev, call, name):
            base = np_hook(rec)(ev, call, name)
            return base

        ev = Evaluator(repo=repo, module=init.module, call_hook=hook)

        def sum_div(op, a_, b_):
            # np.sum(points, axis=0) / n : the average iff n is the number of summands
            if isinstance(op, ast.Div) and isinstance(a_, tuple) and a_ and a_[0] == "sum" and isinstance(b_, int):
                return ("avg", a_[1], a_[2]) if b_ == len(a_[1]) else ("sum-divided-by", a_[1], b_)
            return NO_MATCH

        ev.binop_hook = sum_div
        # 'point' of a junction = current grid point
        for j in js_:
            pass
        orig_obj_attr = ev.obj_attr

        def obj_attr(obj, attr):
            if attr == "point" and obj in js_:
                return grid_.get("points")[obj.get("index")]
            return orig_obj_attr(obj, attr)

        ev.obj_attr = obj_attr  # type: ignore[method-assign]
        _run(ev, init, [this, grid_])
        inner0 = list(this.get("inner"))
        if by_position:
            _run(ev, fixp, [this, [pts_[i] for i in fixed_idx]])
        else:
            _run(ev, fixi, [this, list(fixed_idx)])
        before = list(grid_.get("points"))
        _run(ev, smooth, [this, iterations])
        after = list(grid_.get("points"))
        return inner0, js_, before, after, rec["calls"], this

    inner0, js_, before, after, calls, this = run_smooth([])
    r.check([j.get("index") for j in inner0] == [1, 2, 3, 4], init, "inner = non-boundary junctions", f"SmootherBase collects junctions {[j.get('index') for j in inner0]} as interior; the boundary junctions are {sorted(boundary)}", init.node, key="inner")
    for fixed_idx, by_pos in (([], False), ([2], False), ([2, 3], False), ([3], True)):
        inner0, js_, before, after, calls, this = run_smooth(fixed_idx, by_pos)
        moved = {i for i in range(n) if after[i] != before[i]}
        want = {1, 2, 3, 4} - set(fixed_idx)
        label = f"fixed={fixed_idx}{' (by position)' if by_pos else ''}"
        r.check(moved == want, smooth, f"{label}: moved {sorted(moved)}", f"smooth() with {label} moves points {sorted(moved)}; only the free interior points {sorted(want)} may move (boundary {sorted(boundary)} and fixed points must stay)", smooth.node, key=f"moved:{label}")
        r.check(any(c[0] == "backport" for c in calls), smooth, "backport() called", "smooth() does not copy the result back (backport not called)", smooth.node, key=f"backport:{label}")
    # fix_points identifies a junction by coincidence within the merge tolerance
    from .. import tolerance

    tolerance.check_functions(r, repo, [fixp.qualname], scan_modules=("optimize.smoother",))
    # value written = average of the *current* neighbour points, axis 0 (Gauss-Seidel order)
    inner0, js_, before, after, calls, this = run_smooth([])
    cur = list(before)
    ok = True
    detail = ""
    for i in (1, 2, 3, 4):
        want = ("avg", tuple(cur[k] for k in nb[i]), 0)
        if after[i] != want and not (isinstance(after[i], tuple) and after[i][0] == "avg" and set(after[i][1]) == set(want[1]) and after[i][2] == 0 and len(after[i][1]) == len(want[1])):
            ok = False
            detail = f"point {i} becomes {after[i]}, expected the axis-0 average of its neighbours {nb[i]}"
            break
        cur[i] = after[i]
    r.check(ok, smooth, "value = average(neighbour points, axis=0)", f"smooth(): {detail}", smooth.node, key="average")
    # ... also next to a fixed interior point: the fixed neighbour still counts in the average of the free one
    for fixed_idx in ([3], [2], [1, 4]):
        inner0, js_, before, after, calls, this = run_smooth(fixed_idx)
        cur = list(before)
        ok, detail = True, ""
        for i in (1, 2, 3, 4):
            if i in fixed_idx:
                continue
            want = ("avg", tuple(cur[k] for k in nb[i]), 0)
            got = after[i]
            if not (isinstance(got, tuple) and got[0] == "avg" and sorted(map(repr, got[1])) == sorted(map(repr, want[1])) and got[2] == 0):
                ok = False
                detail = f"with point(s) {fixed_idx} fixed, point {i} becomes {got}, expected the average of ALL its edge-connected neighbours {nb[i]} (fixed ones included)"
                break
            cur[i] = got
        r.check(ok, smooth, f"fixed={fixed_idx}: free points average over all neighbours", f"smooth(): {detail}", smooth.node, key=f"average:fixed={fixed_idx}")
    # fixing accumulates over calls
    for label, seq in (
        ("fix_indexes twice", [("i", [2]), ("i", [4])]),
        ("fix_points then fix_indexes", [("p", [3]), ("i", [1])]),
        ("fix_indexes then fix_points", [("i", [1]), ("p", [3])]),
        ("fix_indexes with the first and the last index", [("i", [0, 5])]),
        ("fix_indexes([0]) alone", [("i", [0])]),
        ("fix_points on the first point", [("p", [0])]),
    ):
        grid_, pts_, js_ = _grid(repo, n, boundary, nb)
        this = Obj("smoother", cls=sm)
        ev = Evaluator(repo=repo, module=init.module, call_hook=np_hook({"methods": {"backport"}, "calls": []}))
        orig = ev.obj_attr
        ev.obj_attr = lambda obj, attr, orig=orig, grid_=grid_, js_=js_: grid_.get("points")[obj.get("index")] if (attr == "point" and obj in js_) else orig(obj, attr)  # type: ignore[method-assign]
        _run(ev, init, [this, grid_])
        want_fixed = set()
        for kind, idxs in seq:
            want_fixed |= set(idxs)
            if kind == "i":
                _run(ev, fixi, [this, list(idxs)])
            else:
                _run(ev, fixp, [this, [pts_[i] for i in idxs]])
        got_fixed = set(this.get("fixed"))
        r.check(got_fixed == want_fixed, fixi, f"{label}: fixed = {sorted(got_fixed)}", f"after {label} ({seq}) the fixed set is {sorted(got_fixed)}, expected {sorted(want_fixed)}: an earlier fixing call is forgotten and a point the user fixed gets moved", fixi.node, key=f"fixed-accumulates:{label}")
    # a fix position that is no grid point (7 tolerances away from the nearest one) pins nothing
    grid_, pts_, js_ = _grid(repo, n, boundary, nb)
    this = Obj("smoother", cls=sm)
    ev = Evaluator(repo=repo, module=init.module, call_hook=np_hook({"methods": {"backport"}, "calls": []}))
    orig = ev.obj_attr
    ev.obj_attr = lambda obj, attr, orig=orig, grid_=grid_, js_=js_: grid_.get("points")[obj.get("index")] if (attr == "point" and obj in js_) else orig(obj, attr)  # type: ignore[method-assign]
    _run(ev, init, [this, grid_])
    _run(ev, fixp, [this, [pts_[3], Sym("off@2")]])
    got_fixed = set(this.get("fixed"))
    r.check(got_fixed == {3}, fixp, "fix_points([x3, off-grid point]) fixes point 3 only", f"fix_points with one grid point (3) and one position that coincides with no grid point fixes {sorted(got_fixed)}: a position away from every point must not pin the nearest one", fixp.node, key="fix_points:off-grid")
    # fixing between two smoothing passes is honoured by the second pass
    grid_, pts_, js_ = _grid(repo, n, boundary, nb)
    this = Obj("smoother", cls=sm)
    ev = Evaluator(repo=repo, module=init.module, call_hook=np_hook({"methods": {"backport"}, "calls": []}))
    orig = ev.obj_attr
    ev.obj_attr = lambda obj, attr, orig=orig, grid_=grid_, js_=js_: grid_.get("points")[obj.get("index")] if (attr == "point" and obj in js_) else orig(obj, attr)  # type: ignore[method-assign]
    _run(ev, init, [this, grid_])
    _run(ev, smooth, [this, 1])
    _run(ev, fixi, [this, [2]])
    mid = list(grid_.get("points"))
    _run(ev, smooth, [this, 1])
    after2 = list(grid_.get("points"))
    moved2 = {i for i in range(n) if after2[i] != mid[i]}
    r.check(moved2 == {1, 3, 4}, smooth, "smooth(); fix_indexes([2]); smooth(): the second pass leaves point 2 alone", f"after smooth(1), fix_indexes([2]), smooth(1) the second pass moves points {sorted(moved2)}; expected {{1, 3, 4}} - a point fixed after the first pass is still moved (or a list of free points is kept from the first pass)", smooth.node, key="fix-between-passes")
    # boundary points in the fixed set do not count against the free interior points: fixing two outline and two interior points of a
    # map with four interior points still leaves two to be smoothed
    inner0, js_, before, after, calls, this = run_smooth([0, 5, 1, 2])
    moved = {i for i in range(n) if after[i] != before[i]}
    r.check(moved == {3, 4}, smooth, "fixed = 2 outline + 2 interior points: the other 2 interior points are smoothed", f"smooth() with fixed=[0, 5, 1, 2] (two of them on the outline) moves points {sorted(moved)}; expected [3, 4] - the number of fixed indexes says nothing about how many interior points are still free", smooth.node, key="moved:outline-in-fixed")
    # the requested number of sweeps is carried out: a 1-D float model in which the LAST free point already sits at its neighbours'
    # average while the first ones are far from theirs (an early exit that looks at one point only would stop after one sweep)
    nb2 = {0: [1, 4], 1: [0, 2], 2: [1, 3], 3: [2, 5], 4: [5, 0], 5: [3, 4]}
    start = [0.0, 9.0, 9.0, 9.0, 5.0, 10.0]
    for iters, drift in ((1, 0.0), (3, 0.0), (7, 1.0), (150, 1.0), (200, 1.0)):
        # drift > 0: the model's 'average' is mean + drift * (number of averages taken so far), so the points never come to rest and the result tells the number of
        # sweeps exactly - also for counts far beyond what Laplace smoothing needs to converge
        grid_ = Obj("grid")
        pts_ = list(start)
        grid_.set("points", pts_)
        js_ = []
        for i in range(n):
            j = Obj(f"j{i}")
            j.set("index", i)
            j.set("is_boundary", i in boundary)
            js_.append(j)
        for i, j in enumerate(js_):
            j.set("neighbours", [js_[k] for k in nb2.get(i, [])])
        grid_.set("junctions", js_)

        calls_ = {"n": 0}

        def fhook(ev, call, name, drift=drift, calls_=calls_):
            nm = (name or "").split(".")[-1]
            if nm in ("average", "mean") and call.args:
                vals = ev.eval(call.args[0])
                calls_["n"] += 1
                return sum(vals) / len(vals) + drift * calls_["n"]
            if nm == "norm" and call.args:
                return abs(ev.eval(call.args[0]))
            if nm in ("array", "asarray") and call.args:
                return ev.eval(call.args[0])
            if isinstance(call.func, ast.Attribute) and call.func.attr == "backport":
                return None
            return NO_MATCH

        this = Obj("smoother", cls=sm)
        ev = Evaluator(repo=repo, module=init.module, call_hook=fhook, max_steps=400000)
        ev.float_arith = True
        orig = ev.obj_attr
        ev.obj_attr = lambda obj, attr, orig=orig, grid_=grid_, js_=js_: grid_.get("points")[obj.get("index")] if (attr == "point" and obj in js_) else orig(obj, attr)  # type: ignore[method-assign]
        _run(ev, init, [this, grid_])
        _run(ev, smooth, [this, iters])
        ref = list(start)
        k_ = 0
        for _ in range(iters):
            for i in (1, 2, 3, 4):
                k_ += 1
                ref[i] = sum(ref[k] for k in nb2[i]) / len(nb2[i]) + drift * k_
        got = list(grid_.get("points"))
        same = all(isinstance(g, (int, float)) and abs(g - w) < 1e-9 for g, w in zip(got, ref))
        r.check(same, smooth, f"{iters} sweep(s) carried out" + (" (drifting model)" if drift else ""), f"smooth(iterations={iters}) on the 1-D model {start} (neighbours {nb2}) gives {got}; {iters} Gauss-Seidel sweep(s) give {ref} - sweeps are skipped although free points are still away from their neighbours' average", smooth.node, key=f"sweeps:{iters}")
    return r


write_guard.rule_id = "C15.WRITE-GUARD"


# --------------------------------------------------------------------------------------------
def edge_neighbours(repo: Repo) -> RuleRun:
    r = RuleRun(PROP, "C15.EDGE-NEIGHBOURS", floor=14, what="junction neighbours = edge-connected corners (all 8 hex + 4 quad corners)")
    r.exhaustive = True
    cinit = repo.func("optimize.cell.CellBase.__init__")
    addn = repo.func("optimize.junction.Junction.add_neighbour")
    jcls = repo.cls("optimize.junction.Junction")
    for clsname, n, is_edge in (
        ("optimize.cell.HexCell", 8, hexa.is_edge),
        ("optimize.cell.QuadCell", 4, lambda a, b: (a - b) % 4 in (1, 3)),
    ):
        cls = repo.cls(clsname)
        ep = tables.class_table(repo, cls, "edge_pairs")
        want_pairs = {frozenset((a, b)) for a in range(n) for b in range(n) if a < b and is_edge(a, b)}
        got_pairs = [frozenset(p) for p in ep]
        r.check(set(got_pairs) == want_pairs and len(got_pairs) == len(want_pairs), cls, f"{cls.name}.edge_pairs = {len(got_pairs)} edges", f"{cls.name}.edge_pairs = {sorted(map(sorted, got_pairs))} is not the set of the cell's edges (diagonals would make face-diagonal points neighbours)", key=f"{cls.name}.edge_pairs")
        cell = Obj("cell", cls=cls)
        indexes = list(range(100, 100 + n))
        ev = Evaluator(repo=repo, module=cinit.module, call_hook=np_hook())
        _run(ev, cinit, [cell, Sym("grid_points"), indexes])
        conns = cell.get("connections")
        got = sorted(sorted(c.get("indexes")) for c in conns)
        want = sorted(sorted((100 + a, 100 + b)) for a, b in map(tuple, map(sorted, want_pairs)))
        r.check(got == want, cinit, f"{cls.name}: connections follow edge_pairs", f"{cls.name} connections are {got}", cinit.node, key=f"{cls.name}.connections")
        junctions = []
        for k in range(n):
            j = Obj(f"j{k}", cls=jcls)
            j.set("index", 100 + k)
            j.set("cells", {cell})
            j.set("neighbours", [])
            junctions.append(j)
        for a in range(n):
            for b in range(n):
                _run(Evaluator(repo=repo, module=addn.module), addn, [junctions[a], junctions[b]])
        for a in range(n):
            got_n = sorted(j.get("index") - 100 for j in junctions[a].get("neighbours"))
            want_n = sorted(b for b in range(n) if b != a and is_edge(a, b))
            r.check(got_n == want_n, addn, f"{cls.name} corner {a}: neighbours {got_n}", f"{cls.name}: junction at corner {a} gets neighbours {got_n}; edge-connected corners are {want_n}", addn.node, key=f"{cls.name}:corner{a}")
    return r


edge_neighbours.rule_id = "C15.EDGE-NEIGHBOURS"


def irregular_valence(repo: Repo) -> RuleRun:
    """'to their neighbours' average' - of ALL edge-connected neighbours, also at an irregular interior point where five quads
    (or more than six hexahedron edges) meet. Abstract run of GridBase._bind_junction_neighbours on a star of five quads around
    point 0: junction 0 gets its five spoke ends, every rim junction exactly its two or three edge-connected points."""
    from ..peval import Ref

    r = RuleRun(PROP, "C15.IRREGULAR-VALENCE", floor=2, what="_bind_junction_neighbours on a 5-quad star: the centre junction gets all 5 neighbours, rim junctions theirs")
    cinit = repo.func("optimize.cell.CellBase.__init__")
    bind = repo.func("optimize.grid.GridBase._bind_junction_neighbours")
    qcls = repo.cls("optimize.cell.QuadCell")
    jcls = repo.cls("optimize.junction.Junction")
    quads = [(0, 1, 2, 3), (0, 3, 4, 5), (0, 5, 6, 7), (0, 7, 8, 9), (0, 9, 10, 1)]
    cells = []
    for q in quads:
        cell = Obj(f"cell{q}", cls=qcls)
        _run(Evaluator(repo=repo, module=cinit.module, call_hook=np_hook()), cinit, [cell, Sym("grid_points"), list(q)])
        cells.append(cell)
    junctions = []
    for k in range(11):
        j = Obj(f"j{k}", cls=jcls)
        j.set("index", k)
        j.set("cells", {c for c, q in zip(cells, quads) if k in q})
        j.set("neighbours", [])
        j.set("points", Sym("grid_points"))
        junctions.append(j)
    grid = Obj("grid", cls=repo.cls("optimize.grid.QuadGrid"))
    grid.set("junctions", junctions)
    grid.set("cells", cells)
    grid.set("cell_class", Ref(qcls))
    _run(Evaluator(repo=repo, module=bind.module, call_hook=np_hook()), bind, [grid])
    want = {0: {1, 3, 5, 7, 9}}
    for q in quads:
        for i in range(4):
            a, b = q[i], q[(i + 1) % 4]
            want.setdefault(a, set()).add(b)
            want.setdefault(b, set()).add(a)
    bad = []
    for k, j in enumerate(junctions):
        got = sorted(n.get("index") for n in j.get("neighbours"))
        if got != sorted(want[k]):
            bad.append(f"junction {k}: neighbours {got}, expected {sorted(want[k])}")
    r.check(not [b for b in bad if b.startswith("junction 0:")], bind, "centre of the star: 5 neighbours", f"_bind_junction_neighbours on five quads meeting at point 0: {'; '.join(b for b in bad if b.startswith('junction 0:'))} - an interior point of valence 5 is averaged over a subset of its neighbours", bind.node, key="star:centre")
    r.check(not [b for b in bad if not b.startswith("junction 0:")], bind, "rim junctions: their edge-connected points", f"_bind_junction_neighbours on five quads meeting at point 0: {'; '.join([b for b in bad if not b.startswith('junction 0:')][:3])}", bind.node, key="star:rim")
    return r


irregular_valence.rule_id = "C15.IRREGULAR-VALENCE"


# --------------------------------------------------------------------------------------------
def boundary_rule(repo: Repo) -> RuleRun:
    r = RuleRun(PROP, "C15.BOUNDARY", floor=8, what="CellBase.boundary = corners of sides without a neighbour; Junction.is_boundary")
    r.exhaustive = True
    bfn = repo.func("optimize.cell.CellBase.boundary")
    hexcell = repo.cls("optimize.cell.HexCell")
    names = tables.class_table(repo, hexcell, "side_names")
    for free in [set(), {"top"}, {"left", "front"}, set(hexa.SIDE_PLANE)] + [{s} for s in ("bottom", "left", "right", "front", "back")]:
        cell = Obj("cell", cls=hexcell)
        cell.set("indexes", list(range(100, 108)))
        cell.set("neighbours", {nm: (None if nm in free else Obj("other")) for nm in names})
        res = _run(Evaluator(repo=repo, module=bfn.module), bfn, [cell])
        want = {100 + k for s in free for k in hexa.SIDE_CORNERS[s]}
        r.check(res == want, bfn, f"free sides {sorted(free)} -> {len(want)} boundary corners", f"CellBase.boundary with free sides {sorted(free)} = {sorted(res) if isinstance(res, set) else res}; expected the corners of those sides {sorted(want)}", bfn.node, key=f"free={','.join(sorted(free)) or 'none'}")
    isb = repo.func("optimize.junction.Junction.is_boundary")
    for idx, expect in ((101, True), (107, False)):
        cell = Obj("cell", cls=None)
        cell.set("boundary", {100, 101, 102})
        cell.set("indexes", [100, 101, 102, 107])
        j = Obj("j", cls=repo.cls("optimize.junction.Junction"))
        j.set("index", idx)
        j.set("cells", {cell})
        res = _run(Evaluator(repo=repo, module=isb.module), isb, [j])
        r.check(res is expect, isb, f"index {idx}: is_boundary={res}", f"Junction.is_boundary = {res} for a junction {'on' if expect else 'off'} the boundary set", isb.node, key=f"is_boundary:{expect}")
    for label, sets, expect in (
        ("corner of one cell only on the boundary", [{100, 101}, {107}], True),
        ("two cells, the second one has it on the boundary", [{105}, {100, 101}], True),
        ("two interior cells", [{105}, {106}], False),
        # the end of a slit in a quad map / the edge of a baffle: as many cells around the point as a cell has corners, still on the boundary
        ("four quadrilaterals around the end point of a slit, two of them with the point on an open side", [{105}, {101, 102}, {101, 100}, {106}], True),
        ("eight hexahedra around a point on the edge of a baffle", [{105}, {106}, {101}, {107}, {108}, {109}, {110}, {111}], True),
        ("four quadrilaterals around an interior point", [{105}, {106}, {107}, {108}], False),
    ):
        cells = []
        for ci, bset in enumerate(sets):
            c_ = Obj(f"cell{ci}", cls=None)
            c_.set("boundary", set(bset))
            c_.set("indexes", [101] + [200 + 10 * ci + q for q in range(3 if len(sets) <= 4 else 7)])
            cells.append(c_)
        j = Obj("j", cls=repo.cls("optimize.junction.Junction"))
        j.set("index", 101)
        j.set("cells", set(cells))
        res = _run(Evaluator(repo=repo, module=isb.module), isb, [j])
        r.check(res is expect, isb, f"{label}: is_boundary={res}", f"Junction.is_boundary = {res} for {label}: a point is on the boundary as soon as ANY of its cells has it on a side without neighbour (re-entrant corners)", isb.node, key=f"is_boundary:{label}")
    # get_common_side / add_neighbour use the same table
    gcs = repo.func("optimize.cell.CellBase.get_common_side")
    for side in hexa.SIDE_PLANE:
        a = Obj("a", cls=hexcell)
        a.set("indexes", list(range(8)))
        b = Obj("b", cls=hexcell)
        shared = sorted(hexa.SIDE_CORNERS[side])
        b.set("indexes", shared + [50, 51, 52, 53])
        res = _run(Evaluator(repo=repo, module=gcs.module), gcs, [a, b])
        r.check(res == side, gcs, f"shared corners {shared} -> {res}", f"get_common_side for a neighbour sharing corners {shared} returns {res!r}, expected '{side}'", gcs.node, key=f"common:{side}")
    return r


boundary_rule.rule_id = "C15.BOUNDARY"


# --------------------------------------------------------------------------------------------
def backport(repo: Repo) -> RuleRun:
    r = RuleRun(PROP, "C15.BACKPORT", floor=5, what="copy-back uses the index table the grid was built from")
    # sketch: QuadGrid.from_sketch uses sketch.positions / sketch.indexes
    fs = repo.func("optimize.grid.QuadGrid.from_sketch")
    made = {}

    def ctor_hook(ev, call: ast.Call, name):
        if name in ("QuadGrid", "cls", "HexGrid") and len(call.args) == 2:
            made["args"] = [ev.eval(a) for a in call.args]
            return Obj("grid")
        return np_hook()(ev, call, name)

    sketch = Obj("sketch")
    # the third face consists only of points that earlier faces already use (closing quad of an O-grid)
    quads = [[0, 1, 4, 3], [1, 2, 5, 4], [0, 2, 5, 3]]
    sketch.set("indexes", quads)
    sketch.set("positions", [Sym(f"x{i}") for i in range(6)])
    faces = [Obj(f"face{i}") for i in range(3)]
    for fc, quad in zip(faces, quads):
        fc.set("point_array", [sketch.get("positions")[q] for q in quad])
    sketch.set("faces", faces)
    # the grid of a sketch groups its faces (core / shell ...) and need not list them in the order of `faces` / `indexes`
    sketch.set("grid", [[faces[1]], [faces[0], faces[2]]])
    _run(Evaluator(repo=repo, module=fs.module, call_hook=ctor_hook), fs, [Sym("cls"), sketch])
    r.check(made.get("args") == [sketch.get("positions"), quads], fs, "grid built from sketch.positions / sketch.indexes", f"QuadGrid.from_sketch builds the grid from {made.get('args')}", fs.node, key="from_sketch")

    for qn, holder in (("optimize.smoother.SketchSmoother.backport", "smoother"), ("optimize.optimizer.SketchOptimizer.backport", "optimizer")):
        fn = repo.func(qn)
        this = Obj(holder, cls=fn.cls)
        grid = Obj("grid")
        newpts = [Sym(f"y{i}") for i in range(6)]
        grid.set("points", newpts)
        # one clamped point (2), one follower of a link (5, no clamp of its own), the rest free: ALL of them were moved
        grid.set("junctions", [Obj(f"junction{i}", index=i, point=newpts[i], clamp=(Sym("clamp") if i == 2 else None), links=[]) for i in range(6)])
        this.set("grid", grid)
        sk = Obj("sketch", cls=repo.cls("construct.flat.sketches.mapped.MappedSketch"))
        sk.set("indexes", quads)
        sk.set("_faces", faces)
        sk.set("positions", [Sym(f"old{i}") for i in range(6)])
        this.set("sketch", sk)
        rec = {"methods": {"update"}, "calls": []}

        def hook(ev, call, name, rec=rec, faces=faces):
            if isinstance(call.func, ast.Attribute) and call.func.attr == "update":
                recv = ev.eval(call.func.value)
                if recv in faces:
                    rec["calls"].append(("update", recv, [ev.eval(a) for a in call.args]))
                    return None
                return NO_MATCH
            return np_hook()(ev, call, name)

        _run(Evaluator(repo=repo, module=fn.module, call_hook=hook), fn, [this])
        got = {c[1]._name: c[2][0] for c in rec["calls"]}
        want = {f"face{i}": [newpts[q] for q in quad] for i, quad in enumerate(quads)}
        r.check(got == want, fn, "every face updated with the points of its own quad", f"{fn.qualname} updates faces with {got}; expected each face to receive the grid points of its quad {want}", fn.node, key=fn.qualname.split('.')[-2])

    # mesh: HexGrid.from_mesh order == backport order
    fm = repo.func("optimize.grid.HexGrid.from_mesh")
    mesh = Obj("mesh")
    verts = []
    for i in range(4):
        v = Obj(f"v{i}")
        v.set("position", Sym(f"x{i}"))
        verts.append(v)
    mesh.set("vertices", verts)
    blk = Obj("blk")
    blk.set("indexes", [0, 1, 2, 3])
    mesh.set("blocks", [blk])
    made.clear()
    _run(Evaluator(repo=repo, module=fm.module, call_hook=ctor_hook), fm, [Sym("cls"), mesh])
    r.check(made.get("args") == [[Sym(f"x{i}") for i in range(4)], [[0, 1, 2, 3]]], fm, "grid points in vertex order", f"HexGrid.from_mesh builds the grid from {made.get('args')}", fm.node, key="from_mesh")
    for qn in ("optimize.smoother.MeshSmoother.backport", "optimize.optimizer.MeshOptimizer.backport"):
        fn = repo.func(qn)
        this = Obj("holder", cls=fn.cls)
        grid = Obj("grid")
        newpts = [Sym(f"y{i}") for i in range(4)]
        grid.set("points", newpts)
        this.set("grid", grid)
        this.set("mesh", mesh)
        rec = {"methods": {"move_to"}, "calls": []}
        _run(Evaluator(repo=repo, module=fn.module, call_hook=np_hook(rec)), fn, [this])
        got = {c[1]._name: c[2][0] for c in rec["calls"]}
        want = {f"v{i}": newpts[i] for i in range(4)}
        r.check(got == want, fn, "vertex i receives grid point i", f"{fn.qualname} moves vertices to {got}; expected vertex i <- grid point i", fn.node, key=fn.qualname.split('.')[-2])
    return r


backport.rule_id = "C15.BACKPORT"

def no_stale_lazy_cache(repo: Repo) -> RuleRun:
    """Which points are free is decided from the fixed set as it is NOW: no list of free junctions cached by the first smooth() survives a later fix_indexes()/fix_points()."""
    from ..memo import lazy_cache_rule

    return lazy_cache_rule(repo, PROP, "C15.NO-STALE-CACHE", ('optimize.',))


no_stale_lazy_cache.rule_id = "C15.NO-STALE-CACHE"

def no_rounding(repo: Repo) -> RuleRun:
    """'leaves every boundary point and every point the user fixed EXACTLY where it was': positions pass through the grid unrounded."""
    from ..tolerance import no_rounding_rule

    return no_rounding_rule(repo, PROP, "C15.NO-ROUNDING", ('optimize.',))


no_rounding.rule_id = "C15.NO-ROUNDING"

def match_tolerance(repo: Repo) -> RuleRun:
    """'... every point the user fixed [stays] exactly where it was' (and no other). Same rule as C13.MATCH-TOLERANCE."""
    from . import c13

    return c13.match_tolerance(repo, PROP, "C15.MATCH-TOLERANCE")


match_tolerance.rule_id = "C15.MATCH-TOLERANCE"


def neighbour_binding(repo: Repo, prop: str = PROP, rule: str = "C15.NEIGHBOUR-BINDING") -> RuleRun:
    """'leaves every boundary point ... where it was and moves each remaining interior point': which points are interior is decided
    from the cells' neighbours, so every pair of cells that share a side must be offered to add_neighbour, in both directions -
    whatever the local numbering of the shared side (two hexahedra meeting top to top share none of their corners 0 and 2).
    Abstract run of GridBase._bind_cell_neighbours on small quad and hex assemblies in several relative orientations."""
    r = RuleRun(prop, rule, floor=4, what="GridBase._bind_cell_neighbours offers every pair of cells that share a side to add_neighbour, in both directions, for any relative orientation of the two cells")
    fn = repo.func("optimize.grid.GridBase._bind_cell_neighbours")
    grid_cls = repo.cls("optimize.grid.GridBase")
    scenarios = [
        ("strip of three quads", 2, [[0, 1, 5, 4], [1, 2, 6, 5], [2, 3, 7, 6]]),
        ("two quads, the second numbered from the far corner", 2, [[0, 1, 4, 3], [5, 4, 1, 2]]),
        ("two hexahedra, bottom on top", 4, [[0, 1, 2, 3, 4, 5, 6, 7], [4, 5, 6, 7, 8, 9, 10, 11]]),
        ("two hexahedra meeting top to top (one defined upside-down)", 4, [[0, 1, 2, 3, 4, 5, 6, 7], [11, 10, 9, 8, 7, 6, 5, 4]]),
        ("two hexahedra side by side, the second turned", 4, [[0, 1, 2, 3, 4, 5, 6, 7], [5, 1, 2, 6, 13, 12, 14, 15]]),
        ("2 x 2 block of hexahedra in one layer", 4, [[0, 1, 4, 3, 9, 10, 13, 12], [1, 2, 5, 4, 10, 11, 14, 13], [3, 4, 7, 6, 12, 13, 16, 15], [4, 5, 8, 7, 13, 14, 17, 16]]),
    ]
    for label, side_size, addressing in scenarios:
        cells = [Obj(f"cell{i}", indexes=list(ix)) for i, ix in enumerate(addressing)]
        grid = Obj("grid", cls=grid_cls)
        grid.set("cells", cells)
        offered = set()

        def hook(ev, call: ast.Call, name, offered=offered):
            if isinstance(call.func, ast.Attribute) and call.func.attr == "add_neighbour":
                a, b = ev.eval(call.func.value), ev.eval(call.args[0])
                offered.add((a._name, b._name))
                return None
            return NO_MATCH

        try:
            Evaluator(repo=repo, module=fn.module, call_hook=hook, max_steps=200000).call_funcinfo(fn, [grid])
        except (Raised, NotEvaluable) as err:
            raise AnalysisError(f"GridBase._bind_cell_neighbours not evaluable on symbolic cells: {err}") from err
        want = {(a._name, b._name) for a in cells for b in cells if a is not b and len(set(a.get("indexes")) & set(b.get("indexes"))) == side_size}
        missing = sorted(want - offered)
        r.check(
            not missing,
            fn,
            f"{label}: {len(want)} ordered pairs offered",
            f"GridBase._bind_cell_neighbours, {label} (cells {addressing}): the pairs {missing[:4]} share a whole side but are never offered to add_neighbour: the shared side counts as boundary, "
            "interior points on it are never smoothed (and the quality measure skips the neighbour terms there)",
            fn.node,
            key=f"bind:{label}",
        )
    return r


neighbour_binding.rule_id = "C15.NEIGHBOUR-BINDING"


def grid_ownership(repo: Repo, prop: str = PROP, rule: str = "C15.GRID-OWNERSHIP", modules=("optimize.smoother", "optimize.optimizer")) -> RuleRun:
    """'... so that after enough iterations each free point equals that average' - on every call: a smoother / optimizer collects its
    free junctions, clamps and links from ONE grid object when it is created. A method that replaces that grid afterwards
    (self.grid = ...) leaves those collections pointing into the old one: the next smooth() averages frozen positions and the
    iteration stalls. The grid attribute is assigned by constructors only."""
    r = RuleRun(prop, rule, floor=2, what="the grid of a smoother / optimizer is assigned in constructors only (the collections built from its junctions stay valid)")
    n = 0
    for mname in modules:
        mod = repo.module(mname)
        for cls in sorted(repo.classes.values(), key=lambda c: c.qualname):
            if cls.module is not mod:
                continue
            for fn in sorted(cls.methods.values(), key=lambda f_: f_.name):
                for node in ast.walk(fn.node):
                    targets = node.targets if isinstance(node, ast.Assign) else [node.target] if isinstance(node, (ast.AugAssign, ast.AnnAssign)) else []
                    for t in targets:
                        if isinstance(t, ast.Attribute) and t.attr == "grid" and attr_chain(t.value) == (fn.params[0] if fn.params else "self"):
                            n += 1
                            r.check(
                                fn.name == "__init__",
                                fn,
                                f"{cls.name}.{fn.name} sets the grid (constructor)",
                                f"{fn.qualname} replaces self.grid ('{ast.unparse(node)[:70]}') after construction: the junction lists, clamps and links collected from the first grid (self.inner, "
                                "junction.clamp, junction.links) now belong to an object nobody updates - from the second smooth() / optimize() on the averages are taken from frozen positions",
                                node,
                                key=f"{cls.name}.{fn.name}",
                            )
    r.require(n >= 2, f"only {n} assignments of a grid attribute found in {modules}")
    # ... and the grid's ONE point array is never rebound: cells and junctions were handed that array when they were created;
    # a new array assigned to grid.points leaves them reading the old one (every sweep then averages the original positions)
    m_ = 0
    for fn in sorted(repo.all_functions(), key=lambda f_: f_.qualname):
        short = fn.module.name.split("classy_blocks.")[-1]
        if not short.startswith("optimize."):
            continue
        for node in ast.walk(fn.node):
            targets = node.targets if isinstance(node, ast.Assign) else [node.target] if isinstance(node, ast.AnnAssign) and node.value is not None else []
            for t in targets:
                if isinstance(t, ast.Attribute) and t.attr == "points":
                    owner = attr_chain(t.value) or ""
                    is_grid = owner.endswith(".grid") or owner == "grid" or (fn.cls is not None and any(c.name == "GridBase" for c in repo.mro(fn.cls)) and owner == (fn.params[0] if fn.params else "self"))
                    if not is_grid:
                        continue
                    m_ += 1
                    r.check(
                        fn.name == "__init__",
                        fn,
                        f"{fn.qualname}: the grid's point array is bound in the constructor",
                        f"{fn.qualname} rebinds the grid's point array ('{ast.unparse(node)[:70]}'): junctions and cells keep reading the array they were created with, so from now on every sweep works from the old "
                        "positions - one Jacobi step from the start, however many iterations are asked for",
                        node,
                        key=f"points:{fn.qualname}",
                    )
    r.require(m_ >= 1, "the binding of the grid's point array in GridBase.__init__ was not found")
    return r


grid_ownership.rule_id = "C15.GRID-OWNERSHIP"


def backport_live(repo: Repo, prop: str = PROP, rule: str = "C15.BACKPORT-LIVE") -> RuleRun:
    """'The smoothed positions are copied back to the mesh vertices ...' - the vertices the mesh has NOW: Mesh.backport() / clear() +
    assemble() replace every Vertex object, so a smoother that writes to a list of vertices it took when it was created moves dead
    objects on its next call. In every backport() of a class that holds a mesh, the object each position is written to is reached
    through self.mesh at that moment."""
    r = RuleRun(prop, rule, floor=2, what="backport() of the mesh smoother / optimizer writes to vertices reached through self.mesh at call time (not to a list remembered from the constructor)")
    n = 0
    for fn in sorted(repo.all_functions(), key=lambda f_: f_.qualname):
        short = fn.module.name.split("classy_blocks.")[-1]
        if fn.cls is None or fn.name != "backport" or not short.startswith("optimize."):
            continue
        init = repo.find_method(fn.cls, "__init__")
        holds_mesh = init is not None and any(isinstance(t, ast.Attribute) and t.attr == "mesh" for x in ast.walk(init.node) if isinstance(x, ast.Assign) for t in x.targets)
        if not holds_mesh:
            continue
        me = fn.params[0]
        origin = {}
        for lp in ast.walk(fn.node):
            if isinstance(lp, ast.For):
                it = lp.iter
                srcs = []
                if isinstance(it, ast.Call) and (attr_chain(it.func) or "") in ("zip", "enumerate"):
                    srcs = list(it.args)
                else:
                    srcs = [it]
                tg = lp.target.elts if isinstance(lp.target, (ast.Tuple, ast.List)) else [lp.target]
                if isinstance(it, ast.Call) and (attr_chain(it.func) or "") == "enumerate":
                    tg = tg[1:]
                for t_, s_ in zip(tg, srcs):
                    if isinstance(t_, ast.Name):
                        origin[t_.id] = attr_chain(s_) or ast.unparse(s_)
        for c in ast.walk(fn.node):
            if isinstance(c, ast.Call) and isinstance(c.func, ast.Attribute) and c.func.attr in ("move_to",):
                recv = c.func.value
                base = recv
                while isinstance(base, ast.Subscript):
                    base = base.value
                chain = attr_chain(base) or ""
                root = origin.get(chain.split(".")[0], chain) if "." not in chain else chain
                n += 1
                r.check(
                    root.startswith(f"{me}.mesh."),
                    fn,
                    f"{fn.qualname}: '{ast.unparse(recv)[:40]}' reached through self.mesh",
                    f"{fn.qualname} writes the positions to '{ast.unparse(recv)[:50]}', which comes from '{root}' - a list the object keeps itself - instead of self.mesh's current vertices: after mesh.backport() "
                    "(or clear() + assemble()) the mesh has new Vertex objects, and a later smooth() / optimize() of the same object moves the dead ones - the mesh stays as it was",
                    c,
                    key=f"{fn.cls.name}.backport",
                )
    r.require(n >= 2, f"only {n} copy-back writes found in backport() of classes holding a mesh")
    return r


backport_live.rule_id = "C15.BACKPORT-LIVE"



def iterable_once(repo: Repo) -> RuleRun:
    """'leaves ... every point the user fixed exactly where it was': the indexes to fix arrive as an Iterable - a generator, map or
    filter object is as legal as a list and can be walked ONCE. A parameter annotated Iterable / Iterator is consumed at a single
    site (or materialised first: x = list(x)); a validation pass in front of the real use exhausts a generator, and nothing is fixed."""
    r = RuleRun(PROP, "C15.ITERABLE-ONCE", floor=1, what="a parameter annotated Iterable[...] / Iterator[...] is iterated at one site only (or materialised first)")
    n = 0
    for fn in sorted(repo.all_functions(), key=lambda f: f.qualname):
        if not fn.module.name.startswith("classy_blocks.optimize"):
            continue
        for a in [*fn.node.args.args, *fn.node.args.kwonlyargs]:
            ann = ast.unparse(a.annotation) if a.annotation is not None else ""
            if not (ann.startswith(("Iterable[", "Iterator[", "typing.Iterable[")) or ann in ("Iterable", "Iterator")):
                continue
            n += 1
            # materialised first?
            first = fn.node.body[0] if not (isinstance(fn.node.body[0], ast.Expr) and isinstance(fn.node.body[0].value, ast.Constant)) else (fn.node.body[1] if len(fn.node.body) > 1 else None)
            if isinstance(first, ast.Assign) and len(first.targets) == 1 and isinstance(first.targets[0], ast.Name) and first.targets[0].id == a.arg and isinstance(first.value, ast.Call) and (attr_chain(first.value.func) or "") in ("list", "tuple", "set", "sorted", "frozenset"):
                r.ok(fn, f"'{a.arg}' is materialised first", key=f"{a.arg}:materialised")
                continue
            sites = []
            for x in ast.walk(fn.node):
                if isinstance(x, (ast.For, ast.comprehension)) and isinstance(x.iter, ast.Name) and x.iter.id == a.arg:
                    sites.append(x)
                elif isinstance(x, ast.Call) and any(isinstance(y, ast.Name) and y.id == a.arg for y in x.args) and (attr_chain(x.func) or "").split(".")[-1] in ("list", "tuple", "set", "sorted", "frozenset", "any", "all", "sum", "max", "min", "len", "update", "extend", "array", "asarray", "fromiter", "enumerate", "zip", "map", "filter"):
                    sites.append(x)
            r.check(
                len(sites) <= 1,
                fn,
                f"'{a.arg}': {len(sites)} consuming site(s)",
                f"{fn.qualname} walks its parameter '{a.arg}: {ann}' at {len(sites)} sites ({'; '.join(ast.unparse(x)[:50] if not isinstance(x, ast.comprehension) else 'for ... in ' + a.arg for x in sites)}): a generator, map or "
                "filter object - all Iterables - is exhausted by the first, the second sees nothing: smoother.fix_indexes(i for i in ...) fixes no point and the points the user fixed are smoothed away",
                fn.node,
                key=f"{a.arg}:sites",
            )
    r.require(n >= 1, "no Iterable-annotated parameter found in the optimize package (SmootherBase.fix_indexes re-annotated?)")
    return r


iterable_once.rule_id = "C15.ITERABLE-ONCE"



def smooth_needs_no_quality(repo: Repo) -> RuleRun:
    """'... moves each remaining interior point to the average of the points it is connected to': smoothing is what untangles a
    degenerate start (all interior points in one spot), so it must not depend on the cells being valid - nothing reachable from
    SmootherBase.smooth evaluates a cell quality (CellBase.quality raises 'Degenerate Cell' for coincident points)."""
    r = RuleRun(PROP, "C15.SMOOTH-NO-QUALITY", floor=1, what="no quality evaluation (CellBase / Junction / GridBase .quality) is reachable from SmootherBase.smooth")
    smooth = repo.func("optimize.smoother.SmootherBase.smooth")
    closure = repo.reachable([smooth])
    bad = sorted(f_.qualname for f_ in closure if f_.name == "quality" and f_.module.name.startswith("classy_blocks.optimize"))
    # property reads are not calls: look for `.quality` attribute loads in the closure as well
    reads = []
    for f_ in closure:
        for x in ast.walk(f_.node):
            if isinstance(x, ast.Attribute) and x.attr == "quality" and isinstance(x.ctx, ast.Load):
                reads.append((f_, x))
    r.check(
        not bad and not reads,
        smooth,
        f"{len(closure)} functions reachable from smooth(): none evaluates a quality",
        "SmootherBase.smooth reaches a quality evaluation (" + ", ".join(bad + [f"{f_.qualname}: '{ast.unparse(x)}'" for f_, x in reads][:4]) + "): CellBase.quality raises ValueError('Degenerate Cell') for coincident points, "
        "so smoothing a map whose interior points start in one spot - the very case it exists for - ends in an exception instead of the lattice",
        (reads[0][1] if reads else smooth.node),
        key="reach",
    )
    return r


smooth_needs_no_quality.rule_id = "C15.SMOOTH-NO-QUALITY"


RULES = [write_guard, edge_neighbours, boundary_rule, backport, no_stale_lazy_cache, irregular_valence, no_rounding, match_tolerance, neighbour_binding, grid_ownership, backport_live, iterable_once, smooth_needs_no_quality]

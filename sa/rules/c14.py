"""C14 - the block quality measure depends only on the cell's shape."""

from __future__ import annotations

import ast
from typing import List

from .. import hexa, tables
from ..model import AnalysisError, Repo, attr_chain, parent, walk_shallow
from ..peval import NO_MATCH, Evaluator, NotEvaluable, Obj, Raised, Sym
from ..report import RuleRun
from .c10 import _run

PROP = "C14"
TITLE = "The block quality measure depends only on the cell's shape"
DECIDES = (
    "the corner pairs whose lengths enter the aspect-ratio term are exactly the cell's edges - 12 for a hexahedron, one per "
    "AXIS_PAIRS entry, 4 for a quadrilateral (C14.EDGE-SET); HexCell.side_indexes is the full, closed, consistently oriented "
    "boundary (every edge once in each direction, all normals to the same side) with names positionally agreeing with FACE_MAP; "
    "QuadCell sides are the 4 cyclic edges (C14.SIDE-TABLE); the per-side loop of quality does not branch on the side's "
    "identity (C14.UNIFORM). These are necessary for invariance under the 24 (hex) / 4 (quad) rotational renumberings."
    ' the arccos arguments of the angle terms cannot leave [-1, 1] by rounding (C14.TRIG-DOMAIN); the kernels combine only differences of points - no position used as a vector, no component picked from a vector (C14.SHAPE-ONLY); the per-side loop is not left early (part of C14.UNIFORM).'
    ' Derived per-face arrays are used as closed cycles (np.roll), never as open chains or single rows (part of C14.FACE-SYMMETRY); nothing computed per side is used after the per-side loop (part of C14.UNIFORM).'
    " The aspect-ratio term is non-decreasing when the longest edge grows and the shortest does not (C14.STRETCH-MONOTONE, monotonicity domain); this cell's side index is applied to this cell only (part of C14.UNIFORM)."
    ' The small-number guards of the kernels are floors, not summands (C14.SCALE-FREE-GUARDS); a clip applied before the normalisation is reported (part of C14.TRIG-DOMAIN).'
)
NOT_DECIDED = "invariance under rigid motion and uniform scaling as numbers (floating-point numerics); the size of the rise under stretching."
ASSUMPTIONS = []


def cell_obj(repo: Repo, clsname: str, n: int) -> Obj:
    cell = Obj("cell", cls=repo.cls(clsname))
    cell.set("points", [Sym(f"c{i}") for i in range(n)])
    cell.set("indexes", list(range(100, 100 + n)))
    cell.set("grid_points", Sym("grid_points"))
    return cell


def norm_hook(ev: Evaluator, call: ast.Call, name):
    nm = (name or "").split(".")[-1]
    if nm == "norm" and call.args and isinstance(call.args[0], ast.BinOp) and isinstance(call.args[0].op, ast.Sub):
        a = ev.eval(call.args[0].left)
        b = ev.eval(call.args[0].right)
        return ("len", a, b)
    if name in ("np.array", "np.asarray", "numpy.array", "numpy.asarray") and call.args:
        return ev.eval(call.args[0])
    return NO_MATCH


def edge_set(repo: Repo) -> RuleRun:
    r = RuleRun(PROP, "C14.EDGE-SET", floor=2, what="corner pairs read by get_edge_lengths are exactly the cell's edges")
    r.exhaustive = True
    fn = repo.func("optimize.cell.CellBase.get_edge_lengths")
    for clsname, n, want in (
        ("optimize.cell.HexCell", 8, set(hexa.EDGES)),
        ("optimize.cell.QuadCell", 4, {frozenset((i, (i + 1) % 4)) for i in range(4)}),
    ):
        cls = repo.cls(clsname)
        impl = repo.find_method(cls, "get_edge_lengths")
        cell = cell_obj(repo, clsname, n)
        res = _run(Evaluator(repo=repo, module=impl.module, call_hook=norm_hook), impl, [cell])
        if not (isinstance(res, list) and all(isinstance(x, tuple) and x[0] == "len" for x in res)):
            raise AnalysisError(f"{impl.qualname}: result is not a list of point distances: {res}")
        pairs = [frozenset((int(repr(x[1])[1:]), int(repr(x[2])[1:]))) for x in res]
        missing = want - set(pairs)
        extra = set(pairs) - want
        dup = len(pairs) != len(set(pairs))
        r.check(
            not missing and not extra and not dup,
            impl,
            f"{cls.name}: {len(pairs)} edges measured",
            f"{cls.name}.get_edge_lengths measures corner pairs {sorted(map(sorted, pairs))}: "
            f"missing edges {sorted(map(sorted, missing))}, non-edges {sorted(map(sorted, extra))} - the aspect-ratio term ignores an edge direction, "
            "so the same box scores differently depending on which axis its long side is numbered along",
            impl.node,
            key=cls.name,
        )
    return r


edge_set.rule_id = "C14.EDGE-SET"


def side_table(repo: Repo) -> RuleRun:
    r = RuleRun(PROP, "C14.SIDE-TABLE", floor=12, what="HexCell/QuadCell side tables: full closed consistently oriented boundary")
    r.exhaustive = True
    hexcell = repo.cls("optimize.cell.HexCell")
    names = tables.class_table(repo, hexcell, "side_names")
    idx = tables.class_table(repo, hexcell, "side_indexes")
    c = tables.constants(repo)
    r.check(len(names) == 6 and len(idx) == 6 and len(set(names)) == 6, hexcell, "6 sides", f"HexCell has {len(names)} names / {len(idx)} quads", key="count")
    directed = []
    senses = set()
    for nm, quad in zip(names, idx):
        ok_set = nm in c["FACE_MAP"] and set(quad) == set(c["FACE_MAP"][nm]) and set(quad) == set(hexa.SIDE_CORNERS.get(nm, ()))
        r.check(ok_set, hexcell, f"{nm}: corner set agrees with FACE_MAP", f"HexCell side '{nm}' = {quad} does not have the corner set of FACE_MAP['{nm}'] = {c['FACE_MAP'].get(nm)}", key=f"{nm}:set")
        r.check(hexa.cyclic_walks_edges(quad), hexcell, f"{nm}: cyclic", f"HexCell side '{nm}' = {quad} is not a cycle along block edges", key=f"{nm}:cycle")
        if hexa.cyclic_walks_edges(quad):
            directed += [(quad[i], quad[(i + 1) % 4]) for i in range(4)]
            ns = hexa.quad_normal_sign(quad)
            if ns is not None and nm in hexa.SIDE_PLANE:
                outward = 1 if hexa.SIDE_PLANE[nm][1] == 1 else -1
                senses.add("outward" if ns[1] == outward else "inward")
    ok_closed = len(directed) == 24 and len(set(directed)) == 24 and all((b, a) in directed for a, b in directed)
    r.check(ok_closed, hexcell, "every edge once in each direction", "HexCell.side_indexes is not a closed, consistently oriented surface (some edge is traversed twice in the same direction)", key="closed")
    r.check(len(senses) == 1, hexcell, f"all normals {senses}", f"HexCell sides are not all oriented to the same side of the cell: {senses}", key="orientation")

    quad = repo.cls("optimize.cell.QuadCell")
    qn = tables.class_table(repo, quad, "side_names")
    qi = tables.class_table(repo, quad, "side_indexes")
    r.check([tuple(x) for x in qi] == [(i, (i + 1) % 4) for i in range(4)] and len(qn) == 4, quad, "QuadCell sides are the 4 cyclic edges", f"QuadCell.side_indexes = {qi}", key="QuadCell")
    r.check(list(qn) == [hexa.face_edge_side(i) for i in range(4)], quad, "QuadCell side names follow SIDES_MAP", f"QuadCell.side_names = {qn}", key="QuadCell:names")
    return r


side_table.rule_id = "C14.SIDE-TABLE"


def uniform(repo: Repo) -> RuleRun:
    r = RuleRun(PROP, "C14.UNIFORM", floor=1, what="quality treats all sides uniformly")
    q = repo.func("optimize.cell.CellBase.quality")
    loops = [n for n in walk_shallow(q.node) if isinstance(n, ast.For)]
    side_loops = [lp for lp in loops if "neighbours" in ast.unparse(lp.iter) or "side_names" in ast.unparse(lp.iter) or "side_indexes" in ast.unparse(lp.iter)]
    r.require(len(side_loops) >= 1, "CellBase.quality: per-side loop not found")
    for lp in side_loops:
        loopvars = {n.id for n in ast.walk(lp.target) if isinstance(n, ast.Name)}
        # the index derived from the side name is also an identity
        derived = set(loopvars)
        for st in lp.body:
            if isinstance(st, ast.Assign) and isinstance(st.targets[0], ast.Name) and any(isinstance(n, ast.Name) and n.id in derived for n in ast.walk(st.value)) and "index" in ast.unparse(st.value):
                derived.add(st.targets[0].id)
        bad = []
        for n in ast.walk(lp):
            if isinstance(n, (ast.If, ast.IfExp)):
                test = n.test
                for cmp_ in ast.walk(test):
                    if isinstance(cmp_, ast.Compare):
                        operands = [cmp_.left, *cmp_.comparators]
                        has_var = any(isinstance(o, ast.Name) and o.id in derived for o in operands)
                        has_const = any(isinstance(o, ast.Constant) and o.value is not None for o in operands) or any(isinstance(o, (ast.Tuple, ast.List, ast.Set)) for o in operands)
                        if has_var and has_const:
                            bad.append(n)
        r.check(not bad, q, "no branch on side identity", f"CellBase.quality branches on the identity of the side ({ast.unparse(bad[0].test) if bad else ''}): the measure is no longer invariant under renumbering", bad[0] if bad else lp, key="per-side-loop")
        # every side contributes: the loop is not left early (which sides were skipped would depend on their numbering)
        from ..util import loop_early_exits

        # nothing computed per side is used after the loop: a statement dedented out of the loop sees only the LAST side
        inner_names = set(derived)
        for st in ast.walk(lp):
            if isinstance(st, ast.Assign):
                for t_ in st.targets:
                    if isinstance(t_, ast.Name) and t_.id != "quality":
                        inner_names.add(t_.id)
        accumulators = {t_.id for st in ast.walk(lp) if isinstance(st, ast.AugAssign) for t_ in [st.target] if isinstance(t_, ast.Name)}
        after = [x for x in ast.walk(q.node) if isinstance(x, ast.Name) and isinstance(x.ctx, ast.Load) and x.id in (inner_names - accumulators) and x.lineno > (lp.end_lineno or lp.lineno)]
        # names re-assigned after the loop before being read are fresh values, not stale ones
        reassigned_after = {t_.id: st.lineno for st in ast.walk(q.node) if isinstance(st, ast.Assign) and st.lineno > (lp.end_lineno or lp.lineno) for t_ in st.targets if isinstance(t_, ast.Name)}
        after = [x for x in after if not (x.id in reassigned_after and reassigned_after[x.id] <= x.lineno)]
        r.check(
            not after,
            q,
            "no per-side value is used after the per-side loop",
            f"CellBase.quality uses '{after[0].id if after else ''}' after the per-side loop has ended: the statement runs once, with the value left over from the last side only - which side that is "
            "depends on the numbering, and the contributions of the other sides are lost",
            after[0] if after else lp,
            key="per-side-loop:stale",
        )
        # the index of a side in THIS cell's tables addresses this cell only: the neighbour numbers its sides in its own way
        # (the shared face is 'top' here and 'bottom' - or anything - there)
        own_index = derived - loopvars
        foreign = []
        for c in ast.walk(lp):
            if isinstance(c, ast.Call) and isinstance(c.func, ast.Attribute):
                recv = c.func.value
                root = recv
                while isinstance(root, (ast.Attribute, ast.Subscript, ast.Call)):
                    root = root.value if not isinstance(root, ast.Call) else root.func
                if isinstance(root, ast.Name) and root.id not in ("self", "np", "numpy", "f", "math") and root.id in loopvars | {t.id for st in ast.walk(lp) if isinstance(st, ast.Assign) for t in st.targets if isinstance(t, ast.Name)}:
                    if any(isinstance(a, ast.Name) and a.id in own_index for a in [*c.args, *[k.value for k in c.keywords]]):
                        foreign.append(c)
            if isinstance(c, ast.Subscript) and isinstance(c.slice, ast.Name) and c.slice.id in own_index:
                root = c.value
                while isinstance(root, (ast.Attribute, ast.Subscript)):
                    root = root.value
                if isinstance(root, ast.Name) and root.id in loopvars:
                    foreign.append(c)
        r.check(
            not foreign,
            q,
            "this cell's side index is applied to this cell only",
            f"CellBase.quality applies the index of a side in this cell's own tables to another cell ('{ast.unparse(foreign[0])[:60] if foreign else ''}'): the neighbour numbers its sides independently, "
            "so which of its sides is addressed depends on how the two blocks happen to be oriented - the value changes under renumbering",
            foreign[0] if foreign else lp,
            key="per-side-loop:own-index",
        )
        exits = [e for e in loop_early_exits(lp) if not isinstance(e, ast.Raise)]
        exits += [n for n in ast.walk(lp) if isinstance(n, ast.Continue) and not any(isinstance(a, (ast.For, ast.While)) and a is not lp and any(x is n for x in ast.walk(a)) for a in ast.walk(lp))]
        r.check(
            not exits,
            q,
            "the per-side loop visits every side",
            f"CellBase.quality leaves the per-side loop early ('{ast.unparse(exits[0])[:40] if exits else ''}'): the sides not yet visited do not contribute, and which ones those are depends "
            "on the numbering of the cell - the value is no longer invariant under renumbering",
            exits[0] if exits else lp,
            key="per-side-loop:complete",
        )
    return r


uniform.rule_id = "C14.UNIFORM"

def face_symmetry(repo: Repo) -> RuleRun:
    """Per-face quantities of a hexahedron must be symmetric under cyclic renumbering of the face's four
    points: centre = average of all four, fans/angles built with np.roll - never from hand-picked corners."""
    r = RuleRun(PROP, "C14.FACE-SYMMETRY", floor=3, what="HexCell per-face computations do not single out corners of the face")
    hexcell = repo.cls("optimize.cell.HexCell")
    base = repo.cls("optimize.cell.CellBase")
    targets = [m for m in hexcell.methods.values() if m.name in ("get_side_normals", "get_inner_angles")] + [base.methods[n] for n in ("get_side_center", "get_side_points") if n in base.methods]
    r.require(len(targets) >= 3, "HexCell.get_side_normals / get_inner_angles / CellBase.get_side_center not found")
    for m in targets:
        face_vars = {"side_points"}
        for n in walk_shallow(m.node):
            if isinstance(n, ast.Assign) and isinstance(n.targets[0], ast.Name) and isinstance(n.value, ast.Call) and (attr_chain(n.value.func) or "").endswith("get_side_points"):
                face_vars.add(n.targets[0].id)
        # arrays derived from the face's points row by row (differences with the centre, rolled copies, quotients)
        for _ in range(3):
            for n in walk_shallow(m.node):
                if isinstance(n, ast.Assign) and isinstance(n.targets[0], ast.Name) and any(isinstance(x, ast.Name) and x.id in face_vars for x in ast.walk(n.value)):
                    v = n.value
                    rowwise = isinstance(v, ast.BinOp) or (isinstance(v, ast.Call) and (attr_chain(v.func) or "").split(".")[-1] in ("roll", "cross", "array", "asarray"))
                    if rowwise:
                        face_vars.add(n.targets[0].id)
        picked = []
        for n in ast.walk(m.node):
            if isinstance(n, ast.Subscript) and isinstance(n.value, ast.Name) and n.value.id in face_vars:
                sl = n.slice
                first = sl.elts[0] if isinstance(sl, ast.Tuple) and sl.elts else sl
                if isinstance(first, ast.Constant) and isinstance(first.value, int):
                    picked.append(n)
                elif isinstance(first, ast.Slice) and (first.lower is not None or first.upper is not None):
                    picked.append(n)  # an open chain of rows ([:-1], [1:]) instead of the closed cycle (np.roll)
        r.check(
            not picked,
            m,
            "all four face points enter symmetrically",
            f"{m.qualname} picks individual corners of the face ({', '.join(ast.unparse(x) for x in picked[:3])}): for a warped (non-planar) face the result then depends on which corner the face "
            "numbering starts at, so the 24 rotational renumberings of one hexahedron score differently",
            picked[0] if picked else m.node,
            key="symmetric",
        )
    # the face centre is the average of the face's points
    gsc = base.methods.get("get_side_center")
    if gsc is not None:
        src = ast.unparse(gsc.node)
        r.check("np.average(self.get_side_points(i), axis=0)" in src or "np.mean(self.get_side_points(i), axis=0)" in src, gsc, "face centre = average of its points", f"CellBase.get_side_center is no longer the average of the side's points", gsc.node, key="centre")
    return r


face_symmetry.rule_id = "C14.FACE-SYMMETRY"


def no_stale_cache(repo: Repo) -> RuleRun:
    """quality is a function of the CURRENT points: either it is recomputed on every call, or every writer of
    the point array invalidates the cache of all cells (a moved link follower changes cells far from the leader)."""
    r = RuleRun(PROP, "C14.NO-STALE-CACHE", floor=3, what="no memoised quality without complete invalidation")
    writers = [repo.func("optimize.grid.GridBase.update"), repo.func("optimize.smoother.SmootherBase.smooth")]
    for qn in ("optimize.cell.CellBase.quality", "optimize.junction.Junction.quality", "optimize.grid.GridBase.quality"):
        fn = repo.func(qn)
        cached = []
        for n in ast.walk(fn.node):
            if isinstance(n, ast.Attribute) and isinstance(n.ctx, ast.Load) and isinstance(n.value, ast.Name) and n.value.id == fn.params[0] and n.attr.startswith("_") and not n.attr.startswith("__"):
                # a private attribute that somebody assigns (a memo)
                assigned = any(
                    isinstance(x, (ast.Assign, ast.AnnAssign)) and any(isinstance(t, ast.Attribute) and t.attr == n.attr for t in (x.targets if isinstance(x, ast.Assign) else [x.target]))
                    for f2 in repo.all_functions()
                    if f2.cls is not None and (f2.cls is fn.cls or fn.cls in repo.mro(f2.cls) or f2.cls in repo.mro(fn.cls))
                    for x in ast.walk(f2.node)
                )
                if assigned and any(isinstance(x, ast.Return) and any(y is n for y in ast.walk(x)) for x in ast.walk(fn.node)):
                    cached.append(n.attr)
        if not cached:
            r.ok(fn, "recomputed from the current points on every call", key="cache")
            continue
        # complete invalidation in every writer of the point array
        incomplete = []
        for w in writers:
            full = False
            for lp in [x for x in ast.walk(w.node) if isinstance(x, ast.For)]:
                it = attr_chain(lp.iter) or ""
                if it.endswith(".cells") and it.split(".")[-2] in ("self", "grid") and any(isinstance(y, ast.Call) and isinstance(y.func, ast.Attribute) and y.func.attr.startswith(("reset", "invalidate", "clear")) or (isinstance(y, ast.Assign) and any(isinstance(t, ast.Attribute) and t.attr in cached for t in y.targets)) for y in ast.walk(lp)):
                    full = True
            if not full:
                incomplete.append(w.qualname)
        r.check(
            not incomplete,
            fn,
            f"cache {cached} invalidated for all cells by every writer of the points",
            f"{fn.qualname} returns the memoised value {cached}, but {incomplete} change(s) the point array without invalidating the cache of ALL cells: a cell around a moved link follower "
            "keeps reporting the quality of its old shape",
            fn.node,
            key="cache",
        )
    return r


no_stale_cache.rule_id = "C14.NO-STALE-CACHE"

def trig_domain(repo: Repo) -> RuleRun:
    """'unchanged by rotating the geometry': the angle terms take arccos of cosines that cannot leave [-1, 1] by rounding - otherwise a regular cell is 'degenerate' in some orientations only."""
    from ..domain import inverse_trig_rule

    return inverse_trig_rule(repo, PROP, "C14.TRIG-DOMAIN", ('optimize.cell',), floor=2)


trig_domain.rule_id = "C14.TRIG-DOMAIN"

def shape_only(repo: Repo) -> RuleRun:
    """Positions vs vectors in the quality kernels (bare numpy arrays, so kinds are seeded from `points` and the return
    annotations): cross / dot / norm take differences of points, and nobody picks single components of a vector - both are
    necessary for invariance under translation and rotation."""
    from ..affine import geometry_violations

    r = RuleRun(PROP, "C14.SHAPE-ONLY", floor=6, what="quality kernels combine only differences of points (no position used as a vector, no component picked from a vector)")
    total = 0
    for fn in sorted(repo.all_functions(), key=lambda f: f.qualname):
        if not fn.module.name.endswith("optimize.cell"):
            continue
        viol, classified = geometry_violations(repo, fn)
        total += classified
        if not viol and classified:
            r.ok(fn, f"{classified} vector expression(s), all of differences of points", key="kinds")
        for i, (node, msg) in enumerate(viol):
            r.bad(fn, f"{fn.qualname}: {msg} - the quality value is no longer a function of the cell's shape alone", node, key=f"kinds#{i}")
    r.require(total >= 8, f"only {total} vector expressions could be classified in optimize.cell (kinds seeded from `points` no longer propagate)")
    return r


shape_only.rule_id = "C14.SHAPE-ONLY"

def stretch_monotone(repo: Repo) -> RuleRun:
    """'Stretching a cube into a longer box never lowers the value': the box keeps all its right angles, so only the aspect-ratio
    term changes - the longest edge grows, the shortest does not. The term is followed through the monotonicity domain
    (sa/monotone.py): with max(edge lengths) non-decreasing and min(edge lengths) non-increasing it must be non-decreasing.
    The direction the box is stretched in does not enter: the term sees only max and min of ALL edges (C14.EDGE-SET)."""
    from .. import monotone, tolerance
    from ..monotone import Mono

    r = RuleRun(PROP, "C14.STRETCH-MONOTONE", floor=1, what="the aspect-ratio term of quality is a non-decreasing function of (longest edge up, shortest edge down): monotonicity of the expression chain max/min -> ratio -> log -> penalty")
    q = repo.func("optimize.cell.CellBase.quality")
    funcs = {n.name: n for n in ast.walk(q.node) if isinstance(n, ast.FunctionDef) and n is not q.node}
    env = {}
    lengths = set()

    def fold(e):
        return tolerance.fold(repo, q.module, e)

    def stmts(body):
        for st in body:
            if isinstance(st, (ast.For, ast.While, ast.FunctionDef)):
                continue
            if isinstance(st, ast.Try):
                yield from stmts(st.body)
                continue
            if isinstance(st, (ast.If, ast.With)):
                yield from stmts(st.body)
                continue
            yield st

    # the accumulator is whatever the property returns
    rets = [n for n in walk_shallow(q.node) if isinstance(n, ast.Return) and n.value is not None]
    r.require(len(rets) == 1, "CellBase.quality: exactly one 'return <value>' expected")
    acc = rets[0].value.id if isinstance(rets[0].value, ast.Name) else None
    if acc is not None and acc.startswith("_"):
        # returned through a temporary: 'tmp = quality; return tmp'
        for n in walk_shallow(q.node):
            if isinstance(n, ast.Assign) and len(n.targets) == 1 and isinstance(n.targets[0], ast.Name) and n.targets[0].id == acc and isinstance(n.value, ast.Name):
                acc = n.value.id
    r.require(acc is not None, "CellBase.quality does not return a named accumulator")
    terms = []
    for st in stmts(q.node.body):
        value = target = None
        if isinstance(st, ast.Assign) and len(st.targets) == 1 and isinstance(st.targets[0], ast.Name):
            target, value = st.targets[0].id, st.value
        elif isinstance(st, ast.AugAssign) and isinstance(st.target, ast.Name) and isinstance(st.op, ast.Add):
            target, value = st.target.id, st.value
            if target == acc:
                if any(isinstance(n, ast.Name) and n.id in env for n in ast.walk(value)):
                    terms.append((st, monotone.evaluate(value, env, funcs, fold)))
                continue
        if target is None or value is None:
            continue
        if isinstance(value, ast.Call) and (attr_chain(value.func) or "").endswith("get_edge_lengths"):
            lengths.add(target)
            continue
        if isinstance(value, ast.Call) and value.args and isinstance(value.args[0], ast.Name) and value.args[0].id in lengths:
            nm = (attr_chain(value.func) or "").split(".")[-1]
            if nm in ("max", "amax"):
                env[target] = Mono(1, "pos")
                continue
            if nm in ("min", "amin"):
                env[target] = Mono(-1, "nonneg")
                continue
        if any(isinstance(n, ast.Name) and (n.id in env or n.id in lengths) for n in ast.walk(value)):
            inner = value
            # min(edge_lengths) + VSMALL written in one expression
            sub_env = dict(env)
            for c in ast.walk(value):
                if isinstance(c, ast.Call) and c.args and isinstance(c.args[0], ast.Name) and c.args[0].id in lengths:
                    nm = (attr_chain(c.func) or "").split(".")[-1]
                    if nm in ("max", "amax", "min", "amin"):
                        key = f"__{nm}_{c.lineno}_{c.col_offset}"
                        sub_env[key] = Mono(1, "pos") if nm in ("max", "amax") else Mono(-1, "nonneg")
                        inner = _replace(inner, c, ast.Name(id=key, ctx=ast.Load()))
            got = monotone.evaluate(inner, sub_env, funcs, fold)
            if target == acc and isinstance(st, ast.Assign):
                terms.append((st, got))
            else:
                env[target] = got
    r.require(bool(terms), "CellBase.quality: no term of the sum depends on max/min of get_edge_lengths() (aspect-ratio term not found)")
    for i, (st, got) in enumerate(terms):
        if got.dir is None:
            raise AnalysisError(f"CellBase.quality: direction of '{ast.unparse(st)[:80]}' under stretching cannot be derived in the monotonicity domain")
        r.check(
            got.dir == 1,
            q,
            f"'{ast.unparse(st)[:70]}' is non-decreasing when the longest edge grows and the shortest does not",
            f"CellBase.quality: the term '{ast.unparse(st)[:80]}' is {monotone.describe(got)} when the longest edge grows and the shortest one does not: stretching a cube into a longer box "
            + ("LOWERS the value - the optimizer is rewarded for elongated cells" if got.dir == -1 else "does not change the value - elongated cells are not penalised"),
            st,
            key=f"aspect-term#{i}",
        )
    return r


def _replace(root: ast.expr, old: ast.AST, new: ast.expr) -> ast.expr:
    import copy

    class T(ast.NodeTransformer):
        def visit(self, node):
            if node is old:
                return new
            return self.generic_visit(copy.copy(node))

    return T().visit(root)


stretch_monotone.rule_id = "C14.STRETCH-MONOTONE"

def scale_free_guards(repo: Repo) -> RuleRun:
    """'unchanged by ... uniformly scaling the geometry': the quality kernels divide by lengths and areas and protect the
    division with the library's small number. As a FLOOR (max(x, VSMALL), np.maximum, np.clip, a comparison) the guard changes
    nothing for a real cell; ADDED to the divisor (x + VSMALL) it shortens every 'unit' vector by VSMALL / x - a relative error
    that depends on the size of the cell and that arccos (infinitely steep at 1) turns into degrees."""
    r = RuleRun(PROP, "C14.SCALE-FREE-GUARDS", floor=3, what="the small-number guard of the quality kernels is a floor (max / maximum / clip / comparison), never a term added to a length or an area")
    mod = repo.module("optimize.cell")
    SMALL = {"VSMALL", "TOL"}
    n = 0
    nth = {}
    for fn in sorted(repo.all_functions(), key=lambda f: f.qualname):
        if fn.module is not mod:
            continue
        for x in ast.walk(fn.node):
            if isinstance(x, ast.Name) and x.id in SMALL or isinstance(x, ast.Attribute) and x.attr in SMALL:
                p_ = parent(x)
                n += 1
                k = nth.get(fn.qualname, 0)
                nth[fn.qualname] = k + 1
                added = isinstance(p_, ast.BinOp) and isinstance(p_.op, (ast.Add, ast.Sub))
                r.check(
                    not added,
                    fn,
                    f"'{ast.unparse(p_)[:60]}': guard used as a bound",
                    f"{fn.qualname}: '{ast.unparse(p_)[:80]}' adds the small-number guard to a quantity that scales with the cell: the result of the division is off by a factor (1 - guard/x), "
                    "so the value of a perfect cube is not 0 and changes with its size (27 at size 0.01, 0.17 at size 1)",
                    p_,
                    key=f"guard#{k}",
                )
    r.require(n >= 3, f"only {n} uses of the small-number guard found in optimize.cell")
    # ... and the guard is commensurate with what it guards: the library's small number is a LENGTH scale (1e-6); as the floor of an
    # area (the norm of a cross product of two edge-like vectors) it must be squared - otherwise it bites for cells a thousand times
    # larger than intended (faces of about a millimetre) and the 'unit' normals of such faces come out shorter than 1
    from ..dims import Inhomogeneous, _Unknown, homogeneity

    m_ = 0
    for fn in sorted(repo.all_functions(), key=lambda f: f.qualname):
        if fn.module is not mod:
            continue
        env = {}
        k = 0

        def visit(body, fn=fn, env=env):
            nonlocal m_, k
            for st in body:
                if isinstance(st, ast.Assign) and len(st.targets) == 1 and isinstance(st.targets[0], ast.Name):
                    for c in ast.walk(st.value):
                        if isinstance(c, ast.Call) and (attr_chain(c.func) or "").split(".")[-1] in ("maximum", "max", "clip", "fmax") and len(c.args) >= 2:
                            guards = [a for a in c.args if (isinstance(a, ast.Name) and a.id in SMALL) or (isinstance(a, ast.Attribute) and a.attr in SMALL)]
                            squared = [a for a in c.args if isinstance(a, ast.BinOp) and isinstance(a.op, ast.Pow) and any((isinstance(x, ast.Name) and x.id in SMALL) or (isinstance(x, ast.Attribute) and x.attr in SMALL) for x in ast.walk(a))]
                            others = [a for a in c.args if a not in guards and a not in squared]
                            if not (guards or squared) or not others:
                                continue
                            try:
                                deg = homogeneity(others[0], env, {})
                            except (_Unknown, Inhomogeneous):
                                continue
                            m_ += 1
                            want = deg if isinstance(deg, (int, float)) else None
                            ok = want is None or (want <= 1 and guards) or (want == 2 and squared)
                            r.check(
                                ok,
                                fn,
                                f"'{ast.unparse(c)[:60]}': floor commensurate with a quantity of degree {deg}",
                                f"{fn.qualname}: '{ast.unparse(c)[:80]}' floors a quantity that scales with the cell size to the power {deg} (an area) with the plain small number, which is a length: the floor bites "
                                "for faces of about a millimetre (edge 1.4e-3: a perfect cube scores 27.9 instead of 0; a box 1 x 0.01 x 0.01 scores 726 at scale 1 and 1413 at scale 0.1) - the measure depends on the size of the cell",
                                c,
                                key=f"floor#{k}",
                            )
                            k += 1
                    try:
                        env[st.targets[0].id] = homogeneity(st.value, env, {})
                    except (_Unknown, Inhomogeneous):
                        env.pop(st.targets[0].id, None)
                for sub in ("body", "orelse", "finalbody"):
                    inner = getattr(st, sub, None)
                    if isinstance(inner, list) and inner and isinstance(inner[0], ast.stmt) and not isinstance(st, (ast.FunctionDef, ast.ClassDef)):
                        visit(inner)

        visit(fn.node.body)
    r.require(m_ >= 2, f"only {m_} floored quantities of known degree found in optimize.cell")
    return r


scale_free_guards.rule_id = "C14.SCALE-FREE-GUARDS"

def angle_arguments(repo: Repo) -> RuleRun:
    from ..dims import angle_arguments_rule

    return angle_arguments_rule(repo, PROP, "C14.ANGLE-ARGUMENTS")


angle_arguments.rule_id = "C14.ANGLE-ARGUMENTS"


def no_memo(repo: Repo) -> RuleRun:
    """'rigid motions of a grid leave its quality unchanged' - also of the SAME grid object moved through GridBase.update: nothing of a cell (normal, centre) is memoised. Same rule as C16.NO-MEMO."""
    from ..report import rebrand
    from . import c16

    return rebrand(c16.no_memo(repo), PROP, "C14.NO-MEMO")


no_memo.rule_id = "C14.NO-MEMO"


def row_norms(repo: Repo) -> RuleRun:
    """'unchanged by rigid motions': lengths and dot products of the kernels are taken per VECTOR - along the coordinate axis
    (axis=1 of an N x 3 array). A norm / sum along axis 0 mixes the x (y, z) components of different edges: the numbers happen to
    be right for an axis-aligned box and change as soon as the cell is rotated."""
    r = RuleRun(PROP, "C14.ROW-NORMS", floor=3, what="every norm / sum-of-products over a list of vectors in the quality kernels runs along the coordinate axis (axis=1), never across the vectors (axis=0)")
    mod = repo.module("optimize.cell")
    n = 0
    for fn in sorted(repo.all_functions(), key=lambda f_: f_.qualname):
        if fn.module is not mod:
            continue
        k = 0
        for c in ast.walk(fn.node):
            if not isinstance(c, ast.Call):
                continue
            nm = (attr_chain(c.func) or "").split(".")[-1]
            if nm not in ("norm", "sum"):
                continue
            ax = next((kw.value for kw in c.keywords if kw.arg == "axis"), None)
            if ax is None:
                continue
            if nm == "sum" and not (c.args and any(isinstance(x, ast.BinOp) and isinstance(x.op, (ast.Mult, ast.Pow)) for x in ast.walk(c.args[0]))):
                continue
            n += 1
            val = ax.value if isinstance(ax, ast.Constant) else (-ax.operand.value if isinstance(ax, ast.UnaryOp) and isinstance(ax.operand, ast.Constant) else None)
            r.check(
                val in (1, -1),
                fn,
                f"'{ast.unparse(c)[:60]}': along the coordinates",
                f"{fn.qualname}: '{ast.unparse(c)[:80]}' reduces a list of vectors along axis {val}: it returns one number per COORDINATE (the x, y, z extents of all vectors together) instead of one per vector - "
                "right for an axis-aligned box only, different after any rotation of the cell",
                c,
                key=f"axis#{k}",
            )
            k += 1
    r.require(n >= 3, f"only {n} per-vector reductions found in optimize.cell")
    return r


row_norms.rule_id = "C14.ROW-NORMS"


def centre_symmetric(repo: Repo) -> RuleRun:
    """'... and by renumbering the corners': the cell centre the side vectors are measured from is a symmetric function of ALL corners
    (their mean). A centre taken from two of them (the middle of a space diagonal, a face diagonal) is exact for parallelepipeds
    and depends on the numbering for every other cell. Exact rational evaluation of `center` of every cell class on a cell that is
    no parallelepiped, for all rotational renumberings of its corners."""
    from fractions import Fraction

    from .. import exact, hexa

    r = RuleRun(PROP, "C14.CENTRE-SYMMETRIC", floor=2, what="the centre of a cell is the same point for every rotational renumbering of its corners (exact evaluation on a non-parallelepiped)")
    base = repo.cls("optimize.cell.CellBase")
    hexp = [exact.vec(0, 0, 0), exact.vec(2, Fraction(1, 5), 0), exact.vec(Fraction(9, 4), Fraction(7, 4), Fraction(-1, 5)), exact.vec(Fraction(-1, 3), 2, 0), exact.vec(Fraction(1, 10), 0, 1), exact.vec(Fraction(3, 2), 0, Fraction(3, 2)), exact.vec(2, 2, Fraction(5, 4)), exact.vec(0, Fraction(3, 2), 1)]
    quadp = hexp[:4]

    def hook(ev, call, name):
        nm = (name or "").split(".")[-1]
        if nm in ("average", "mean") and call.args:
            v = ev.eval(call.args[0])
            if isinstance(v, list) and v and all(isinstance(x, exact.Vec) for x in v):
                tot = v[0]
                for x in v[1:]:
                    tot = tot + x
                return tot.scale(exact.c(Fraction(1, len(v))))
        if nm == "take" and len(call.args) >= 2:
            v, idx = ev.eval(call.args[0]), ev.eval(call.args[1])
            if isinstance(v, list) and isinstance(idx, (list, tuple)):
                return [v[i] for i in idx]
        if nm in ("array", "asarray") and call.args:
            return ev.eval(call.args[0])
        return NO_MATCH

    for cls in sorted((c for c in repo.subclasses(base) if c is not base), key=lambda c: c.qualname):
        fn = repo.find_method(cls, "center")
        r.require(fn is not None, f"{cls.name}.center vanished")
        pts = hexp if "Hex" in cls.name else quadp
        if "Hex" in cls.name:
            perms = hexa.rotations_24()
        else:
            perms = [tuple((i + k) % 4 for i in range(4)) for k in range(4)] + [tuple((k - i) % 4 for i in range(4)) for k in range(4)]
        results = []
        for perm in perms:
            cell = Obj("cell", cls=cls)
            cell.set("grid_points", [pts[i] for i in perm])
            cell.set("indexes", list(range(len(pts))))
            cell.set("points", [pts[i] for i in perm])
            ev = exact.evaluator(repo, fn.module, extra=hook)
            try:
                results.append(ev.call_funcinfo(fn, [cell]))
            except (Raised, NotEvaluable) as err:
                raise AnalysisError(f"{cls.name}.center not evaluable over exact rational points: {err}") from err
        r.require(all(isinstance(x, exact.Vec) for x in results), f"{cls.name}.center does not return a point on the exact model")
        different = [k for k, x in enumerate(results) if not exact.same(x, results[0])]
        r.check(
            not different,
            fn,
            f"{cls.name}: one centre for all {len(perms)} renumberings",
            f"{cls.name}.center gives another point for {len(different)} of the {len(perms)} rotational renumberings of a cell that is no parallelepiped (e.g. numbering {list(perms[different[0]]) if different else ''}): "
            "the quality of the same block depends on which corner its numbering starts at",
            fn.node,
            key=f"centre:{cls.name}",
        )
    return r


centre_symmetric.rule_id = "C14.CENTRE-SYMMETRIC"



def no_axis_extents(repo: Repo) -> RuleRun:
    """'the quality measure is unchanged by rigid motions': nothing in the quality kernels is measured along the coordinate axes. A
    reduction over the point axis that picks per-coordinate extremes - np.ptp(points, axis=0), np.max / np.min(points, axis=0), the
    bounding box - changes when the cell is turned (a cube in a general orientation has extents sqrt(3) : 1 apart from its edges).
    Expected count zero; the matcher is exercised on an embedded example on every run."""
    r = RuleRun(PROP, "C14.NO-AXIS-EXTENTS", floor=1, what="no per-coordinate extreme (ptp / max / min over axis 0: a bounding box) of point arrays in the quality kernels")

    def hits(tree):
        out = []
        for n in ast.walk(tree):
            if not isinstance(n, ast.Call):
                continue
            nm = (attr_chain(n.func) or "")
            last = nm.split(".")[-1] if nm else (n.func.attr if isinstance(n.func, ast.Attribute) else "")
            if last not in ("ptp", "max", "min", "amax", "amin", "nanmax", "nanmin"):
                continue
            axis = None
            for kw in n.keywords:
                if kw.arg == "axis":
                    axis = kw.value
            if axis is None and nm.startswith(("np.", "numpy.")) and len(n.args) > 1:
                axis = n.args[1]
            if isinstance(axis, ast.Constant) and axis.value == 0:
                out.append(n)
        return out

    probe = ast.parse("def q(points, lengths):\n    e = np.ptp(points, axis=0)\n    lo = points.min(axis=0)\n    hi = np.max(points, 0)\n    ok = max(lengths)\n    rows = np.linalg.norm(points, axis=1)\n    return e, lo, hi, ok, rows")
    if len(hits(probe)) != 3:
        raise AnalysisError("C14.NO-AXIS-EXTENTS: the matcher no longer recognises its embedded examples")
    n = 0
    for fn in sorted(repo.all_functions(), key=lambda f: f.qualname):
        if not fn.module.name.endswith(("optimize.cell",)):
            continue
        n += 1
        for k, c in enumerate(hits(fn.node)):
            r.bad(fn, f"{fn.qualname} takes '{ast.unparse(c)[:60]}': the extreme of every COORDINATE over the points (a bounding box). It is measured along the axes of the coordinate system, so it changes when the cell is turned: a cube in a general orientation no longer has aspect ratio 1 and scores 0.81 instead of 0", c, key=f"extent#{k}")
    r.require(n >= 8, f"only {n} functions of optimize.cell scanned")
    r.ok(None, f"{n} functions scanned; matcher verified on its embedded examples", key="scan")
    return r


no_axis_extents.rule_id = "C14.NO-AXIS-EXTENTS"



def quad_normal_symmetric(repo: Repo) -> RuleRun:
    """'... unchanged ... by renumbering the corners with any orientation-preserving symmetry of the cell': the four side normals of
    a quadrilateral are built on its face normal, so that normal is the same for the four cyclic renumberings - of a planar quad,
    of a warped one (a corner lifted out of the plane) and of one with a straight corner, where the triangle at ONE corner has no
    area at all. QuadCell.normal is evaluated over exact rational corners for all four numberings."""
    from fractions import Fraction

    from .. import exact
    from ..peval import NotEvaluable, Obj, Raised

    r = RuleRun(PROP, "C14.QUAD-NORMAL-SYMMETRIC", floor=3, what="QuadCell.normal points the same way (and is not zero) for the four cyclic renumberings of a quad (planar, warped, with a straight corner)")
    cls = repo.cls("optimize.cell.QuadCell")
    fn = cls.methods.get("normal")
    r.require(fn is not None, "QuadCell.normal vanished")
    quads = {
        "planar": [(0, 0, 0), (2, 0, 0), (3, 2, 0), (0, 1, 0)],
        "warped (one corner lifted)": [(0, 0, 0), (1, 0, 0), (1, 1, Fraction(1, 5)), (0, 1, 0)],
        "with a straight corner": [(0, 0, 0), (1, 0, 0), (2, 0, 0), (1, 2, 0)],
    }
    for label, pts in quads.items():
        got = []
        for shift in range(4):
            cell = Obj("cell", cls=cls)
            cell.set("points", [exact.vec(*pts[(k + shift) % 4]) for k in range(4)])
            try:
                n_ = exact.evaluator(repo, fn.module).call_funcinfo(fn, [cell])
            except (Raised, NotEvaluable) as err:
                raise AnalysisError(f"QuadCell.normal not evaluable over exact rational corners ({label}, numbering shifted by {shift}): {err}") from err
            if not isinstance(n_, exact.Vec):
                raise AnalysisError(f"QuadCell.normal gives {n_!r} on the exact model")
            got.append(tuple(exact.value(x) for x in n_.c))
        zero = [k for k, g in enumerate(got) if not any(g)]

        def same_direction(a, b):
            cross = (a[1] * b[2] - a[2] * b[1], a[2] * b[0] - a[0] * b[2], a[0] * b[1] - a[1] * b[0])
            return not any(cross) and sum(x * y for x, y in zip(a, b)) > 0

        r.check(
            not zero and all(same_direction(got[0], g) for g in got[1:]),
            fn,
            f"{label}: one normal for the four numberings",
            f"QuadCell.normal of a quad {label} {pts} is {[tuple(str(x) for x in g) for g in got]} for the numberings starting at corner 0, 1, 2, 3: the face normal is taken from the triangle at the corner that happens to "
            "be number 0" + (f" - which has no area for numbering {zero} (0/0: 'Degenerate Cell', or rounding noise after a rigid motion)" if zero else "") + ", so the same face scores differently depending on its numbering",
            fn.node,
            key=f"normal:{label}",
        )
    return r


quad_normal_symmetric.rule_id = "C14.QUAD-NORMAL-SYMMETRIC"


RULES = [edge_set, side_table, uniform, face_symmetry, no_stale_cache, trig_domain, shape_only, stretch_monotone, scale_free_guards, angle_arguments, no_memo, row_norms, centre_symmetric, no_axis_extents, quad_normal_symmetric]

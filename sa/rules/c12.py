"""C12 - assemble/clear/backport/delete/write round-trips preserve the model."""

from __future__ import annotations

import ast
import re
from typing import Dict, List, Optional, Set, Tuple

from ..cfg import CFG
from ..model import AnalysisError, ClassInfo, FuncInfo, Repo, TypeEnv, attr_chain, parent, st_cls, walk_shallow
from ..report import RuleRun
from ..util import Reach, fmt_path, node_calls
from .c06 import _lists_of_mesh

PROP = "C12"
TITLE = "assemble/clear/backport/delete/write round-trips preserve the model"
DECIDES = (
    "every container that assemble() fills is emptied by Mesh.clear (the idempotent geometry dict excepted) while state written "
    "by user-facing mutators does not live in a container that clear() empties (C12.CLEAR-COMPLETE); a grade() that appends to a "
    "Grading specification resets it first, works on a fresh object or is guarded by 'not yet defined' (C12.GRADE-IDEMPOTENT); a "
    "function pairing Mesh.operations with Mesh.blocks by position applies the deleted-filter that assemble applies "
    "(C12.LOCKSTEP-FILTER); in assemble the deleted test dominates every list mutation of the loop body, and the is_assembled "
    "guards dominate the bodies of grade and backport (C12.DELETE-SKIP)."
    ' clear() also empties nothing that assemble() does not fill (deleted set, merged pairs) and resets whatever state assemble() assigns on the mesh (part of C12.CLEAR-COMPLETE); coordinate setters (Face.update) store private copies, so operations sharing a vertex do not share storage after backport (C12.BACKPORT-OWNS-POINTS).'
    ' backport() is evaluated over a depot of multi-operation entities, so a pairing computed per entity instead of per operation is reported (part of C12.BACKPORT-MAP).'
    " backport() pairs every block with the operation it was assembled from, for deletes before or after that assembly, on a state produced by running assemble() abstractly (C12.BACKPORT-MAP); patches without faces are not written (C12.EMPTY-PATCH); no relative closeness test in the round trip (C12.EXACT-MOVES); copy_grading leaves the neighbour's chops untouched (C12.NEIGHBOUR-UNTOUCHED); containers of the mesh itself that assemble() fills are emptied by clear() (part of C12.CLEAR-COMPLETE)."
)
NOT_DECIDED = "equality of the written files over arbitrary call histories."
ASSUMPTIONS = ["GeometryList.add is a dict merge and therefore idempotent under re-assembly (stated exception)"]

EMPTY_CTORS = {"list", "dict", "set", "OrderedDict", "collections.OrderedDict"}


def _container_attrs(cls: ClassInfo) -> Set[str]:
    init = cls.methods.get("__init__")
    out = set()
    if init is None:
        return out
    for n in walk_shallow(init.node):
        tgt, val = None, None
        if isinstance(n, ast.Assign):
            tgt, val = n.targets[0], n.value
        elif isinstance(n, ast.AnnAssign):
            tgt, val = n.target, n.value
        if isinstance(tgt, ast.Attribute) and attr_chain(tgt.value) == "self" and val is not None:
            if isinstance(val, (ast.List, ast.Dict, ast.Set)) and not getattr(val, "elts", getattr(val, "keys", [])):
                out.add(tgt.attr)
            elif isinstance(val, ast.Call) and attr_chain(val.func) in EMPTY_CTORS and not val.args:
                out.add(tgt.attr)
    return out


def _cleared_attrs(cls: ClassInfo) -> Set[str]:
    clear = cls.methods.get("clear")
    out = set()
    if clear is None:
        return out
    for n in walk_shallow(clear.node):
        if isinstance(n, ast.Call) and isinstance(n.func, ast.Attribute) and n.func.attr == "clear":
            ch = attr_chain(n.func.value) or ""
            if ch.startswith("self."):
                out.add(ch.split(".")[1])
        if isinstance(n, ast.Assign) and isinstance(n.targets[0], ast.Attribute) and attr_chain(n.targets[0].value) == "self":
            v = n.value
            if (isinstance(v, (ast.List, ast.Dict)) and not getattr(v, "elts", getattr(v, "keys", []))) or (isinstance(v, ast.Call) and attr_chain(v.func) in EMPTY_CTORS and not v.args):
                out.add(n.targets[0].attr)
    return out


MUTATORS = {"append", "extend", "insert", "add", "update", "setdefault", "__setitem__"}


def _mutated_attrs(repo: Repo, fn: FuncInfo, cls: ClassInfo, seen: Optional[Set[str]] = None) -> Set[str]:
    """Container attributes of `cls` (self.X) that fn, or methods of cls it calls on self, may grow."""
    seen = seen or set()
    if fn.qualname in seen:
        return set()
    seen.add(fn.qualname)
    out = set()
    for n in walk_shallow(fn.node):
        if isinstance(n, ast.Call) and isinstance(n.func, ast.Attribute):
            ch = attr_chain(n.func.value) or ""
            if n.func.attr in MUTATORS and ch.startswith("self.") and ch.count(".") == 1:
                out.add(ch.split(".")[1])
            if ch == "self":
                m = repo.find_method(cls, n.func.attr)
                if m is not None:
                    out |= _mutated_attrs(repo, m, cls, seen)
        if isinstance(n, (ast.Assign, ast.AugAssign)):
            tgts = n.targets if isinstance(n, ast.Assign) else [n.target]
            for t in tgts:
                if isinstance(t, ast.Subscript):
                    ch = attr_chain(t.value) or ""
                    if ch.startswith("self.") and ch.count(".") == 1:
                        # get-or-create under 'if key not in self.X' is idempotent, not growth
                        p = parent(n)
                        idem = (
                            isinstance(p, ast.If)
                            and isinstance(p.test, ast.Compare)
                            and isinstance(p.test.ops[0], ast.NotIn)
                            and attr_chain(p.test.comparators[0]) == ch
                            and ast.unparse(p.test.left) == ast.unparse(t.slice)
                        )
                        if not idem:
                            out.add(ch.split(".")[1])
    return out


def _element_growth(repo: Repo, cls: ClassInfo, closure: Set[FuncInfo]) -> List[Tuple[str, ClassInfo, str]]:
    """(container attr X of cls, element class E, container attr Y of E) such that a method of cls in
    `closure` calls, on an element taken from self.X, a method of E that grows E.Y."""
    out = []
    sources: Dict[str, str] = {}
    for name, mm in cls.methods.items():
        for x in walk_shallow(mm.node):
            if isinstance(x, ast.Return) and isinstance(x.value, ast.Subscript):
                ch = attr_chain(x.value.value) or ""
                if ch.startswith("self.") and ch.count(".") == 1:
                    sources[name] = ch.split(".")[1]
    for m in cls.methods.values():
        if m not in closure:
            continue
        env = None
        for n in walk_shallow(m.node):
            if isinstance(n, ast.Call) and isinstance(n.func, ast.Attribute) and isinstance(n.func.value, ast.Call) and isinstance(n.func.value.func, ast.Attribute) and attr_chain(n.func.value.func.value) == "self" and n.func.value.func.attr in sources:
                x_attr = sources[n.func.value.func.attr]
                if env is None:
                    env = TypeEnv(repo, m)
                ecls = st_cls(env.type_of(n.func.value))
                if ecls is None:
                    continue
                em = repo.find_method(ecls, n.func.attr)
                if em is None:
                    continue
                for y in _mutated_attrs(repo, em, ecls):
                    out.append((x_attr, ecls, y))
    return out


def clear_complete(repo: Repo) -> RuleRun:
    r = RuleRun(PROP, "C12.CLEAR-COMPLETE", floor=8, what="clear() empties what assemble() fills, and nothing the user set through the mesh")
    mesh = repo.cls("mesh.Mesh")
    lists = _lists_of_mesh(repo)
    asm = repo.func("mesh.Mesh.assemble")
    clear = repo.func("mesh.Mesh.clear")
    asm_closure = repo.reachable([asm])
    cleared_lists = {attr_chain(n.func.value).split(".")[1] for n in walk_shallow(clear.node) if isinstance(n, ast.Call) and isinstance(n.func, ast.Attribute) and n.func.attr == "clear" and (attr_chain(n.func.value) or "").startswith("self.")}
    for attr, qn in sorted(lists.items()):
        cls = repo.cls(qn)
        filled: Set[str] = set()
        for m in cls.methods.values():
            if m in asm_closure and m.name not in ("clear", "__init__"):
                filled |= _mutated_attrs(repo, m, cls)
        # geometry: reassignment by dict merge
        for m in cls.methods.values():
            if m in asm_closure:
                for n in walk_shallow(m.node):
                    if isinstance(n, ast.Assign) and isinstance(n.targets[0], ast.Attribute) and attr_chain(n.targets[0].value) == "self" and isinstance(n.value, ast.Dict) and any(k is None for k in n.value.keys):
                        filled.add(f"{n.targets[0].attr}(dict-merge)")
        merge_only = filled and all(x.endswith("(dict-merge)") for x in filled)
        growth = _element_growth(repo, cls, asm_closure)
        if growth:
            clear_m = cls.methods.get("clear")
            own_cleared = _cleared_attrs(cls) if attr in cleared_lists else set()
            for x_attr, ecls, y in growth:
                ok = x_attr in own_cleared
                if not ok and clear_m is not None and attr in cleared_lists:
                    for lp in [n for n in walk_shallow(clear_m.node) if isinstance(n, ast.For) and isinstance(lp_t := n.target, ast.Name)]:
                        it = ast.unparse(lp.iter)
                        if it in (f"self.{x_attr}.values()", f"self.{x_attr}"):
                            v = lp.target.id
                            for s_ in lp.body:
                                if isinstance(s_, ast.Expr) and isinstance(s_.value, ast.Call) and ast.unparse(s_.value.func) == f"{v}.{y}.clear":
                                    ok = True
                                if isinstance(s_, ast.Assign) and ast.unparse(s_.targets[0]) == f"{v}.{y}" and isinstance(s_.value, ast.List) and not s_.value.elts:
                                    ok = True
                r.check(ok, cls, f"clear() empties {ecls.name}.{y} of every element of {x_attr}", f"assemble() appends to {ecls.name}.{y} of the elements of {cls.name}.{x_attr}, but {cls.name}.clear neither drops those elements nor empties their {y}: a second assemble() duplicates them", clear_m.node if clear_m else cls.node, key=f"list:{attr}:{x_attr}.{y}")
        if not filled:
            if not growth:
                r.ok(cls, "not filled by assemble()", key=f"list:{attr}")
            continue
        if merge_only:
            r.ok(cls, "filled by an idempotent dict merge (stated exception: re-assembly adds the same keys)", key=f"list:{attr}")
            continue
        if attr not in cleared_lists:
            r.bad(clear, f"assemble() fills self.{attr} ({sorted(filled)}) but Mesh.clear does not clear it: a second assemble() duplicates its content", clear.node, key=f"list:{attr}")
            continue
        own_cleared = _cleared_attrs(cls)
        missing = {x for x in filled if not x.endswith("(dict-merge)")} - own_cleared
        r.check(not missing, cls, f"clear() empties {sorted(filled)}", f"{cls.name}.clear leaves {sorted(missing)} filled although assemble() appends to it on every run", cls.methods.get("clear").node if cls.methods.get("clear") else cls.node, key=f"list:{attr}")

    # converse: clear() empties nothing that assemble() does not fill (user configuration: deleted set, merged pairs, ...)
    for n in walk_shallow(clear.node):
        tgt_attr = None
        if isinstance(n, ast.Call) and isinstance(n.func, ast.Attribute) and n.func.attr in ("clear", "pop", "popitem", "remove", "discard"):
            ch = attr_chain(n.func.value) or ""
            if ch.startswith("self.") and ch.count(".") == 1 and ch.split(".")[1] not in lists:
                tgt_attr = ch.split(".")[1]
        elif isinstance(n, (ast.Assign, ast.AugAssign, ast.AnnAssign)):
            for t in n.targets if isinstance(n, ast.Assign) else [n.target]:
                if isinstance(t, ast.Attribute) and attr_chain(t.value) == "self":
                    tgt_attr = t.attr
        if tgt_attr is None:
            continue
        parts_ = [asm] + [f_ for f_ in asm_closure if f_.cls is mesh and f_.name not in ("clear", "__init__", "assemble")]
        filled_by_asm = any(tgt_attr in _mutated_attrs(repo, part_, mesh) for part_ in parts_) or any(
            # ... or plainly assigned by assemble() (a state flag / a remembered option): resetting it is clear()'s job
            isinstance(x_, (ast.Assign, ast.AugAssign, ast.AnnAssign)) and any(isinstance(t_, ast.Attribute) and attr_chain(t_.value) == "self" and t_.attr == tgt_attr for t_ in (x_.targets if isinstance(x_, ast.Assign) else [x_.target]))
            for part_ in parts_
            for x_ in ast.walk(part_.node)
        )
        r.check(
            filled_by_asm,
            clear,
            f"self.{tgt_attr} is filled by assemble() and emptied by clear()",
            f"Mesh.clear resets self.{tgt_attr} ('{ast.unparse(n)[:60]}'), which assemble() never fills: it is set by the user (e.g. Mesh.delete) and is lost "
            "by clear()+assemble() and by backport() - a deleted operation comes back",
            n,
            key=f"overreach:Mesh.{tgt_attr}",
        )
    # containers of the mesh itself that assemble() fills in place (a record of what was assembled): clear() must empty them
    # (assemble() itself and the private methods of Mesh it hands the work to; clear() - called when an assembly fails - excepted)
    asm_parts = [asm] + sorted((f_ for f_ in asm_closure if f_.cls is mesh and f_ is not asm and f_.name not in ("clear", "__init__", "assemble")), key=lambda f_: f_.qualname)
    own_filled = {a_ for part_ in asm_parts for a_ in _mutated_attrs(repo, part_, mesh) if a_ not in lists and not a_.endswith("(dict-merge)")}
    emptied = set()
    for n in walk_shallow(clear.node):
        if isinstance(n, ast.Call) and isinstance(n.func, ast.Attribute) and n.func.attr == "clear":
            ch = attr_chain(n.func.value) or ""
            if ch.startswith("self.") and ch.count(".") == 1:
                emptied.add(ch.split(".")[1])
        elif isinstance(n, (ast.Assign, ast.AnnAssign)):
            for t in n.targets if isinstance(n, ast.Assign) else [n.target]:
                if isinstance(t, ast.Attribute) and attr_chain(t.value) == "self":
                    emptied.add(t.attr)
    for a_ in sorted(own_filled):
        r.check(a_ in emptied, clear, f"self.{a_} is filled by assemble() and emptied by clear()", f"assemble() adds to self.{a_} on every run but Mesh.clear does not empty it: after clear() + assemble() (and after backport()) it holds the entries of both assemblies - blocks are paired with the wrong operations", clear.node, key=f"own-container:{a_}")
    # state flags: whatever assemble() assigns on the mesh itself, clear() must reset
    def assigned(fn):
        out = {}
        for n in ast.walk(fn.node):
            if isinstance(n, (ast.Assign, ast.AugAssign, ast.AnnAssign)):
                for t in n.targets if isinstance(n, ast.Assign) else [n.target]:
                    if isinstance(t, ast.Attribute) and attr_chain(t.value) == "self":
                        out[t.attr] = n
        return out

    asm_assigned, clear_assigned = {}, assigned(clear)
    for part_ in asm_parts:
        asm_assigned.update(assigned(part_))
    for a_, node_ in sorted(asm_assigned.items()):
        r.check(
            a_ in clear_assigned,
            clear,
            f"self.{a_} is assigned by assemble() and reset by clear()",
            f"Mesh.assemble assigns self.{a_} ('{ast.unparse(node_)[:60]}') but Mesh.clear does not reset it: after assemble()+clear() the mesh still carries the "
            "assembled state although its lists are empty (is_assembled / life-cycle guards answer wrongly)",
            node_,
            key=f"state:Mesh.{a_}",
        )
    for attr, qn in sorted(lists.items()):
        cls = repo.cls(qn)
        if attr not in cleared_lists or cls.methods.get("clear") is None:
            continue
        filled = set()
        for m in cls.methods.values():
            if m in asm_closure and m.name not in ("clear", "__init__"):
                filled |= _mutated_attrs(repo, m, cls)
        filled |= {x_attr for x_attr, _, _ in _element_growth(repo, cls, asm_closure)}
        for x in sorted(_cleared_attrs(cls)):
            r.check(
                x in filled,
                cls,
                f"clear() empties {x}, which assemble() fills",
                f"{cls.name}.clear empties self.{x}, which no method reachable from Mesh.assemble fills: it holds what the user declared (e.g. merged patch pairs) and is lost by "
                "clear()+assemble() and by backport()",
                cls.methods["clear"].node,
                key=f"overreach:{cls.name}.{x}",
            )

    # user-facing mutators must not store into cleared containers
    lifecycle = {"assemble", "clear", "backport", "write", "grade", "__init__", "add", "delete", "_add_vertices", "format_settings"}
    for m in sorted(mesh.methods.values(), key=lambda f: f.name):
        if m.name in lifecycle or m.is_property:
            continue
        for n in walk_shallow(m.node):
            if not (isinstance(n, ast.Call) and isinstance(n.func, ast.Attribute)):
                continue
            ch = attr_chain(n.func.value) or ""
            if not (ch.startswith("self.") and ch.split(".")[1] in lists):
                continue
            lattr = ch.split(".")[1]
            cls = repo.cls(lists[lattr])
            target = repo.find_method(cls, n.func.attr)
            if target is None:
                continue
            cleared = _cleared_attrs(cls) if lattr in cleared_lists else set()
            # (a) direct growth of a cleared container
            grown = _mutated_attrs(repo, target, cls) & cleared
            # (b) attribute stores on elements obtained from a cleared container
            elem_sources = {name for name, mm in cls.methods.items() if any(isinstance(x, ast.Return) and isinstance(x.value, ast.Subscript) and (attr_chain(x.value.value) or "").startswith("self.") and (attr_chain(x.value.value) or "").split(".")[1] in cleared for x in walk_shallow(mm.node))}
            elem_vars: Set[str] = set()
            stores = []
            for x in walk_shallow(target.node):
                if isinstance(x, ast.Assign) and isinstance(x.targets[0], ast.Name):
                    v = x.value
                    if isinstance(v, ast.Call) and isinstance(v.func, ast.Attribute) and attr_chain(v.func.value) == "self" and v.func.attr in elem_sources:
                        elem_vars.add(x.targets[0].id)
                    if isinstance(v, ast.Subscript) and (attr_chain(v.value) or "").startswith("self.") and (attr_chain(v.value) or "").split(".")[1] in cleared:
                        elem_vars.add(x.targets[0].id)
            for x in walk_shallow(target.node):
                if isinstance(x, ast.Assign) and isinstance(x.targets[0], ast.Attribute) and isinstance(x.targets[0].value, ast.Name) and x.targets[0].value.id in elem_vars:
                    stores.append(x)
            problem = bool(stores) or bool(grown - {a for a in grown if a in elem_sources})
            r.check(
                not stores,
                target,
                f"Mesh.{m.name} -> {cls.name}.{target.name}: user state survives clear()",
                f"Mesh.{m.name} stores user settings ({', '.join(ast.unparse(s.targets[0]) for s in stores)}) on an object that lives in {cls.name}.{'/'.join(sorted(cleared))}, "
                "which clear() empties: the setting is lost by clear()+assemble() and by backport()",
                stores[0] if stores else target.node,
                key=f"user-state:{m.name}",
            )
    return r


clear_complete.rule_id = "C12.CLEAR-COMPLETE"


# --------------------------------------------------------------------------------------------
def grade_idempotent(repo: Repo) -> RuleRun:
    r = RuleRun(PROP, "C12.GRADE-IDEMPOTENT", floor=3, what="grade() does not accumulate grading sections across calls")
    grade = repo.func("mesh.Mesh.grade")
    closure = repo.reachable([grade])
    g_add = repo.func("grading.grading.Grading.add_chop")
    w_add = repo.func("items.wires.wire.Wire.add_chop")
    appenders = {g_add, w_add}
    for fn in sorted(closure, key=lambda f: f.qualname):
        if fn in appenders or fn.cls is None:
            continue
        sites = [cs for cs in repo.callsites(fn) if set(cs.callees) & appenders and not getattr(cs.node, "_property_read", False)]
        if not sites:
            continue
        g = CFG(fn.node)
        for cs in sites:
            call = cs.node
            recv = call.func.value if isinstance(call.func, ast.Attribute) else None
            rtxt = ast.unparse(recv) if recv is not None else "?"
            # (a) fresh object created in this function
            fresh = False
            if isinstance(recv, ast.Name):
                for n in walk_shallow(fn.node):
                    if isinstance(n, ast.Assign) and isinstance(n.targets[0], ast.Name) and n.targets[0].id == recv.id and isinstance(n.value, ast.Call) and attr_chain(n.value.func) == "Grading":
                        fresh = True
            # (b) guarded by 'not <recv>(.grading).is_defined'
            guarded = False
            p = parent(call)
            while p is not None and p is not fn.node:
                if isinstance(p, ast.If) and isinstance(p.test, ast.UnaryOp) and isinstance(p.test.op, ast.Not) and "is_defined" in ast.unparse(p.test) and ast.unparse(p.test.operand).startswith(rtxt.split(".grading")[0]):
                    guarded = True
                p = parent(p)
            # (c) reset earlier in this function on every path: <recv>.specification = [] / .clear() / <recv> = Grading(...)
            st = call
            while not isinstance(st, ast.stmt):
                st = parent(st)
            nodes = g.nodes_of(st)
            base = rtxt  # e.g. self.grading, wire (-> wire.grading)
            def is_reset(n) -> bool:
                s_ = n.stmt
                if n.kind != "stmt":
                    return False
                if isinstance(s_, ast.Assign):
                    t = ast.unparse(s_.targets[0])
                    if t in (f"{base}.specification", f"{base}.grading.specification", base, f"{base}.grading") and (isinstance(s_.value, ast.List) or (isinstance(s_.value, ast.Call) and attr_chain(s_.value.func) == "Grading")):
                        return True
                if isinstance(s_, ast.Expr) and isinstance(s_.value, ast.Call) and ast.unparse(s_.value.func) in (f"{base}.specification.clear", f"{base}.grading.specification.clear", f"{base}.clear", f"{base}.grading.clear", f"{base}.reset", f"{base}.grading.reset"):
                    return True
                return False

            # a loop over the same container that unconditionally resets every element counts as a reset
            from ..util import enclosing_loops, loop_continues, loop_early_exits

            my_loops = [lp for lp in enclosing_loops(call, fn.node) if isinstance(lp, ast.For) and isinstance(lp.target, ast.Name) and isinstance(recv, ast.Name) and lp.target.id == recv.id]
            container = ast.unparse(my_loops[0].iter) if my_loops else None

            def is_reset_loop(n) -> bool:
                lp = n.stmt
                if n.kind != "for" or container is None or not isinstance(lp, ast.For) or not isinstance(lp.target, ast.Name):
                    return False
                if ast.unparse(lp.iter) != container or loop_early_exits(lp) or loop_continues(lp):
                    return False
                v = lp.target.id
                for s_ in lp.body:
                    if isinstance(s_, ast.Assign) and ast.unparse(s_.targets[0]) in (f"{v}.grading", f"{v}.grading.specification") and (isinstance(s_.value, ast.List) or (isinstance(s_.value, ast.Call) and attr_chain(s_.value.func) == "Grading")):
                        return True
                    if isinstance(s_, ast.Expr) and isinstance(s_.value, ast.Call) and ast.unparse(s_.value.func) in (f"{v}.grading.specification.clear", f"{v}.grading.clear", f"{v}.grading.reset"):
                        return True
                return False

            reset = bool(nodes) and all(g.dominated_by(n, lambda x: is_reset(x) or is_reset_loop(x)) for n in nodes)
            # resets performed through self.update()/reset helpers
            if not reset:
                for n in g.stmt_nodes():
                    for c2 in repo.callsites(fn):
                        pass
            ok = fresh or guarded or reset
            r.check(
                ok,
                fn,
                f"{rtxt}.add_chop: {'fresh object' if fresh else 'guarded by not-defined' if guarded else 'reset first'}",
                f"{fn.qualname} appends grading sections to {rtxt} on every call without resetting it: a second grade()/write() of the same mesh "
                "doubles every count and turns simple gradings into multi-gradings",
                call,
                key=f"append:{rtxt}",
            )
    return r


grade_idempotent.rule_id = "C12.GRADE-IDEMPOTENT"


# --------------------------------------------------------------------------------------------
def lockstep_filter(repo: Repo) -> RuleRun:
    r = RuleRun(PROP, "C12.LOCKSTEP-FILTER", floor=1, what="positional pairing of operations and blocks applies the deleted-filter of assemble")
    mesh = repo.cls("mesh.Mesh")
    from ..util import assemble_loop

    asm = assemble_loop(repo)
    r.require(any(isinstance(n, ast.Compare) and "self.deleted" in ast.unparse(n) for n in ast.walk(asm.node)), "Mesh.assemble no longer filters on self.deleted")
    OPS = ("self.operations",)
    BLK = ("self.blocks", "self.block_list.blocks")
    found = 0
    for m in sorted(mesh.methods.values(), key=lambda f: f.name):
        src = ast.unparse(m.node)
        alias: Dict[str, str] = {}
        for n in walk_shallow(m.node):
            if isinstance(n, ast.Assign) and isinstance(n.targets[0], ast.Name):
                ch = attr_chain(n.value)
                if ch in OPS:
                    alias[n.targets[0].id] = "ops"
                elif ch in BLK:
                    alias[n.targets[0].id] = "blocks"
                elif isinstance(n.value, (ast.ListComp,)) and any(attr_chain(g_.iter) in OPS for g_ in n.value.generators):
                    alias[n.targets[0].id] = "ops-filtered" if "self.deleted" in ast.unparse(n.value) else "ops"

        def kind(e: ast.expr) -> Optional[str]:
            ch = attr_chain(e)
            if ch in OPS:
                return "ops"
            if ch in BLK:
                return "blocks"
            if isinstance(e, ast.Name):
                return alias.get(e.id)
            return None

        paired = None
        for n in walk_shallow(m.node):
            if isinstance(n, ast.For):
                it = n.iter
                if isinstance(it, ast.Call) and attr_chain(it.func) == "enumerate" and it.args and isinstance(n.target, ast.Tuple) and isinstance(n.target.elts[0], ast.Name):
                    k1 = kind(it.args[0])
                    idx = n.target.elts[0].id
                    for x in ast.walk(n):
                        if isinstance(x, ast.Subscript) and isinstance(x.slice, ast.Name) and x.slice.id == idx:
                            k2 = kind(x.value)
                            if k1 and k2 and {k1.split("-")[0], k2.split("-")[0]} == {"ops", "blocks"}:
                                paired = (n, k1, k2)
                if isinstance(it, ast.Call) and attr_chain(it.func) == "zip" and len(it.args) == 2:
                    k1, k2 = kind(it.args[0]), kind(it.args[1])
                    if k1 and k2 and {k1.split("-")[0], k2.split("-")[0]} == {"ops", "blocks"}:
                        paired = (n, k1, k2)
        if paired is None:
            continue
        found += 1
        loop, k1, k2 = paired
        filtered = "ops-filtered" in (k1, k2) or any(isinstance(x, ast.Compare) and "self.deleted" in ast.unparse(x) for x in ast.walk(loop))
        r.check(
            filtered,
            m,
            "operations filtered by self.deleted before pairing with blocks",
            f"Mesh.{m.name} pairs operations with blocks by position but does not skip deleted operations as assemble() does: after delete(op) every "
            "later block is matched with the wrong operation (backport rewrites the deleted operation and leaves the last one untouched)",
            loop,
            key=m.name,
        )
    if found == 0:
        # the pairing is not written in the recognised shape: the syntactic rule has nothing to say, the behaviour itself is decided
        # by the abstract run of backport (C12.BACKPORT-MAP)
        r.ok(repo.func("mesh.Mesh.backport"), "positional pairing not recognised syntactically; decided by C12.BACKPORT-MAP", key="backport")
    return r


lockstep_filter.rule_id = "C12.LOCKSTEP-FILTER"


# --------------------------------------------------------------------------------------------
def delete_skip(repo: Repo) -> RuleRun:
    r = RuleRun(PROP, "C12.DELETE-SKIP", floor=6, what="deleted test dominates list mutations in assemble; is_assembled guards dominate grade/backport")
    from ..util import assemble_loop

    asm = assemble_loop(repo)
    g = CFG(asm.node)
    lists = _lists_of_mesh(repo)

    def is_mutation(n) -> Optional[str]:
        for c in node_calls(n):
            ch = attr_chain(c.func) or ""
            if ch == "self._add_vertices":
                return ch
            parts = ch.split(".")
            if len(parts) == 3 and parts[0] == "self" and parts[1] in lists and parts[1] != "geometry_list" and parts[2].startswith("add"):
                return ch
        return None

    guards = [n for n in g.stmt_nodes() if n.kind == "if" and "self.deleted" in ast.unparse(n.stmt.test)]
    r.require(len(guards) == 1, "Mesh.assemble: single 'if operation in self.deleted' test expected")
    guard = guards[0]
    test = guard.stmt.test
    positive = isinstance(test, ast.Compare) and isinstance(test.ops[0], ast.In)
    skip_in_body = any(isinstance(s, ast.Continue) for s in guard.stmt.body)
    r.check(positive and skip_in_body or (not positive and not skip_in_body), asm, "deleted operations are skipped", f"the test '{ast.unparse(test)}' does not skip deleted operations", guard.stmt, key="guard-polarity")
    muts = [(n, is_mutation(n)) for n in g.stmt_nodes() if is_mutation(n)]
    r.require(len(muts) >= 4, f"Mesh.assemble: expected at least 4 list mutations, found {len(muts)}")
    for n, what in muts:
        r.check(g.dominates(guard, n), asm, f"{what} dominated by the deleted test", f"{what} can run without passing the deleted test: a deleted operation still contributes to the mesh", n.stmt, key=f"dominates:{what}")
    # guard uses the loop's own operation
    loops = [x for x in ast.walk(asm.node) if isinstance(x, ast.For) and any(y is guard.stmt for y in x.body)]
    r.require(len(loops) == 1 and isinstance(loops[0].target, ast.Name), "deleted test is not directly in the per-operation loop")
    r.check(isinstance(test, ast.Compare) and ast.unparse(test.left) == loops[0].target.id, asm, "test applies to the loop's operation", f"the deleted test looks at '{ast.unparse(test.left) if isinstance(test, ast.Compare) else '?'}', not at the operation being assembled", guard.stmt, key="guard-subject")
    # Mesh.delete adds to deleted
    dele = repo.func("mesh.Mesh.delete")
    ok = any(isinstance(c, ast.Call) and attr_chain(c.func) == "self.deleted.add" and ast.unparse(c.args[0]) == dele.params[1] for c in ast.walk(dele.node))
    r.check(ok, dele, "delete() registers the operation", "Mesh.delete does not add the operation to self.deleted", dele.node, key="delete")
    # is_assembled guards
    for qn in ("mesh.Mesh.grade", "mesh.Mesh.backport"):
        fn = repo.func(qn)
        gg = CFG(fn.node)
        gnodes = [n for n in gg.stmt_nodes() if n.kind == "if" and "is_assembled" in ast.unparse(n.stmt.test) and any(isinstance(b, ast.Raise) for b in n.stmt.body)]
        if not gnodes:
            r.bad(fn, f"{fn.qualname} has no 'if not self.is_assembled: raise' guard", fn.node, key=f"assembled-guard:{fn.name}")
            continue
        guardn = gnodes[0]
        neg = isinstance(guardn.stmt.test, ast.UnaryOp) and isinstance(guardn.stmt.test.op, ast.Not)
        work = [n for n in gg.stmt_nodes() if n.kind == "stmt" and not isinstance(n.stmt, ast.Raise) and not (isinstance(n.stmt, ast.Expr) and isinstance(n.stmt.value, ast.Constant)) and node_calls(n) and not any(x is n.stmt for x in ast.walk(guardn.stmt))]
        ok = neg and all(gg.dominates(guardn, n) for n in work) and bool(work)
        r.check(ok, fn, "is_assembled guard dominates the body", f"{fn.qualname}: work can be done before/without the 'not assembled' check", guardn.stmt, key=f"assembled-guard:{fn.name}")
    return r


delete_skip.rule_id = "C12.DELETE-SKIP"

def backport_map(repo: Repo) -> RuleRun:
    """Abstract run of Mesh.backport on a symbolic mesh (3 operations, optionally one deleted): every
    non-deleted operation receives the 8 vertex positions of ITS block - corners 0-3 on the bottom
    face, 4-7 on the top face - and the mesh is cleared and assembled again afterwards."""
    from ..peval import NO_MATCH, Evaluator, NotEvaluable, Obj, Raised, Sym, empty_defaults

    r = RuleRun(PROP, "C12.BACKPORT-MAP", floor=8, what="backport writes every block's vertices into the operation that block was assembled from (operations deleted before OR after that assembly), all 8 corners, then re-assembles")
    fn = repo.func("mesh.Mesh.backport")
    upd = repo.func("construct.flat.face.Face.update")
    asm = repo.func("mesh.Mesh.assemble")
    for deleted, late in ((None, None), (0, None), (1, None), (2, None), (None, 0), (None, 1), (None, 2), (0, 2)):
        # `deleted`: operation deleted BEFORE the assembly that created the blocks; `late`: deleted after it (its block exists)
        ops = []
        for i in range(3):
            op = Obj(f"op{i}", cls=repo.cls("construct.operations.operation.Operation"))
            for nm in ("bottom", "top"):
                face = Obj(f"op{i}.{nm}", cls=repo.cls("construct.flat.face.Face"))
                face.set("points", [Obj(f"op{i}.{nm}.p{k}", position=Sym(f"old{i}{nm}{k}")) for k in range(4)])
                op.set(f"{nm}_face", face)
            op.set("chops", {0: [], 1: [], 2: []})
            op.set("cell_zone", "")
            op.set("geometry", None)
            ops.append(op)
        mesh = Obj("mesh", cls=repo.cls("mesh.Mesh"))
        # operations 0 and 1 belong to one multi-operation entity (a shape), operation 2 stands alone: Mesh.operations is evaluated
        shape_ = Obj("shape", cls=repo.cls("construct.shape.Shape"))
        shape_.set("operations", [ops[0], ops[1]])
        shape_.set("geometry", None)
        mesh.set("depot", [shape_, ops[2]])
        mesh.set("deleted", {ops[deleted]} if deleted is not None else set())
        empty_defaults(repo, repo.cls("mesh.Mesh"), mesh)
        bl = Obj("block_list")
        bl.set("blocks", [])
        mesh.set("block_list", bl)
        for nm in ("edge_list", "patch_list", "face_list", "geometry_list", "vertex_list"):
            mesh.set(nm, Obj(nm))
        mesh.get("vertex_list").set("vertices", [])

        # the assembled state is produced by the repository's own assemble() (vertices: one fresh object per corner)
        def asm_hook(ev, call: ast.Call, name, bl=bl):
            ch = attr_chain(call.func) or ""
            if ch == "self._add_vertices":
                o = ev.eval(call.args[0])
                return [Obj(f"v:{o._name}:{k}", position=Sym(f"new:{o._name}:{k}")) for k in range(8)]
            if ch == "Block":
                args = [ev.eval(a) for a in call.args]
                b = Obj(f"block{args[0]}")
                b.set("index", args[0])
                b.set("vertices", args[1])
                return b
            if ch == "self.edge_list.add_from_operation":
                return []
            if ch == "self.block_list.add":
                bl.get("blocks").append(ev.eval(call.args[0]))
                return None
            if ch in ("self.patch_list.add", "self.face_list.add", "self.add_geometry", "self.geometry_list.add"):
                return None
            if ch == "get_args":
                return (0, 1, 2)
            return NO_MATCH

        try:
            Evaluator(repo=repo, module=asm.module, call_hook=asm_hook).call_funcinfo(asm, [mesh])
        except (Raised, NotEvaluable) as err:
            raise AnalysisError(f"Mesh.assemble not evaluable while preparing the assembled mesh: {err}") from err
        mesh.set("is_assembled", True)
        mesh.set("blocks", list(bl.get("blocks")))
        if late is not None:
            # through the repository's own Mesh.delete: whatever else it does to the record of the assembly counts
            dele = repo.func("mesh.Mesh.delete")
            try:
                Evaluator(repo=repo, module=dele.module).call_funcinfo(dele, [mesh, ops[late]])
            except (Raised, NotEvaluable) as err:
                raise AnalysisError(f"Mesh.delete not evaluable on the assembled mesh model: {err}") from err
            if ops[late] not in mesh.get("deleted"):
                mesh.get("deleted").add(ops[late])  # (reported by C12.DELETE-SKIP)
        label = f"deleted before assembly: {deleted}, after: {late}"
        events = []

        def hook(ev, call: ast.Call, name, events=events):
            if attr_chain(call.func) in ("self.clear", "self.assemble"):
                events.append(attr_chain(call.func))
                return None
            if name in ("np.array", "np.asarray") and call.args:
                return ev.eval(call.args[0])
            if name == "Point" and call.args:
                return Obj("fresh_point", position=ev.eval(call.args[0]))
            return NO_MATCH

        before_points = {id(p_): p_ for op_ in ops for nm_ in ("bottom", "top") for p_ in op_.get(f"{nm_}_face").get("points")}
        ev = Evaluator(repo=repo, module=fn.module, call_hook=hook)
        try:
            ev.call_funcinfo(fn, [mesh])
        except Raised as err:
            r.bad(fn, f"Mesh.backport raises {err.exc_name} on a mesh of 3 operations ({label})", fn.node, key=f"deleted={deleted}" + (f":late={late}" if late is not None else ""))
            continue
        except NotEvaluable as err:
            raise AnalysisError(f"Mesh.backport not evaluable on the symbolic mesh: {err}") from err
        problems = []
        for i, op in enumerate(ops):
            got = [p.get("position") for p in op.get("bottom_face").get("points")] + [p.get("position") for p in op.get("top_face").get("points")]
            if i == deleted:
                want = [Sym(f"old{i}bottom{k}") for k in range(4)] + [Sym(f"old{i}top{k}") for k in range(4)]
                if got != want:
                    problems.append(f"the deleted operation {i} was rewritten: {got}")
            elif i == late:
                # deleted after the assembly: it still has its block; taking that block's positions or being left alone are both fine
                old_ = [Sym(f"old{i}bottom{k}") for k in range(4)] + [Sym(f"old{i}top{k}") for k in range(4)]
                own = [Sym(f"new:op{i}:{k}") for k in range(8)]
                if got not in (old_, own):
                    problems.append(f"operation {i} (deleted after the assembly) receives positions of another block: {[repr(g) for g in got[:2]]}...")
            else:
                want = [Sym(f"new:op{i}:{k}") for k in range(8)]
                wrong = [k for k in range(8) if got[k] != want[k]]
                if wrong:
                    problems.append(f"operation {i}: corner(s) {wrong} receive {[repr(got[k]) for k in wrong]} instead of the positions of its own block's vertices {wrong}")
        replaced = [p_._name for op_ in ops for nm_ in ("bottom", "top") for p_ in op_.get(f"{nm_}_face").get("points") if id(p_) not in before_points]
        if replaced:
            problems.append(f"{len(replaced)} corner point objects were REPLACED instead of moved (what the user declared on them - projections to geometry - is lost by backport)")
        if events != ["self.clear", "self.assemble"]:
            problems.append(f"after copying the positions backport calls {events}; expected clear() then assemble()")
        r.check(not problems, fn, f"3 operations, {label}: every operation that has a block gets its block's 8 positions", f"Mesh.backport ({label}): " + "; ".join(problems), fn.node, key=f"deleted={deleted}" + (f":late={late}" if late is not None else ""))
    return r


backport_map.rule_id = "C12.BACKPORT-MAP"

def backport_keeps_options(repo: Repo) -> RuleRun:
    """'back-porting unmodified vertices yields the same written dictionary as a single assembly': backport() re-assembles the mesh
    the way it was assembled - an assembly made with skip_edges=True is re-made with skip_edges=True (otherwise the edges that were
    left out on purpose come back). Abstract run of assemble(skip_edges=True) on an empty depot followed by backport(): the
    re-assembly is asked for with the same option."""
    from ..peval import NO_MATCH, Evaluator, NotEvaluable, Obj, Raised, Sym, empty_defaults

    r = RuleRun(PROP, "C12.BACKPORT-KEEPS-OPTIONS", floor=2, what="backport() re-assembles with the skip_edges option of the assembly it replaces")
    mesh_cls = repo.cls("mesh.Mesh")
    asm = repo.func("mesh.Mesh.assemble")
    bp = repo.func("mesh.Mesh.backport")
    for option in (True, False):
        mesh = Obj("mesh", cls=mesh_cls)
        empty_defaults(repo, mesh_cls, mesh)
        mesh.set("depot", [])
        mesh.set("deleted", set())
        mesh.set("assembled", [])
        for nm in ("vertex_list", "block_list", "edge_list", "patch_list", "face_list", "geometry_list"):
            mesh.set(nm, Obj(nm, vertices=[], blocks=[]))
        seen = []

        def hook(ev, call: ast.Call, name, seen=seen):
            ch = attr_chain(call.func) or ""
            if ch == "self.assemble":
                args = [ev.eval(a) for a in call.args]
                kws = {k.arg: ev.eval(k.value) for k in call.keywords}
                seen.append(args[0] if args else kws.get("skip_edges", False))
                return None
            if ch.startswith("self.") and ch.endswith("_list.clear"):
                return None
            return NO_MATCH

        try:
            Evaluator(repo=repo, module=asm.module, call_hook=hook).call_funcinfo(asm, [mesh, option])
            mesh.set("is_assembled", True)
            mesh.set("blocks", [])
            Evaluator(repo=repo, module=bp.module, call_hook=hook).call_funcinfo(bp, [mesh])
        except (Raised, NotEvaluable) as err:
            raise AnalysisError(f"assemble(skip_edges={option}) + backport() not evaluable on the empty mesh model: {err}") from err
        r.check(
            len(seen) == 1 and bool(seen[0]) is option,
            bp,
            f"assembled with skip_edges={option}: re-assembled with skip_edges={seen}",
            f"Mesh.backport after assemble(skip_edges={option}) asks for the re-assembly with skip_edges={seen}: the edges that were left out on purpose are back in the written dictionary although no vertex was moved",
            bp.node,
            key=f"skip_edges={option}",
        )
    return r


backport_keeps_options.rule_id = "C12.BACKPORT-KEEPS-OPTIONS"


def assemble_walk(repo: Repo) -> RuleRun:
    """Deleting an operation removes its block and nothing else (abstract run of Mesh.assemble)."""
    from . import c06

    return c06.assemble_walk(repo, PROP, "C12.ASSEMBLE-WALK")


assemble_walk.rule_id = "C12.ASSEMBLE-WALK"

def assemble_atomic(repo: Repo) -> RuleRun:
    """'... the written dictionary is a function of the current model': an assembly that fails half-way (an invalid edge on the
    second operation raises while its edges are created) leaves NO assembled state behind - the user repairs the operation and
    writes, and gets the dictionary of the repaired model, not the blocks that happened to be finished before the error.
    Abstract run of Mesh.assemble over three operations where creating the edges of the second raises: the exception reaches the
    caller, and afterwards the vertex, block, patch and face lists and the record of assembled operations are empty
    (`is_assembled` is 'there are vertices', and assemble() returns at once on an assembled mesh)."""
    from ..peval import NO_MATCH, Evaluator, NotEvaluable, Obj, Raised, Sym, empty_defaults

    r = RuleRun(PROP, "C12.ASSEMBLE-ATOMIC", floor=2, what="an assemble() that raises half-way leaves no vertices, blocks, patches, faces or assembled operations behind")
    fn = repo.func("mesh.Mesh.assemble")
    mesh_cls = repo.cls("mesh.Mesh")
    op_cls = repo.cls("construct.operations.operation.Operation")
    ops = []
    for k in range(3):
        o = Obj(f"op{k}", cls=op_cls)
        o.set("chops", {0: [], 1: [], 2: []})
        o.set("cell_zone", "")
        o.set("geometry", None)
        ops.append(o)
    mesh = Obj("mesh", cls=mesh_cls)
    empty_defaults(repo, mesh_cls, mesh)
    mesh.set("depot", list(ops))
    mesh.set("deleted", set())
    mesh.set("assembled", [])
    stores = {}
    for nm, attr in (("vertex_list", "vertices"), ("block_list", "blocks"), ("edge_list", "edges"), ("patch_list", "patches"), ("face_list", "faces"), ("geometry_list", "geometry")):
        lst = Obj(nm)
        lst.set(attr, [])
        stores[nm] = (lst, attr)
        mesh.set(nm, lst)

    def hook(ev, call: ast.Call, name):
        ch = attr_chain(call.func) or ""
        if ch == "self._add_vertices":
            o = ev.eval(call.args[0])
            vs = [Sym(f"V:{o._name}:{k}") for k in range(8)]
            stores["vertex_list"][0].get("vertices").extend(vs)
            return vs
        if ch == "Block":
            b = Obj("block")
            b.set("index", ev.eval(call.args[0]))
            return b
        if ch == "self.edge_list.add_from_operation":
            o = ev.eval(call.args[1])
            if o._name == "op1":
                raise Raised("ValueError")
            stores["edge_list"][0].get("edges").append(Sym(f"E:{o._name}"))
            return []
        if ch == "get_args":
            return (0, 1, 2)
        if isinstance(call.func, ast.Attribute) and isinstance(call.func.value, ast.Attribute) and attr_chain(call.func.value) in (f"self.{n_}" for n_ in stores):
            lst, attr = stores[attr_chain(call.func.value).split(".")[1]]
            if call.func.attr == "add":
                lst.get(attr).append(Sym(f"{attr}:{len(lst.get(attr))}"))
                return None
            if call.func.attr == "clear":
                del lst.get(attr)[:]
                return None
        if ch in ("self.add_geometry",):
            return None
        return NO_MATCH

    raised = None
    try:
        Evaluator(repo=repo, module=fn.module, call_hook=hook).call_funcinfo(fn, [mesh])
    except Raised as err:
        raised = err.exc_name
    except NotEvaluable as err:
        raise AnalysisError(f"Mesh.assemble not evaluable on the failing-edge model: {err}") from err
    r.check(raised == "ValueError", fn, "the error of the failing operation reaches the caller", f"Mesh.assemble swallows the error raised while the edges of the second operation are created (ended with {raised!r}): the user is not told that the mesh is incomplete", fn.node, key="error-propagates")
    left = {nm: len(lst.get(attr)) for nm, (lst, attr) in stores.items() if nm != "geometry_list"}
    left["assembled"] = len(mesh.get("assembled"))
    r.check(
        not any(left.values()),
        fn,
        "nothing of the failed assembly is left",
        f"after Mesh.assemble failed on the second of three operations the mesh still holds {({k: v for k, v in left.items() if v})}: is_assembled is true, the next assemble() returns at once and write() "
        "writes the one block that was finished - box a, box b with an Origin edge at the middle of its chord: assemble() raises; the user repairs b; write() writes ONE hex without any message",
        fn.node,
        key="nothing-left",
    )
    return r


assemble_atomic.rule_id = "C12.ASSEMBLE-ATOMIC"


def backport_owns_points(repo: Repo) -> RuleRun:
    """After backport() every operation owns its eight points: Face.update (and every other coordinate setter) stores copies."""
    from ..alias import coordinate_store_rule

    return coordinate_store_rule(repo, PROP, "C12.BACKPORT-OWNS-POINTS")


backport_owns_points.rule_id = "C12.BACKPORT-OWNS-POINTS"

def no_class_state(repo: Repo) -> RuleRun:
    """The model's state (depot, deleted set, lists) belongs to one mesh: no class-level container is changed in place."""
    from ..alias import class_state_rule

    return class_state_rule(repo, PROP, "C12.NO-CLASS-STATE")


no_class_state.rule_id = "C12.NO-CLASS-STATE"

def no_stale_lazy_cache(repo: Repo) -> RuleRun:
    """Writing again after the model changed gives the file of the changed model: no value resolved for one edge length / one history is kept for the next (Chop.results, slave patches)."""
    from ..memo import lazy_cache_rule

    return lazy_cache_rule(repo, PROP, "C12.NO-STALE-CACHE", ('grading.', 'lists.', 'items.', 'mesh'))


no_stale_lazy_cache.rule_id = "C12.NO-STALE-CACHE"

def empty_patch(repo: Repo, prop: str = PROP, rule: str = "C12.EMPTY-PATCH") -> RuleRun:
    """'Deleting an operation removes its block and nothing else' / 'the same dictionary as a single assembly': PatchList.clear()
    keeps the Patch objects (so that a type set by the user survives), hence a patch whose only operation was deleted is still in
    the list, without faces - and must not be written, because the model built with that operation deleted from the start has no
    such entry. Abstract run of PatchList.description on a list of one patch with a face and one without."""
    from collections import OrderedDict

    from ..peval import Evaluator, NotEvaluable, Obj, Raised

    r = RuleRun(prop, rule, floor=2, what="the boundary section lists the patches that have faces, and only those (a patch emptied by delete() + clear() + assemble() is kept for its settings but not written)")
    desc = repo.find_method(repo.cls("lists.patch_list.PatchList"), "description")
    r.require(desc is not None, "PatchList.description vanished")
    for order in (("inlet", "lid", "outlet"), ("lid", "inlet", "outlet"), ("inlet", "outlet", "lid")):
        pl = Obj("patch_list", cls=repo.cls("lists.patch_list.PatchList"))
        patches = OrderedDict()
        for nm in order:
            p_ = Obj(nm)
            p_.set("name", nm)
            p_.set("sides", [] if nm == "lid" else [Obj(f"side-{nm}")])
            p_.set("kind", "wall" if nm == "lid" else "patch")
            p_.set("description", f"<{nm}>")
            patches[nm] = p_
        pl.set("patches", dict(patches))
        pl.set("default", {})
        pl.set("merged", [])
        try:
            out = Evaluator(repo=repo, module=desc.module).call_funcinfo(desc, [pl])
        except (Raised, NotEvaluable) as err:
            raise AnalysisError(f"PatchList.description not evaluable: {err}") from err
        r.require(isinstance(out, str), "PatchList.description does not evaluate to a string")
        want = [f"<{nm}>" for nm in order if nm != "lid"]
        got = re.findall(r"<\w+>", out)
        r.check(got == want, desc, f"patches {order} (lid without faces): written {got}", f"PatchList.description for patches {order}, 'lid' having no faces, writes {got}; expected {want} - a patch without faces is an entry the model built without the deleted operation does not have", desc.node, key=f"order:{'-'.join(order)}")
    return r


empty_patch.rule_id = "C12.EMPTY-PATCH"

def neighbour_untouched(repo: Repo) -> RuleRun:
    """'writing the same mesh a second time produces the same file': grading a block from its neighbour reads the neighbour's chops and leaves them as they are. Same rule as C04.ALIGNMENT-BRANCH."""
    from ..report import rebrand
    from . import c04

    return rebrand(c04.alignment_branch(repo), PROP, "C12.NEIGHBOUR-UNTOUCHED")


neighbour_untouched.rule_id = "C12.NEIGHBOUR-UNTOUCHED"


def exact_moves(repo: Repo) -> RuleRun:
    """'back-porting after moving vertices ... the re-assembled mesh has the moved positions' - however small the move is compared
    with the coordinates: nothing in the model's round trip decides "unchanged" with a tolerance that grows with the magnitude of
    the operands (np.isclose / np.allclose default to rtol = 1e-5: a vertex at x = 2000 nudged by 0.015 is 'unchanged')."""
    from .. import tolerance

    r = RuleRun(PROP, "C12.EXACT-MOVES", floor=5, what="no closeness test with a relative part (np.isclose / np.allclose defaults, scaled tolerances) in the mesh's assemble / backport / clear / write path")
    mod = repo.module("mesh")
    tol = tolerance.library_tol(repo)
    for fn in sorted(repo.all_functions(), key=lambda f: f.qualname):
        if fn.module is not mod:
            continue
        tests = tolerance.tests_in(repo, fn.module, fn.node)
        if not tests:
            r.ok(fn, f"{fn.name}: no closeness test", key=f"fn:{fn.name}")
        for i, c in enumerate(tests):
            tolerance._judge(r, fn, c, tol, i, True)
    return r


exact_moves.rule_id = "C12.EXACT-MOVES"

def grade_replay(repo: Repo) -> RuleRun:
    """'... writing the same mesh a second time produces the same file': the second grading pass must repeat the first, so it has
    to start where the first one started - no wire carries a grading of the previous pass and no manager that collects copies
    of its neighbours' chops still holds them WHEN THE FIRST BLOCK IS GRADED (a wire left 'defined' is copied from, inverted
    copies turn the integer 1 into 1.0, and after vertices were moved the stale counts meet the fresh ones in the consistency check).
    Abstract run of BlockList.grade_blocks (real Block / Axis code; the managers' grade() is the observation point) on two blocks
    whose managers are in the state a finished pass leaves behind."""
    from ..peval import NO_MATCH, Evaluator, NotEvaluable, Obj, Raised, Sym

    r = RuleRun(PROP, "C12.GRADE-REPLAY", floor=4, what="a grading pass starts from scratch: before the first block is graded no wire of any block carries a grading of the previous pass and no propagating manager holds copied chops")
    fn = repo.func("lists.block_list.BlockList.grade_blocks")
    block_cls, axis_cls, bl_cls = repo.cls("items.block.Block"), repo.cls("items.wires.axis.Axis"), repo.cls("lists.block_list.BlockList")
    chop_mgr, prop_mgr = repo.cls("items.wires.manager.WireChopManager"), repo.cls("items.wires.manager.WirePropagateManager")
    blocks, managers = [], []
    for b in range(2):
        axes = []
        for a in range(3):
            chopped = b == 1 and a == 0 or b == 0 and a == 2
            mgr = Obj(f"mgr_b{b}a{a}", cls=chop_mgr if chopped else prop_mgr)
            mgr.set("chops", [Obj(f"{'user' if chopped else 'copied'}-chop_b{b}a{a}")])
            mgr.set("grading", Obj(f"stale-axis-grading_b{b}a{a}", is_defined=True, length=Sym("old")))
            wires = []
            for w in range(4):
                wire = Obj(f"wire_b{b}a{a}{w}")
                wire.set("grading", Obj(f"stale-grading_b{b}a{a}{w}", is_defined=True, length=Sym("old")))
                wire.set("length", Sym(f"len_b{b}a{a}{w}"))
                wire.set("is_valid", True)
                wire.set("coincidents", set())
                wires.append(wire)
            mgr.set("wires", wires)
            managers.append((b, a, chopped, mgr))
            ax = Obj(f"axis_b{b}a{a}", cls=axis_cls)
            ax.set("index", a)
            ax.set("wires", mgr)
            ax.set("neighbours", set())
            axes.append(ax)
        blk = Obj(f"block{b}", cls=block_cls)
        blk.set("axes", axes)
        blocks.append(blk)
    bl = Obj("block_list", cls=bl_cls)
    bl.set("blocks", blocks)
    snapshot: Dict[str, object] = {}
    counter = {"n": 0}

    def hook(ev, call: ast.Call, name):
        f_ = call.func
        if name == "Grading" or (name or "").endswith(".Grading"):
            counter["n"] += 1
            return Obj(f"fresh-grading{counter['n']}", is_defined=False, length=ev.eval(call.args[0]) if call.args else None)
        if isinstance(f_, ast.Attribute) and f_.attr == "grade":
            recv = ev.eval(f_.value)
            if isinstance(recv, Obj) and recv.has("wires") and recv.has("chops"):
                if "at" not in snapshot:
                    snapshot["at"] = recv._name
                    snapshot["wires"] = {w._name: w.get("grading")._name for _b, _a, _c, m in managers for w in m.get("wires")}
                    snapshot["chops"] = {m._name: [c._name for c in m.get("chops")] for _b, _a, _c, m in managers}
                return None
        return NO_MATCH

    try:
        Evaluator(repo=repo, module=fn.module, call_hook=hook, max_steps=200000).call_funcinfo(fn, [bl])
    except Raised as err:
        raise AnalysisError(f"BlockList.grade_blocks raises {err.exc_name} on the model of a finished pass") from err
    except NotEvaluable as err:
        raise AnalysisError(f"BlockList.grade_blocks not evaluable on the model of a finished pass: {err}") from err
    r.require("at" in snapshot, "BlockList.grade_blocks grades no wire manager on the model")
    for b, a, chopped, mgr in managers:
        stale = sorted(w for w, g in snapshot["wires"].items() if w.startswith(f"wire_b{b}a{a}") and g.startswith("stale"))
        kind = "chopped" if chopped else "propagated"
        r.check(
            not stale,
            fn,
            f"block {b} axis {a} ({kind}): wires start the pass without a grading",
            f"when the first block is graded ({snapshot['at']}.grade()), the wires of block {b} axis {a} ({kind}) still carry the gradings of the previous pass ({stale[0] if stale else ''}, ...): "
            "they count as defined, so neighbours copy them (an inverted copy turns the written '1' into '1.0' - the second write() of a stock Cylinder differs from the first) and a propagated "
            "direction is never re-graded after vertices were moved (stale counts then meet fresh ones: InconsistentGradingsError on a consistent mesh)",
            fn.node,
            key=f"wires:b{b}a{a}",
        )
        if not chopped:
            left = snapshot["chops"][mgr._name]
            r.check(not left, fn, f"block {b} axis {a}: copied chops forgotten", f"the propagating manager of block {b} axis {a} still holds the chops copied in the previous pass ({left}) when the next pass starts: the pass cannot repeat the first one", fn.node, key=f"chops:b{b}a{a}")
        else:
            kept = snapshot["chops"][mgr._name]
            r.check(kept == [f"user-chop_b{b}a{a}"], fn, f"block {b} axis {a}: the user's chops are kept", f"the chopped axis of block {b} loses / changes the user's chops at the start of a pass: {kept}", fn.node, key=f"chops:b{b}a{a}")
    return r


grade_replay.rule_id = "C12.GRADE-REPLAY"


def labels_private(repo: Repo) -> RuleRun:
    """'... deleting an operation removes its block and nothing else': the projections it added to shared vertices go with it. Same rule as C05.LABELS-PRIVATE."""
    from . import c05

    return c05.labels_private(repo, PROP, "C12.LABELS-PRIVATE")


labels_private.rule_id = "C12.LABELS-PRIVATE"


def geometry_redeclared(repo: Repo) -> RuleRun:
    """'... the re-assembled mesh has the moved positions': clear() keeps the geometry list, so the geometry an entity declares again after it was moved must replace the older entry. Same rule as C06.GEOMETRY-REDECLARED."""
    from ..report import rebrand
    from . import c06

    return rebrand(c06.geometry_redeclared(repo), PROP, "C12.GEOMETRY-REDECLARED")


geometry_redeclared.rule_id = "C12.GEOMETRY-REDECLARED"


def patch_state(repo: Repo) -> RuleRun:
    """'... including patch types and settings changed through the mesh': the latest modify_patch wins, also when it takes the settings away. Same rule as C06.PATCH-STATE."""
    from ..report import rebrand
    from . import c06

    return rebrand(c06.patch_state(repo), PROP, "C12.PATCH-STATE")


patch_state.rule_id = "C12.PATCH-STATE"


def writers_pure(repo: Repo, prop: str = PROP, rule: str = "C12.WRITERS-PURE") -> RuleRun:
    """'... writing the same mesh a second time produces the same file' and 'patch types and settings changed through the mesh'
    survive: producing the text of a section reads the model. A `description` / `format_*` member that assigns or mutates an
    attribute of its own object (dropping the patches that are empty at the moment, say) changes what the NEXT assembly and the
    next file are made from. Interprocedural may-mutate analysis of every description property and format method."""
    from ..effects import Effects

    eff = Effects(repo)
    r = RuleRun(prop, rule, floor=10, what="no description property / format method of the mesh lists and items changes an attribute of its own object")
    n = 0
    for fn in sorted(repo.all_functions(), key=lambda f_: f_.qualname):
        short = fn.module.name.split("classy_blocks.")[-1]
        if fn.cls is None or not (short.startswith("lists.") or short.startswith("items.") or short.startswith("grading.") or short == "mesh"):
            continue
        if not (fn.name == "description" or fn.name.startswith("format_")):
            continue
        n += 1
        muts = sorted(eff.mutated_self_attrs(fn))
        stores = sorted({t.attr for x in ast.walk(fn.node) if isinstance(x, (ast.Assign, ast.AugAssign)) for t in (x.targets if isinstance(x, ast.Assign) else [x.target]) if isinstance(t, ast.Attribute) and fn.params and attr_chain(t.value) == fn.params[0]})
        changed = sorted(set(muts) | {f"self.{a}" for a in stores})
        r.check(
            not changed,
            fn,
            f"{fn.qualname}: reads only",
            f"{fn.qualname} changes {changed} while producing text: what is written now alters the model the next assembly / file is made from (a patch that is empty at the moment loses its type and settings for good)",
            fn.node,
            key="pure",
        )
    r.require(n >= 10, f"only {n} description / format members found")
    return r


writers_pure.rule_id = "C12.WRITERS-PURE"


RULES = [clear_complete, grade_idempotent, lockstep_filter, backport_map, delete_skip, assemble_walk, backport_owns_points, no_class_state, no_stale_lazy_cache, empty_patch, neighbour_untouched, exact_moves, grade_replay, labels_private, geometry_redeclared, patch_state, writers_pure, assemble_atomic, backport_keeps_options]
